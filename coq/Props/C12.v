(* Props/C12.v — C12: an in-memory timeline reflects exactly the history of writes made to it.
   Statements only (Proofs/MemRefine.v, MemRefine2.v).  Model/Mem.v is the state machine of
   MemoryTimeline; Spec/MemSpec.v the abstract machine (a bag of intervals + series with their
   individually removed instances) and [trace_ok], which judges a whole observed trace:
   every success flag and every slice, forward and reverse. *)
From CG Require Import Proofs.Defs Spec.MemSpec Harness.MemChk Proofs.MemRefine Proofs.MemRefine2.

(* for EVERY operation history the model's observable trace is the abstract machine's *)
Theorem C12_history : forall ops, Forall op_wf ops -> trace_ok ainit ops (mrun minit ops) = true.
Proof. exact MemRefine2.C12_history. Qed.
Print Assumptions C12_history.

(* success precisely when the write took effect; an unsuccessful removal changes nothing —
   literally: the state after equals the state before, in the model and in the abstract machine *)
Theorem C12_flags : forall ops o, Forall op_ok ops -> op_ok o -> is_slice o = false ->
  let m := fold_left (fun m o => fst (mstep m o)) ops minit in
  let s := fold_left (fun s o => fst (astep s o)) ops ainit in
  exists f, snd (astep s o) = Some f /\ snd (mstep m o) = ([f], []) /\
            (f = false -> fst (mstep m o) = m /\ fst (astep s o) = s).
Proof. exact MemRefine2.C12_flags. Qed.
Print Assumptions C12_flags.

(* every slice, in both directions, is the clip of the bag plus the series' remaining occurrences *)
Theorem C12_slices : forall m s a b rv, R m s ->
  mset_eqb (mslice m a b rv) (expected_slice s a b) = true /\
  sorted_by (if rv then Z.geb else Z.leb) (mslice m a b rv) = true.
Proof. exact slice_sim. Qed.
Print Assumptions C12_slices.

(* removing an instance succeeds iff an occurrence (not yet removed) starts exactly there *)
Theorem C12_instance_test : forall p t, 0 < p_period p -> 0 < p_dur p ->
  existsb (fun o => fstart o =? t) (pat_fetch p t (t + 1)) = is_occurrence (abs_pat p) t.
Proof. exact instance_test. Qed.
Print Assumptions C12_instance_test.

(* container and call metadata merged as documented *)
Theorem C12_metadata_merge : forall i k c, oracle_meta (mkMeta i k c (meta_merge i k c)) = true.
Proof. exact meta_merge_spec. Qed.
Print Assumptions C12_metadata_merge.

Example C12_nonvacuous : Forall op_wf demo /\ trace_ok ainit demo (mrun minit demo) = true.
Proof. split; [exact demo_wf | exact demo_ok]. Qed.

(* ---- tie C (extended): statements about the Gallina translation of the SOURCE TEXT, regenerated from
   /repo on every run (Gen/Source.v); external calls are function parameters of the generated definitions ---- *)
From CG Require Import Model.Loop Gen.Source Proofs.GenEq4.

(* MemoryTimeline._fetch_static (binary search on the end bound, scan, reverse) on every store the
   timeline can build *)
Theorem C12_source_fetch_static_is_model : forall evs a b rv,
  g_mem_fetch_static (sl_build evs) a b rv = fetch_static (sl_build evs) a b rv.
Proof. exact src_stored_is_model_on_built_stores. Qed.
Print Assumptions C12_source_fetch_static_is_model.

(* ---- tie C, third extension (Proofs/GenEq_mem.v): the write paths of MemoryTimeline, its fetch, and the
   dispatch of MutableTimeline, as translated from the source text.  A stored RecurringPattern, its id and its
   exdates are abstract in the generated definitions; here they are the model's (Model/MemSrc.v), and
   self._recurring_patterns is [ents (m_pats s)] ---- *)
From CG Require Import Model.LoopMem Model.MemSrc Proofs.Stored Proofs.GenEq_mem.

(* MemoryTimeline.fetch (pattern streams in storage order + the static stream, heapq.merge, both directions)
   on every state the refinement relation covers *)
Theorem C12_source_fetch_is_model : forall m s a b rv, R m s ->
  g_mem_fetch m_pfetch (m_static m) (ents (m_pats m)) (Some a) (Some b) rv = mfetch m a b rv.
Proof. intros m s a b rv H. apply g_mem_fetch_eq, sorted_key_sorted_start, (R_sorted _ _ H). Qed.
Print Assumptions C12_source_fetch_is_model.

(* _remove_interval / _remove_series are the model's remove / remove_series, state and WriteResult: no hypothesis *)
Example C12_source_remove_is_model : forall s ev,
  g_mem_remove_interval m_rid m_truthy N.eqb m_pfetch m_exdates m_exs_add m_set_exdates (m_static s) (ents (m_pats s)) ev =
  let r := mremove s ev in (m_static (fst r), ents (m_pats (fst r)), snd r)
  := g_mem_remove_interval_eq.
Print Assumptions C12_source_remove_is_model.

Example C12_source_remove_series_is_model : forall s ev,
  g_mem_remove_series m_rid m_truthy N.eqb m_pfetch m_exdates m_exs_add m_set_exdates (m_static s) (ents (m_pats s)) ev =
  let r := mremove_series s ev in (m_static (fst r), ents (m_pats (fst r)), snd r)
  := g_mem_remove_series_eq.
Print Assumptions C12_source_remove_series_is_model.

(* _remove_recurring_instance is the model's remove_instance for an event that names a series *)
Example C12_source_remove_instance_is_model : forall st0 pats sq ev, series_of ev <> 0%N ->
  g_mem_remove_recurring_instance m_rid m_truthy N.eqb m_pfetch m_exdates m_exs_add m_set_exdates (ents pats) ev =
  let r := remove_instance (mkM st0 pats sq) ev in (ents (m_pats (fst r)), [wr_rm ev (snd r)])
  := g_mem_remove_recurring_instance_eq.
Print Assumptions C12_source_remove_instance_is_model.

(* so the headline facts hold of the code text: the translated remove() succeeds on an occurrence exactly when
   one (not yet removed) starts there — C12_instance_test on the source *)
Theorem C12_source_instance_test : forall p ev t,
  series_of ev = p_ser p -> p_ser p <> 0%N -> st ev = Some t -> 0 < p_period p -> 0 < p_dur p ->
  map wr_ok (snd (g_mem_remove_recurring_instance m_rid m_truthy N.eqb m_pfetch m_exdates m_exs_add m_set_exdates
                                                  (ents [p]) ev)) = [is_occurrence (abs_pat p) t].
Proof.
  intros p ev t Hs Hn Ht Hp Hd.
  rewrite (g_mem_remove_recurring_instance_eq [] [p] 0%N ev) by (rewrite Hs; exact Hn).
  cbv zeta. unfold remove_instance. cbn [m_pats m_static m_seq find_pat]. rewrite Hs, N.eqb_refl, Ht.
  rewrite (instance_test p t Hp Hd). destruct (is_occurrence (abs_pat p) t); reflexivity.
Qed.
Print Assumptions C12_source_instance_test.

(* the batch removals and the dispatch of remove / remove_series on the kind of argument: a collection is
   removed item by item, exactly as a run of single removals of the model *)
Example C12_source_remove_dispatch : forall s x,
  g_mt_remove (uncurry3 (g_mem_remove_interval m_rid m_truthy N.eqb m_pfetch m_exdates m_exs_add m_set_exdates))
              (uncurry3l (g_mem_remove_many m_rid m_truthy N.eqb m_pfetch m_exdates m_exs_add m_set_exdates))
              (view2 s) x =
  let r := mremove_any s x in (view2 (fst r), snd r)
  := g_mt_remove_mem_eq.
Print Assumptions C12_source_remove_dispatch.

Example C12_source_remove_series_dispatch : forall s x,
  g_mt_remove_series (uncurry3 (g_mem_remove_series m_rid m_truthy N.eqb m_pfetch m_exdates m_exs_add m_set_exdates))
              (uncurry3l (g_mem_remove_many_series m_rid m_truthy N.eqb m_pfetch m_exdates m_exs_add m_set_exdates))
              (view2 s) x =
  let r := mremove_series_any s x in (view2 (fst r), snd r)
  := g_mt_remove_series_mem_eq.
Print Assumptions C12_source_remove_series_dispatch.

Theorem C12_source_remove_many_is_a_run : forall s evs,
  fst (mremove_many s evs) = fold_left (fun m o => fst (mstep m o)) (map MRemove evs) s /\
  map wr_ok (snd (mremove_many s evs)) = concat (map fst (mrun s (map MRemove evs))).
Proof. exact mremove_many_run. Qed.
Print Assumptions C12_source_remove_many_is_a_run.

(* add(): the dispatch, _add_interval (the stored event goes into the sorted store: add(Interval) of the model),
   _add_recurring (a new series under the next id: add(RecurringPattern) of the model) *)
Example C12_source_add_dispatch :
  forall (ST PAT K V : Type) (eqb : K -> K -> bool) vars_of
         (addi : ST -> ivl -> list (K * option V) -> ST * list wres)
         (addr : ST -> PAT -> list (K * option V) -> ST * list wres)
         (addm : ST -> list ivl -> list (K * option V) -> ST * list wres) st0 item kw,
  g_mt_add eqb vars_of addi addr addm st0 item kw = madd_dispatch eqb vars_of addi addr addm st0 item kw
  := @g_mt_add_eq.
Print Assumptions C12_source_add_dispatch.

Example C12_source_add_interval_is_model :
  forall (K V : Type) (eqb : K -> K -> bool) rf (container : list (K * option V)) s i md,
  let ev := stored_event eqb rf container i md in
  let r := mstep s (MAdd ev) in
  g_mem_add_interval eqb rf container (m_static s) i md = (m_static (fst r), [mkWR (flag_of r) (Some ev) None]) /\
  m_pats (fst r) = m_pats s /\ m_seq (fst r) = m_seq s
  := @g_mem_add_interval_model.
Print Assumptions C12_source_add_interval_is_model.

(* ... and every field of the stored event's metadata is the meta_merge the C12 checks compare with the code *)
Example C12_source_metadata_merge : forall (item_fields kw container : list (N * option N)) k,
  NoDup (map fst kw) -> NoDup (map fst container) ->
  dict_get_opt N.eqb k (fill_defaults N.eqb container (dict_update N.eqb item_fields kw)) =
  meta_merge (dict_get_opt N.eqb k item_fields)
             (if dict_has N.eqb k kw then Some (dict_get_opt N.eqb k kw) else None)
             (if dict_has N.eqb k container then Some (dict_get_opt N.eqb k container) else None)
  := add_metadata_is_meta_merge.
Print Assumptions C12_source_metadata_merge.

Example C12_source_add_recurring_is_model :
  forall krid pmeta chas cann (container kw : list (N * option N)) s period phase dur tag,
  let p0 := mkP 0 period phase dur [] tag in
  chas p0 = true -> existsb (N.eqb krid) (cann p0) = true ->
  let r := mstep s (MAddPat period phase dur tag) in
  g_mem_add_recurring N.eqb m_make_id pmeta chas cann krid (fun id : N => id) (fun _ => tt) (fun _ => tt)
                      (m_make_pattern krid) container (ents (m_pats s)) (m_seq s) p0 kw =
  (ents (m_pats (fst r)), m_seq (fst r), [wr_noev (flag_of r)]) /\ m_static (fst r) = m_static s
  := g_mem_add_recurring_model.
Print Assumptions C12_source_add_recurring_is_model.

(* the SortedList key of the source is the key the model's store is sorted by *)
Example C12_source_sort_key : forall a b,
  key_le a b = pair_le (g_interval_sort_key a) (g_interval_sort_key b) /\
  key_lt a b = pair_lt (g_interval_sort_key a) (g_interval_sort_key b)
  := g_interval_sort_key_orders.
Print Assumptions C12_source_sort_key.
