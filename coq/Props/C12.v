(* Props/C12.v — C12: an in-memory timeline reflects exactly the history of writes made to it.
   Statements only (Proofs/MemRefine.v, MemRefine2.v).  Model/Mem.v is the state machine of
   MemoryTimeline; Spec/MemSpec.v the abstract machine (a bag of intervals + series with their
   individually removed instances) and [trace_ok], which judges a whole observed trace:
   every success flag and every slice, forward and reverse. *)
From CG Require Import Proofs.Defs Spec.MemSpec Harness.MemChk Proofs.MemRefine Proofs.MemRefine2.

(* for EVERY operation history the model's observable trace is the abstract machine's *)
Theorem C12_history : forall ops, Forall op_wf ops -> trace_ok ainit ops (mrun minit ops) = true.
Proof. exact MemRefine2.C12_history. Qed.
Print Assumptions C12_history.

(* success precisely when the write took effect; an unsuccessful removal changes nothing —
   literally: the state after equals the state before, in the model and in the abstract machine *)
Theorem C12_flags : forall ops o, Forall op_ok ops -> op_ok o -> is_slice o = false ->
  let m := fold_left (fun m o => fst (mstep m o)) ops minit in
  let s := fold_left (fun s o => fst (astep s o)) ops ainit in
  exists f, snd (astep s o) = Some f /\ snd (mstep m o) = ([f], []) /\
            (f = false -> fst (mstep m o) = m /\ fst (astep s o) = s).
Proof. exact MemRefine2.C12_flags. Qed.
Print Assumptions C12_flags.

(* every slice, in both directions, is the clip of the bag plus the series' remaining occurrences *)
Theorem C12_slices : forall m s a b rv, R m s ->
  mset_eqb (mslice m a b rv) (expected_slice s a b) = true /\
  sorted_by (if rv then Z.geb else Z.leb) (mslice m a b rv) = true.
Proof. exact slice_sim. Qed.
Print Assumptions C12_slices.

(* removing an instance succeeds iff an occurrence (not yet removed) starts exactly there *)
Theorem C12_instance_test : forall p t, 0 < p_period p -> 0 < p_dur p ->
  existsb (fun o => fstart o =? t) (pat_fetch p t (t + 1)) = is_occurrence (abs_pat p) t.
Proof. exact instance_test. Qed.
Print Assumptions C12_instance_test.

(* container and call metadata merged as documented *)
Theorem C12_metadata_merge : forall i k c, oracle_meta (mkMeta i k c (meta_merge i k c)) = true.
Proof. exact meta_merge_spec. Qed.
Print Assumptions C12_metadata_merge.

Example C12_nonvacuous : Forall op_wf demo /\ trace_ok ainit demo (mrun minit demo) = true.
Proof. split; [exact demo_wf | exact demo_ok]. Qed.

(* ---- tie C (extended): statements about the Gallina translation of the SOURCE TEXT, regenerated from
   /repo on every run (Gen/Source.v); external calls are function parameters of the generated definitions ---- *)
From CG Require Import Model.Loop Gen.Source Proofs.GenEq4.

(* MemoryTimeline._fetch_static (binary search on the end bound, scan, reverse) on every store the
   timeline can build *)
Theorem C12_source_fetch_static_is_model : forall evs a b rv,
  g_mem_fetch_static (sl_build evs) a b rv = fetch_static (sl_build evs) a b rv.
Proof. exact src_stored_is_model_on_built_stores. Qed.
Print Assumptions C12_source_fetch_static_is_model.
