(* Props/C02.v — C02: metadata-carrying operations keep every event intact, only trimming
   spans.  Statements only.  The reference semantics is Spec/Sets.v ([ref], [minus_runs],
   [inter_ref], [clipW]); payloads stand for all non-time fields of an event. *)
From CG Require Import Proofs.Defs Proofs.Merge Proofs.Diff Proofs.InterDisjoint Proofs.Clip
     Proofs.RefSpec Proofs.Assembly Proofs.Assembly2.

(* union: every event of every operand is returned exactly once, untouched — any operands *)
Theorem C02_union_events_exact : forall lt ss, Permutation (merge_by lt ss) (concat ss).
Proof. exact merge_perm. Qed.
Print Assumptions C02_union_events_exact.

(* filter: exactly the events satisfying the predicate, in order, untouched *)
Theorem C02_filter_events_exact : forall env s f a b rv,
  fetch env (Filt s f) a b rv = filter (feval env f) (fetch env s a b rv).
Proof. reflexivity. Qed.
Print Assumptions C02_filter_events_exact.

(* the window clips each event of a sorted stream once, payload kept (list equality) *)
Theorem C02_slice_clips_each_event : forall m xs a b,
  sorted_start xs ->
  inter_sweep [xs; [mkI a b Plain]] (emit_sel [m; true]) = flat_map (clipW a b) xs.
Proof. exact clip_sweep_masks. Qed.
Print Assumptions C02_slice_clips_each_event.

(* difference: for each source event, one copy per maximal surviving run, payload and
   None-encoding kept; ARBITRARY subtractors; source internally non-overlapping (KF-D1) *)
Theorem C02_difference_events_exact_partial : forall src subs,
  Forall wf_ivl src -> Forall canon_ivl src -> disjoint_sorted src ->
  Forall wf_ivl subs -> sorted_start subs ->
  dsweep src subs = flat_map (fun x => minus_runs x subs) src.
Proof. exact dsweep_minus_runs. Qed.
Print Assumptions C02_difference_events_exact_partial.

(* what [minus_runs] means: copies of x (same payload), strictly separated (maximal runs),
   covering exactly x minus the holes — for arbitrary holes *)
Theorem C02_minus_runs_meaning : forall x holes,
  wf_ivl x -> canon_ivl x ->
  (forall f, In f (minus_runs x holes) -> frag_of x f) /\
  separatedP (minus_runs x holes) /\
  (forall t, covers (minus_runs x holes) t = inside x t && negb (covers holes t)).
Proof. exact minus_runs_spec. Qed.
Print Assumptions C02_minus_runs_meaning.

(* even with overlapping source events nothing is invented or altered: every fragment is a
   trimmed copy of one source event (what fails there is completeness, KF-D1) *)
Theorem C02_difference_never_invents : forall src subs,
  Forall wf_ivl src -> Forall canon_ivl src -> Forall wf_ivl subs -> sorted_start subs ->
  forall f, In f (dsweep src subs) -> exists x, In x src /\ frag_of x f.
Proof. exact dsweep_fragments. Qed.
Print Assumptions C02_difference_never_invents.

(* intersection of k >= 2 operands with mask flags: the multiset of results is the reference
   semantics — each emitting operand contributes its own event trimmed to every region where
   one event of every operand overlaps; masks contribute only when all operands are masks.
   Operands internally non-overlapping (boundary of KF-D2). *)
Theorem C02_intersection_events_exact_partial : forall masks streams,
  (2 <= length streams)%nat ->
  Forall (Forall wf_ivl) streams -> Forall disjoint_sorted streams ->
  Permutation (inter_sweep streams (emit_sel masks)) (inter_ref masks streams).
Proof. exact inter_sweep_is_ref. Qed.
Print Assumptions C02_intersection_events_exact_partial.

(* for ANY operand streams (no disjointness): an intersection never invents or alters events —
   each result is a trimmed copy of one event of an emitting operand and lies inside the
   coverage of every operand *)
Theorem C02_intersection_never_invents : forall streams sel x,
  (2 <= length streams)%nat -> In x (inter_sweep streams sel) ->
  fstart x < fend x /\
  (exists i l c, nth_error streams i = Some l /\ sel i = true /\ In c l /\ pl x = pl c /\
                 fstart c <= fstart x /\ fend x <= fend c) /\
  forall t, inside x t = true -> forallb (fun l => covers l t) streams = true.
Proof. exact inter_sweep_sound_cover. Qed.
Print Assumptions C02_intersection_never_invents.

(* KF-D2 witness kept as a theorem about the model: an operand holding two equal-span events
   loses one of them (event 5 is never returned) *)
Theorem C02_intersection_equal_spans_refuted :
  let a := [mkI (Some 3) (Some 4) (Rich 2); mkI (Some 6) (Some 7) (Rich 3)] in
  let b := [mkI (Some 3) (Some 4) (Rich 4); mkI (Some 3) (Some 4) (Rich 5)] in
  existsb (fun o => pl_eqb (pl o) (Rich 5)) (inter_sweep [a; b] (fun _ => true)) = false.
Proof. vm_compute. reflexivity. Qed.
Print Assumptions C02_intersection_equal_spans_refuted.

(* ---- whole expression trees ([good], see Props/C01.v): the slice is, as a multiset, the clip
   of the window-independent reference evaluation [ref] — every source event with a surviving
   part is returned once per part, trimmed, payload intact, nothing else ---- *)
Theorem C02_events_exact : forall env e a b,
  good env e -> wf_win' a b ->
  Permutation (slice env e a b false)
              (expected env e (fst (norm_bounds a b)) (snd (norm_bounds a b))).
Proof. exact Assembly2.C02_events_exact. Qed.
Print Assumptions C02_events_exact.

Theorem C02_unbounded_evaluation : forall env e,
  good env e -> Permutation (fetch env e None None false) (ref env e).
Proof. exact fetch_full_exact. Qed.
Print Assumptions C02_unbounded_evaluation.

(* the check's multiset oracle is sound and complete for permutations *)
Theorem C02_oracle_is_permutation : forall l1 l2, mset_eqb l1 l2 = true <-> Permutation l1 l2.
Proof. exact mset_eqb_iff. Qed.
Print Assumptions C02_oracle_is_permutation.

(* ---- tie C: Intersection._sweep with the _SourceState class, as the code has them (Gallina translation of
   the SOURCE TEXT regenerated from /repo on every run; classes become records, methods functions
   returning the updated record; the index frozenset is read in ascending order) ---- *)
From CG Require Import Gen.Source Proofs.GenEq6.

Theorem C02_source_intersection_is_model : forall fuel streams idxs,
  fs_ok (length streams) idxs -> (total_len streams < fuel)%nat ->
  g_inter_sweep fuel streams idxs = Loop.RDone (inter_sweep streams (fun i => zmem (Z.of_nat i) idxs)).
Proof. exact g_inter_sweep_eq. Qed.
Print Assumptions C02_source_intersection_is_model.

(* hence per-event exactness of the k-way intersection, stated of the code text *)
Theorem C02_source_intersection_exact : forall fuel masks streams idxs,
  fs_ok (length streams) idxs -> (total_len streams < fuel)%nat -> (2 <= length streams)%nat ->
  (forall i, (i < length streams)%nat -> zmem (Z.of_nat i) idxs = emit_sel masks i) ->
  Forall (Forall wf_ivl) streams -> Forall disjoint_sorted streams ->
  exists l, g_inter_sweep fuel streams idxs = Loop.RDone l /\ Permutation.Permutation l (inter_ref masks streams).
Proof. exact src_inter_is_ref. Qed.
Print Assumptions C02_source_intersection_exact.

Example C02_source_intersection_fetch_is_model : _ := g_inter_fetch_is_model.
