(* Props/C16.v — C16: overlapping(point) returns the full intervals in effect at that instant.
   Statements only (Proofs/Overlap.v).  [ov_expected env e p] = the members of the unbounded
   evaluation [ref env e] whose span contains p, unclipped. *)
From CG Require Import Proofs.Defs Spec.TransformSpec Proofs.Overlap.

(* stored timelines: exactly the stored events containing p, whole — no hypotheses *)
Theorem C16_stored : forall env evs p x,
  In x (overlapping env (Stored evs) p) <-> In x evs /\ fstart x <= p < fend x.
Proof. exact overlapping_stored_in. Qed.
Print Assumptions C16_stored.

(* unions, leaf filters, buffers of stored timelines, nested in any way *)
Theorem C16_leaves : forall env e p, ov_leaf e = true ->
  Permutation (overlapping env e p) (ov_expected env e p).
Proof. exact overlapping_leaf_spec. Qed.
Print Assumptions C16_leaves.

(* difference: the surviving fragment around p carved by ALL subtractors however far they
   reach; nothing when p is removed; source events may overlap each other *)
Theorem C16_difference : forall env evs subss p,
  Forall wf_ivl evs -> Forall canon_ivl evs -> Forall (Forall wf_ivl) subss ->
  Permutation (overlapping env (Diff (Stored evs) (map Stored subss)) p)
              (ov_expected env (Diff (Stored evs) (map Stored subss)) p).
Proof. exact diff_overlapping_spec_gen. Qed.
Print Assumptions C16_difference.

(* complement: nothing when p is covered (always); otherwise the entire gap around p with None
   on an open side — for non-overlapping sources (the left edge uses the reverse sweep, KF-D3) *)
Theorem C16_complement_covered : forall env evs p,
  covers evs p = true -> overlapping env (Compl (Stored evs)) p = [].
Proof. exact compl_overlapping_covered. Qed.
Print Assumptions C16_complement_covered.

Theorem C16_complement_partial : forall env evs p,
  Forall wf_ivl evs -> disjoint_sorted (sl_build evs) -> NEG_INF <= p -> p + 1 < POS_INF ->
  overlapping env (Compl (Stored evs)) p = ov_expected env (Compl (Stored evs)) p.
Proof. exact compl_overlapping_expected. Qed.
Print Assumptions C16_complement_partial.

Theorem C16_complement_nested_refuted :
  overlapping [] (Compl (Stored [mkI (Some 2) (Some 5) (Rich 2); mkI (Some 3) (Some 4) (Rich 3)])) 7
  = [mkI (Some 4) None Plain].
Proof. exact compl_overlapping_nested_refuted. Qed.
Print Assumptions C16_complement_nested_refuted.

(* ---------- nested expressions (Proofs/Overlap2.v) ---------- *)
From CG Require Import Proofs.Assembly Proofs.Assembly2 Proofs.Reverse2 Proofs.Overlap2.
From Coq Require Import Sorting.Permutation.

(* difference over ANY source of the leaf class (unions, leaf filters, buffers of stored timelines —
   source events may overlap) with ANY subtractor expressions whose streams are well-formed and
   sorted (every `good` expression is): the fragment around p carved by all subtractors *)
Theorem C16_difference_general : forall env s subs p,
  ov_leaf s = true -> ref_ok env s -> Forall (sub_ok env) subs ->
  Permutation (overlapping env (Diff s subs) p) (ov_expected env (Diff s subs) p).
Proof. exact Overlap2.C16_difference_general. Qed.
Print Assumptions C16_difference_general.

(* complement of any expression in the reverse-exact domain: the entire gap around p, as a list *)
Theorem C16_complement_general : forall env s p,
  rgood env (Compl s) -> NEG_INF < p -> p + 1 < POS_INF ->
  overlapping env (Compl s) p = ov_expected env (Compl s) p.
Proof. exact Overlap2.C16_complement_general. Qed.
Print Assumptions C16_complement_general.

(* the oracle the check applies to the implementation holds of the model on the inductive class
   [ovdom]: leaves, differences (source in the class, any sub_ok subtractors) and complements,
   nested in any way (e.g. ((~x) - y) - z) *)
Theorem C16_nested_expected : forall env p e,
  NEG_INF < p -> p + 1 < POS_INF -> ovdom env p e ->
  mset_eqb (overlapping env e p) (ov_expected env e p) = true.
Proof. exact Overlap2.C16_nested_expected. Qed.
Print Assumptions C16_nested_expected.

(* "for ANY expression" is false: a union / intersection / filter / buffer above a complement or a
   difference answers from fetch(p, p+1) (known finding KF-OVCLIP-C16; same outputs in /repo) *)
Theorem C16_union_of_complement_refuted :
  exists env e p,
    overlapping env e p = [mkI (Some 10) (Some 11) Plain] /\
    ov_expected env e p = [mkI (Some 7) None Plain].
Proof. exact Overlap2.C16_union_of_complement_refuted. Qed.
Print Assumptions C16_union_of_complement_refuted.

(* merge_within is window-dependent by definition (C17), and overlapping() inherits that: it merges
   only the events meeting [p, p+1) *)
Theorem C16_merge_within_refuted :
  exists env e,
    fetch env e None None false = [mkI (Some 0) (Some 9) (Rich 1)] /\
    overlapping env e 0 = [mkI (Some 0) (Some 2) (Rich 1)] /\
    overlapping env e 4 = [mkI (Some 3) (Some 5) (Rich 2)].
Proof. exact Overlap2.C16_merge_within_refuted. Qed.
Print Assumptions C16_merge_within_refuted.

(* ---- tie C: the overlapping() methods as the code has them ---- *)
From CG Require Import Gen.Source Proofs.GenEq9.
Example C16_source_complement_overlapping_is_model : _ := g_compl_overlapping_is_model.
Example C16_source_difference_overlapping_is_model : _ := g_diff_overlapping_is_model.
Example C16_source_base_overlapping_is_model : _ := g_base_overlapping_is_model.
Print Assumptions C16_source_complement_overlapping_is_model.
Print Assumptions C16_source_difference_overlapping_is_model.

(* ---- tie C: overlapping(p) of a stored timeline is Timeline.overlapping over MemoryTimeline.fetch, i.e. over
   _fetch_static and the write paths that maintain the store, as the source text has them ---- *)
From CG Require Import Proofs.GenEq4 Proofs.GenEq_mem.
Example C16_source_fetch_static_is_model : _ := g_mem_fetch_static_eq.
Print Assumptions C16_source_fetch_static_is_model.
Example C16_source_memory_fetch_is_model : _ := g_mem_fetch_eq.
Print Assumptions C16_source_memory_fetch_is_model.
Example C16_source_remove_interval_is_model : _ := g_mem_remove_interval_eq.
Print Assumptions C16_source_remove_interval_is_model.
