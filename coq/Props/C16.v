(* Props/C16.v — C16: overlapping(point) returns the full intervals in effect at that instant.
   Statements only (Proofs/Overlap.v).  [ov_expected env e p] = the members of the unbounded
   evaluation [ref env e] whose span contains p, unclipped. *)
From CG Require Import Proofs.Defs Spec.TransformSpec Proofs.Overlap.

(* stored timelines: exactly the stored events containing p, whole — no hypotheses *)
Theorem C16_stored : forall env evs p x,
  In x (overlapping env (Stored evs) p) <-> In x evs /\ fstart x <= p < fend x.
Proof. exact overlapping_stored_in. Qed.
Print Assumptions C16_stored.

(* unions, leaf filters, buffers of stored timelines, nested in any way *)
Theorem C16_leaves : forall env e p, ov_leaf e = true ->
  Permutation (overlapping env e p) (ov_expected env e p).
Proof. exact overlapping_leaf_spec. Qed.
Print Assumptions C16_leaves.

(* difference: the surviving fragment around p carved by ALL subtractors however far they
   reach; nothing when p is removed; source events may overlap each other *)
Theorem C16_difference : forall env evs subss p,
  Forall wf_ivl evs -> Forall canon_ivl evs -> Forall (Forall wf_ivl) subss ->
  Permutation (overlapping env (Diff (Stored evs) (map Stored subss)) p)
              (ov_expected env (Diff (Stored evs) (map Stored subss)) p).
Proof. exact diff_overlapping_spec_gen. Qed.
Print Assumptions C16_difference.

(* complement: nothing when p is covered (always); otherwise the entire gap around p with None
   on an open side — for non-overlapping sources (the left edge uses the reverse sweep, KF-D3) *)
Theorem C16_complement_covered : forall env evs p,
  covers evs p = true -> overlapping env (Compl (Stored evs)) p = [].
Proof. exact compl_overlapping_covered. Qed.
Print Assumptions C16_complement_covered.

Theorem C16_complement_partial : forall env evs p,
  Forall wf_ivl evs -> disjoint_sorted (sl_build evs) -> NEG_INF <= p -> p + 1 < POS_INF ->
  overlapping env (Compl (Stored evs)) p = ov_expected env (Compl (Stored evs)) p.
Proof. exact compl_overlapping_expected. Qed.
Print Assumptions C16_complement_partial.

Theorem C16_complement_nested_refuted :
  overlapping [] (Compl (Stored [mkI (Some 2) (Some 5) (Rich 2); mkI (Some 3) (Some 4) (Rich 3)])) 7
  = [mkI (Some 4) None Plain].
Proof. exact compl_overlapping_nested_refuted. Qed.
Print Assumptions C16_complement_nested_refuted.
