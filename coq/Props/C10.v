(* Props/C10.v — C10: the cache honours its TTL: never stale beyond ttl, never refetching
   fresh ranges.  Statements only (Proofs/CacheInv.v).  Holds for masked and keyed caches,
   any source function, histories with source mutations. *)
From CG Require Import Proofs.Defs Model.Cache Proofs.CacheInv.

(* every reachable state: heap sorted, heap entries <-> cached segments with expiry = created+ttl,
   segments pairwise disjoint, created <= now *)
Theorem C10_heap_invariant : forall masked ttl tick t0 evs ops,
  ttl > 0 -> tick >= 0 -> Forall op_ok ops ->
  heap_inv ttl (r_state (crun_all masked ttl tick t0 evs ops)).
Proof. exact heap_inv_reachable. Qed.
Print Assumptions C10_heap_invariant.

(* staleness: after the eviction pass that read the clock as t, a segment survives iff it was
   fetched less than ttl before t *)
Theorem C10_fresh_segments_only : forall ttl t s h1 cv1 sk1,
  heap_inv ttl s -> evict_go t (heap s) (cover s) (sink s) = (h1, cv1, sk1) ->
  (forall c, In c cv1 -> In c (cover s) /\ t < cv_t c + ttl) /\
  (forall c, In c (cover s) -> ~ In c cv1 -> cv_t c + ttl <= t) /\
  (forall c, In c (cover s) -> (In c cv1 <-> t < cv_t c + ttl)).
Proof. exact fresh_covers_only. Qed.
Print Assumptions C10_fresh_segments_only.

(* economy: for a query in any reachable state the source fetches are exactly the maximal parts
   of the window not covered by fresh segments — confined to the window, disjoint from every
   fresh segment, pairwise separated, together with the fresh segments covering the window;
   afterwards the window is covered by segments all fresher than ttl *)
Theorem C10_economy : forall masked ttl tick t0 evs ops src a b rv s' out log,
  ttl > 0 -> tick >= 0 -> Forall op_ok ops -> NEG_INF < a -> a < b -> b < POS_INF ->
  let s := r_state (crun_all masked ttl tick t0 evs ops) in
  cquery masked ttl tick src s a b rv = (s', out, log) ->
  exists h1 cv1 sk1,
    evict_go (now s) (heap s) (cover s) (sink s) = (h1, cv1, sk1) /\
    (forall c, In c (cover s) -> (In c cv1 <-> now s < cv_t c + ttl)) /\
    log = log_of tick (now s + tick) (gaps_of cv1 a b) /\
    (forall t' gs ge, In (t', gs, ge) log ->
       a <= gs /\ gs < ge /\ ge <= b /\ now s + tick <= t' /\
       (forall c, In c cv1 -> cv_e c <= gs \/ ge <= cv_s c) /\
       (gs = a \/ exists c, In c cv1 /\ cv_e c = gs) /\
       (ge = b \/ exists c, In c cv1 /\ cv_s c = ge)) /\
    log_sep log /\
    (forall x, a <= x < b ->
       (exists c, In c cv1 /\ cv_s c <= x < cv_e c) \/
       (exists t' gs ge, In (t', gs, ge) log /\ gs <= x < ge)) /\
    heap_inv ttl s' /\
    (forall x, a <= x < b -> exists c, In c (cover s') /\ cv_s c <= x < cv_e c) /\
    (forall c, In c (cover s') -> now s < cv_t c + ttl).
Proof. exact C10_reachable. Qed.
Print Assumptions C10_economy.

(* a fully fresh window triggers no source fetch *)
Theorem C10_no_refetch_while_fresh : forall masked ttl tick src s a b rv s' out log,
  ttl > 0 -> tick >= 0 -> NEG_INF < a -> a < b -> b < POS_INF -> heap_inv ttl s ->
  (forall x, a <= x < b -> exists c, In c (cover s) /\ cv_s c <= x < cv_e c /\ now s < cv_t c + ttl) ->
  cquery masked ttl tick src s a b rv = (s', out, log) -> log = [].
Proof. exact no_refetch_while_fresh. Qed.
Print Assumptions C10_no_refetch_while_fresh.

(* ---------- staleness of the FIELDS an event carries, across stitches, with a mutating source
   (Proofs/CacheStale.v; keyed caches) ---------- *)
From CG Require Import Proofs.CacheStale.

(* For EVERY history of queries, clock advances and source mutations: an event returned by a
   query that still shows the fields from before the w-th mutation was served while that mutation
   was less than ttl old (t = the clock reading of the query's eviction pass; mt = the clock
   readings at the mutations).  Contrapositive: once a change is ttl old, no result shows the old
   fields any more — whichever segments were cached, stitched or expired in between. *)
Theorem C10_staleness_versions : forall evs ttl tick t0 ops a b rv s' out log,
  keyed_src evs -> ttl > 0 -> tick >= 0 -> Forall op_ok ops ->
  (count_mut ops < N.to_nat KEYMOD)%nat ->
  NEG_INF < a -> a < b -> b < POS_INF ->
  let r := crun_all false ttl tick t0 evs ops in
  let mt := mut_times false ttl tick t0 evs ops in
  cquery false ttl tick (src_of evs (r_ver r)) (r_state r) a b rv = (s', out, log) ->
  forall f, In f out ->
    forall w : nat, (N.to_nat (pl_ver (pl f)) < w <= length mt)%nat ->
    now (r_state r) < nth (w - 1) mt 0 + ttl.
Proof. exact CacheStale.C10_staleness_versions. Qed.
Print Assumptions C10_staleness_versions.

(* ... and the event overlaps a cached segment that was fetched before that mutation and is
   younger than ttl: the stale fields are explained by a fresh segment, never by an expired one *)
Theorem C10_stale_version_segment : forall evs ttl tick t0 ops a b rv s' out log,
  keyed_src evs -> ttl > 0 -> tick >= 0 -> Forall op_ok ops ->
  (count_mut ops < N.to_nat KEYMOD)%nat ->
  NEG_INF < a -> a < b -> b < POS_INF ->
  let r := crun_all false ttl tick t0 evs ops in
  let mt := mut_times false ttl tick t0 evs ops in
  cquery false ttl tick (src_of evs (r_ver r)) (r_state r) a b rv = (s', out, log) ->
  forall f, In f out ->
    (pl_ver (pl f) <= r_ver r)%N /\
    forall w : nat, (N.to_nat (pl_ver (pl f)) < w <= length mt)%nat ->
    exists c, In c (cover s') /\ ovl f c /\
              cv_t c <= nth (w - 1) mt 0 /\ now (r_state r) < cv_t c + ttl.
Proof. exact CacheStale.C10_stale_version_segment. Qed.
Print Assumptions C10_stale_version_segment.

(* "a change in the source becomes visible at most ttl after ...": a query made ttl or more after
   a mutation returns only events that carry that mutation (or a later one) *)
Theorem C10_change_visible : forall evs ttl tick t0 ops1 ops2 a b rv s' out log,
  keyed_src evs -> ttl > 0 -> tick >= 0 ->
  let ops := ops1 ++ CMutate :: ops2 in
  Forall op_ok ops -> (count_mut ops < N.to_nat KEYMOD)%nat ->
  NEG_INF < a -> a < b -> b < POS_INF ->
  let m := now (r_state (crun_all false ttl tick t0 evs ops1)) in
  let r := crun_all false ttl tick t0 evs ops in
  cquery false ttl tick (src_of evs (r_ver r)) (r_state r) a b rv = (s', out, log) ->
  m + ttl <= now (r_state r) ->
  forall f, In f out ->
    (N.of_nat (count_mut ops1) < pl_ver (pl f) <= N.of_nat (count_mut ops))%N.
Proof. exact CacheStale.C10_change_visible. Qed.
Print Assumptions C10_change_visible.

(* the same for ANY source whose answers carry, as a ghost stamp sp, (at least) the clock reading
   of the fetch that produced them, up to a latency delta: every event of every result satisfies
   t < stamp + delta + ttl.  [reach]: states reachable by queries against such sources and clock
   advances. *)
Theorem C10_staleness_stamped_sources : forall sp delta ttl tick src s a b rv s' out log,
  ttl > 0 -> tick >= 0 ->
  reach (R_stamp sp delta) ttl tick s ->
  NEG_INF < a -> a < b -> b < POS_INF ->
  cquery false ttl tick src s a b rv = (s', out, log) ->
  (forall t gs ge, In (t, gs, ge) log -> src_good (R_stamp sp delta) t (src gs ge)) ->
  forall f, In f out -> now s < sp (pl f) + delta + ttl.
Proof. exact CacheStale.C10_staleness_output. Qed.
Print Assumptions C10_staleness_stamped_sources.

(* the repaired stitch matters: taking the fields of the OLDER fragment (the code before
   ea8f0d8) breaks the stamp invariant on the D14 history *)
Theorem C10_wrong_stitch_side_refuted :
  stitch_at false 10 true d14_clipped = [Iv 2 20 2000; Iv 5 15 1000] /\
  stitch_at false 10 false d14_clipped = [Iv 2 20 2001; Iv 5 15 1001] /\
  ~ stamp_inv (R_ver [2]) (stitch_at false 10 true d14_clipped) [mkCov 0 10 1; mkCov 10 20 6] /\
  stamp_chk (fun p tau => if (N.to_nat (pl_ver p) <? 1)%nat then tau <=? 2 else true)
            (stitch_at false 10 false d14_clipped) [mkCov 0 10 1; mkCov 10 20 6] = true.
Proof. exact CacheStale.d14_wrong_side. Qed.
Print Assumptions C10_wrong_stitch_side_refuted.

(* non-vacuity: the D14 history (query, mutate, query next door, advance past the first expiry,
   query again) meets the hypotheses and the bound is attained *)
Example C10_staleness_nonvacuous : _ := CacheStale.d14_stale_but_young.

(* ---- tie C (extended): statements about the Gallina translation of the SOURCE TEXT, regenerated from
   /repo on every run (Gen/Source.v); external calls are function parameters of the generated definitions ---- *)
From CG Require Import Model.Loop Gen.Source Proofs.GenEq3.

(* CachedTimeline._evict_expired (the heap loop) on every state satisfying the heap invariant *)
Theorem C10_source_evict_is_model : forall t h fuel cv sk,
  (length h <= fuel)%nat -> Permutation.Permutation (map h_cov h) cv ->
  g_cache_evict_expired fuel t h cv sk = RDone (evict_go t h cv sk).
Proof. exact g_cache_evict_expired_eq. Qed.
Print Assumptions C10_source_evict_is_model.

(* ... so "a segment survives eviction iff it was fetched less than ttl ago" holds of the code text *)
Theorem C10_source_fresh_segments_only : forall ttl t s fuel,
  heap_inv ttl s -> (length (heap s) <= fuel)%nat ->
  exists h1 cv1 sk1,
    g_cache_evict_expired fuel t (heap s) (cover s) (sink s) = RDone (h1, cv1, sk1) /\
    (forall c, In c cv1 -> In c (cover s) /\ t < cv_t c + ttl) /\
    (forall c, In c (cover s) -> ~ In c cv1 -> cv_t c + ttl <= t) /\
    (forall c, In c (cover s) -> (In c cv1 <-> t < cv_t c + ttl)).
Proof. exact src_evict_fresh_only. Qed.
Print Assumptions C10_source_fresh_segments_only.

(* ---- tie C: _stitch_at and the whole of _fill_gap as the code has them ---- *)
From CG Require Import Proofs.GenEq8.
Example C10_source_stitch_is_model : _ := @g_cache_stitch_at_eq unit.
Example C10_source_fill_gap_is_model : _ := @g_cache_fill_gap_eq.
Print Assumptions C10_source_stitch_is_model.
Print Assumptions C10_source_fill_gap_is_model.
