(* Props/C10.v — C10: the cache honours its TTL: never stale beyond ttl, never refetching
   fresh ranges.  Statements only (Proofs/CacheInv.v).  Holds for masked and keyed caches,
   any source function, histories with source mutations. *)
From CG Require Import Proofs.Defs Model.Cache Proofs.CacheInv.

(* every reachable state: heap sorted, heap entries <-> cached segments with expiry = created+ttl,
   segments pairwise disjoint, created <= now *)
Theorem C10_heap_invariant : forall masked ttl tick t0 evs ops,
  ttl > 0 -> tick >= 0 -> Forall op_ok ops ->
  heap_inv ttl (r_state (crun_all masked ttl tick t0 evs ops)).
Proof. exact heap_inv_reachable. Qed.
Print Assumptions C10_heap_invariant.

(* staleness: after the eviction pass that read the clock as t, a segment survives iff it was
   fetched less than ttl before t *)
Theorem C10_fresh_segments_only : forall ttl t s h1 cv1 sk1,
  heap_inv ttl s -> evict_go t (heap s) (cover s) (sink s) = (h1, cv1, sk1) ->
  (forall c, In c cv1 -> In c (cover s) /\ t < cv_t c + ttl) /\
  (forall c, In c (cover s) -> ~ In c cv1 -> cv_t c + ttl <= t) /\
  (forall c, In c (cover s) -> (In c cv1 <-> t < cv_t c + ttl)).
Proof. exact fresh_covers_only. Qed.
Print Assumptions C10_fresh_segments_only.

(* economy: for a query in any reachable state the source fetches are exactly the maximal parts
   of the window not covered by fresh segments — confined to the window, disjoint from every
   fresh segment, pairwise separated, together with the fresh segments covering the window;
   afterwards the window is covered by segments all fresher than ttl *)
Theorem C10_economy : forall masked ttl tick t0 evs ops src a b rv s' out log,
  ttl > 0 -> tick >= 0 -> Forall op_ok ops -> NEG_INF < a -> a < b -> b < POS_INF ->
  let s := r_state (crun_all masked ttl tick t0 evs ops) in
  cquery masked ttl tick src s a b rv = (s', out, log) ->
  exists h1 cv1 sk1,
    evict_go (now s) (heap s) (cover s) (sink s) = (h1, cv1, sk1) /\
    (forall c, In c (cover s) -> (In c cv1 <-> now s < cv_t c + ttl)) /\
    log = log_of tick (now s + tick) (gaps_of cv1 a b) /\
    (forall t' gs ge, In (t', gs, ge) log ->
       a <= gs /\ gs < ge /\ ge <= b /\ now s + tick <= t' /\
       (forall c, In c cv1 -> cv_e c <= gs \/ ge <= cv_s c) /\
       (gs = a \/ exists c, In c cv1 /\ cv_e c = gs) /\
       (ge = b \/ exists c, In c cv1 /\ cv_s c = ge)) /\
    log_sep log /\
    (forall x, a <= x < b ->
       (exists c, In c cv1 /\ cv_s c <= x < cv_e c) \/
       (exists t' gs ge, In (t', gs, ge) log /\ gs <= x < ge)) /\
    heap_inv ttl s' /\
    (forall x, a <= x < b -> exists c, In c (cover s') /\ cv_s c <= x < cv_e c) /\
    (forall c, In c (cover s') -> now s < cv_t c + ttl).
Proof. exact C10_reachable. Qed.
Print Assumptions C10_economy.

(* a fully fresh window triggers no source fetch *)
Theorem C10_no_refetch_while_fresh : forall masked ttl tick src s a b rv s' out log,
  ttl > 0 -> tick >= 0 -> NEG_INF < a -> a < b -> b < POS_INF -> heap_inv ttl s ->
  (forall x, a <= x < b -> exists c, In c (cover s) /\ cv_s c <= x < cv_e c /\ now s < cv_t c + ttl) ->
  cquery masked ttl tick src s a b rv = (s', out, log) -> log = [].
Proof. exact no_refetch_while_fresh. Qed.
Print Assumptions C10_no_refetch_while_fresh.
