(* Props/C15.v — C15: slicing is pure, repeatable and independent of how bounds are written.
   Statements only.  (1) the purity discipline holds of the CURRENT sources: Gen/PurityFacts.v is
   regenerated from their AST on every run; (2) coercion / validation theorems of Proofs/SliceP.v. *)
From CG Require Import Proofs.Defs Model.Slice Proofs.SliceP Spec.Purity Gen.PurityFacts.

Theorem C15_purity_discipline_holds : purity_discipline facts = true.
Proof. vm_compute. reflexivity. Qed.
Print Assumptions C15_purity_discipline_holds.

Theorem C15_aware_datetime_equals_int : forall env e t1 z1 t2 z2 s,
  getitem env e (BAware t1 z1) (BAware t2 z2) s = getitem env e (BInt t1) (BInt t2) s.
Proof. exact getitem_aware_eq_int. Qed.
Print Assumptions C15_aware_datetime_equals_int.

Theorem C15_spelling_irrelevant : forall env e a a' b b' s,
  coerce_bound a = coerce_bound a' -> coerce_bound b = coerce_bound b' ->
  getitem env e a b s = getitem env e a' b' s.
Proof. exact getitem_spelling. Qed.
Print Assumptions C15_spelling_irrelevant.

Theorem C15_naive_or_foreign_bound_rejected : forall env e a b s a',
  coerce_bound a = inr a' -> (b = BNaive \/ b = BOther) -> getitem env e a b s = inl TypeError.
Proof. exact getitem_bad_end. Qed.
Print Assumptions C15_naive_or_foreign_bound_rejected.

Theorem C15_naive_start_rejected : forall env e b s, getitem env e BNaive b s = inl TypeError.
Proof. exact getitem_naive_start. Qed.
Print Assumptions C15_naive_start_rejected.

Theorem C15_other_steps_rejected : forall env e a b s a' b',
  coerce_bound a = inr a' -> coerce_bound b = inr b' ->
  (s = SOther \/ exists z, s = SInt z /\ z <> 1 /\ z <> -1) ->
  getitem env e a b s = inl ValueError.
Proof. exact getitem_bad_step. Qed.
Print Assumptions C15_other_steps_rejected.

Theorem C15_filter_union_timeline_rejected :
  or_kind KFilter KTimeline = inl TypeError /\ or_kind KTimeline KFilter = inl TypeError.
Proof. exact or_filter_timeline. Qed.
Print Assumptions C15_filter_union_timeline_rejected.

(* ---- tie C: Timeline.__getitem__ and _coerce_bound as the code has them (translation of the source text) ---- *)
From CG Require Import Gen.Source Proofs.GenEq7.
Example C15_source_coerce_is_model : _ := g_coerce_bound_eq.
Example C15_source_getitem_is_model : _ := g_getitem_is_model.
Print Assumptions C15_source_getitem_is_model.
