(* placeholder until the metrics engineer delivers *)
