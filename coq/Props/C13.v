(* Props/C13.v — C13: metrics are exact and add up across calendar periods.
   Only statements, each closed by an existing lemma (Proofs/MetricsP.v, Proofs/MetricsCivil.v) and
   followed by Print Assumptions; Examples show that the hypotheses are satisfiable and that they
   cannot be dropped (the *_refuted theorems are the known findings M1, M2, M3, by computation).

   Vocabulary (Spec/MetricsSpec.v, Model/Metrics.v):
     count_in f a b            number of integer instants t, a <= t < b, with f t = true
     measure evs a b           the executable spec of "duration covered by evs inside [a,b)"
     total_duration_ tl s e    the model of calgebra.metrics._total_duration
     cached_timeline tl a b    the model of make_timeline( *tl[a:b] ) in _windowed_agg
     period_windows_dt z a b p the model of _period_windows_with_dt (None = out of fuel)
     chain ws s0               windows contiguous from s0 on, none reversed
     zone_wf u z               the zone hypothesis on the transition table (Proofs/MetricsP.v section 6) *)
From CG Require Import Proofs.Defs Proofs.MetricsP Proofs.MetricsCivil Proofs.MetricsIso Spec.MetricsSpec.

(* ---------- exactness ---------- *)

(* the spec's measure is the number of covered instants *)
Theorem C13_measure_counts_instants :
  forall evs a b, measure evs a b = count_in (covers evs) a b.
Proof. exact measure_is_count. Qed.
Print Assumptions C13_measure_counts_instants.

(* _total_duration of a stored timeline over a window = measure of its coverage inside the window:
   overlapping, nested, duplicated, unbounded events are flattened exactly *)
Theorem C13_total_is_measure :
  forall evs ws we, Forall wf_ivl evs -> NEG_INF < ws -> ws < we -> we < POS_INF ->
    total_duration_ (Stored evs) ws we = measure evs ws we.
Proof. exact total_is_measure. Qed.
Print Assumptions C13_total_is_measure.

(* the same through _windowed_agg: the timeline is materialised once as tl[A:B] and a period window
   (s,e) may stick out of [A,B): the value is the measure inside the period clipped to the range *)
Theorem C13_total_is_measure_per_period :
  forall evs A B s e, Forall wf_ivl evs -> NEG_INF < A -> A < B -> B < POS_INF ->
    NEG_INF < s -> s < e -> e < POS_INF ->
    total_duration_ (cached_timeline (Stored evs) A B) s e = measure evs (Z.max A s) (Z.min B e).
Proof. exact total_is_measure_cached. Qed.
Print Assumptions C13_total_is_measure_per_period.

(* ---------- additivity ---------- *)

Theorem C13_measure_additive :
  forall evs a b c, a <= b <= c -> measure evs a c = measure evs a b + measure evs b c.
Proof. exact measure_additive. Qed.
Print Assumptions C13_measure_additive.

(* any chain of windows reaching over the range: per-window measures (clipped to the range) add up *)
Theorem C13_additivity :
  forall evs A B ws s0, chain ws s0 -> s0 <= A -> B <= chain_end ws s0 -> A <= B ->
    sumZ (map (spec_total evs A B) ws) = measure evs A B.
Proof. exact C13_additivity_chain. Qed.
Print Assumptions C13_additivity.

(* ---------- the windows of the stepping loops ---------- *)

(* contiguous for every zone table, period and range *)
Theorem C13_windows_contiguous :
  forall z a b p ws, period_windows_dt z a b p = Some ws -> contigP ws.
Proof. exact windows_contiguous. Qed.
Print Assumptions C13_windows_contiguous.

(* forward-running and covering the range, for hour / day / week / month / year / full, under the zone
   hypothesis for the stepping unit and when the range end is not the second showing of a period
   boundary *)
Theorem C13_windows_cover_range :
  forall z a b p ws,
    zone_wf (unit_of_period p) z = true -> a < b ->
    (utc_to_wall z b mod unit_of_period p = 0 -> fold_of z b = false) ->
    period_windows_dt z a b p = Some ws ->
    exists s0, chain ws s0 /\ s0 <= a /\ b <= chain_end ws s0.
Proof. exact windows_cover_range. Qed.
Print Assumptions C13_windows_cover_range.

(* aligned: each window begins at the instant the local clock reaches its label (a full hour for
   hourly stepping, a local midnight otherwise) and ends at the instant it reaches a later such label *)
Theorem C13_windows_aligned :
  forall z a b p ws,
    zone_wf (unit_of_period p) z = true -> p <> PFull ->
    period_windows_dt z a b p = Some ws -> Forall (aligned_win (unit_of_period p) z) ws.
Proof. exact windows_aligned. Qed.
Print Assumptions C13_windows_aligned.

Theorem C13_period_measures_add_up :
  forall z a b p ws evs,
    zone_wf (unit_of_period p) z = true -> a < b ->
    (utc_to_wall z b mod unit_of_period p = 0 -> fold_of z b = false) ->
    period_windows_dt z a b p = Some ws ->
    sumZ (map (spec_total evs a b) ws) = measure evs a b.
Proof. exact C13_additivity_windows. Qed.
Print Assumptions C13_period_measures_add_up.

(* the rows of total_duration(period=p): each is the measure inside its period, together they add up
   to the measure of the range *)
Theorem C13_total_duration_rows :
  forall z evs a b p ws,
    Forall wf_ivl evs -> NEG_INF < a -> a < b -> b < POS_INF ->
    zone_wf (unit_of_period p) z = true ->
    (utc_to_wall z b mod unit_of_period p = 0 -> fold_of z b = false) ->
    period_windows_dt z a b p = Some ws -> Forall win_bounded ws ->
    let vals := map (fun w : win => let '(_, s, e) := w in
                                    total_duration_ (cached_timeline (Stored evs) a b) s e) ws in
    vals = map (spec_total evs a b) ws /\ sumZ vals = measure evs a b.
Proof. exact MetricsP.C13_total_duration_rows. Qed.
Print Assumptions C13_total_duration_rows.

(* what the zone hypothesis gives: timestamps of period boundaries and wall clocks of instants are
   ordered consistently *)
Theorem C13_zone_boundary_before :
  forall u z L t, zone_wf u z = true -> L mod u = 0 -> L <= utc_to_wall z t -> ts0 z L <= t.
Proof. exact zone_wf_G1. Qed.
Print Assumptions C13_zone_boundary_before.

Theorem C13_zone_boundary_after :
  forall u z L t, zone_wf u z = true -> L mod u = 0 -> utc_to_wall z t < L -> t < ts0 z L.
Proof. exact zone_wf_G2. Qed.
Print Assumptions C13_zone_boundary_after.

(* ---------- ratios ---------- *)

Theorem C13_ratio_in_unit :
  forall evs a b w, a <= b -> rat_in_unit (ratio_of evs a b w) = true.
Proof. exact ratio_in_unit. Qed.
Print Assumptions C13_ratio_in_unit.

Theorem C13_model_ratio_in_unit :
  forall evs A B s e,
    Forall wf_ivl evs -> NEG_INF < A -> A < B -> B < POS_INF -> NEG_INF < s -> e < POS_INF ->
    let q := ratio_win (cached_timeline (Stored evs) A B) s e in
    0 <= fst q <= snd q /\ 0 < snd q.
Proof. exact model_ratio_in_unit. Qed.
Print Assumptions C13_model_ratio_in_unit.

Theorem C13_grouped_ratio_in_unit :
  forall ts, Forall (fun q => 0 <= fst q <= snd q) ts ->
    let q := combine_ratios ts in 0 <= fst q <= snd q /\ 0 < snd q.
Proof. exact combine_ratios_in_unit. Qed.
Print Assumptions C13_grouped_ratio_in_unit.

(* ---------- the oracle and additivity ---------- *)

(* whatever windows an implementation returns: if they pass the oracle's window check (contiguous,
   local calendar periods, reaching over the range) the per-period measures add up to the range's *)
Theorem C13_accepted_windows_add_up :
  forall z p a b ws evs, windows_ok z p a b ws = true -> a < b ->
    sumZ (map (spec_total evs a b) ws) = measure evs a b.
Proof. exact windows_ok_additive. Qed.
Print Assumptions C13_accepted_windows_add_up.

(* ---------- count and extremum ---------- *)

(* count_intervals' per-window value is the number of intervals the slice returns (model: by
   definition); for a stored timeline that is the number of events with an instant in the window *)
Theorem C13_count_is_hits :
  forall evs ws we, ws <= we ->
    count_ (Stored evs) ws we = Z.of_nat (length (filter (hits ws we) evs)).
Proof. exact count_is_hits. Qed.
Print Assumptions C13_count_is_hits.

(* max_duration / min_duration return an interval of the slice (so: clipped to the window) whose length
   is extreme among the slice's bounded intervals; None iff the slice has no bounded interval *)
Theorem C13_extremum :
  forall tl ws we fm,
    match extremum_duration tl ws we fm with
    | None => forall y, In y (tslice tl ws we) -> blen y = None
    | Some x => In x (tslice tl ws we) /\
                exists l, blen x = Some l /\
                          forall y d, In y (tslice tl ws we) -> blen y = Some d -> if fm then d <= l else l <= d
    end.
Proof. exact extremum_spec. Qed.
Print Assumptions C13_extremum.

(* ---------- calendar ---------- *)
Theorem C13_civil_roundtrip :
  forall d, days_from_civil (year_of d) (month_of d) (day_of d) = d.
Proof. exact civil_roundtrip. Qed.
Print Assumptions C13_civil_roundtrip.

(* the model's week_of_year key (Thursday rule, as date.isocalendar) is the ISO 8601 week number by
   the 4-January rule the oracle uses, for every day *)
Theorem C13_iso_week :
  forall d, iso_week d = iso_week_jan4 d /\ 1 <= iso_week d <= 53.
Proof. exact iso_week_agrees. Qed.
Print Assumptions C13_iso_week.

(* ---------- the hypotheses are satisfiable ---------- *)

(* transitions 2020-2025 of the tables exported from zoneinfo by harness/props_metrics.py *)
Definition la : zone := mkZone (-28800)
  [(1583661600, -25200); (1604221200, -28800); (1615716000, -25200); (1636275600, -28800);
   (1647165600, -25200); (1667725200, -28800); (1678615200, -25200); (1699174800, -28800);
   (1710064800, -25200); (1730624400, -28800); (1741514400, -25200); (1762074000, -28800)].
Definition havana : zone := mkZone (-18000)
  [(1583643600, -14400); (1604206800, -18000); (1615698000, -14400); (1636261200, -18000);
   (1647147600, -14400); (1667710800, -18000); (1678597200, -14400); (1699160400, -18000);
   (1710046800, -14400); (1730610000, -18000); (1741496400, -14400); (1762059600, -18000)].
Definition chatham : zone := mkZone 49500
  [(1586008800, 45900); (1601128800, 49500); (1617458400, 45900); (1632578400, 49500);
   (1648908000, 45900); (1664028000, 49500); (1680357600, 45900); (1695477600, 49500);
   (1712412000, 45900); (1727532000, 49500); (1743861600, 45900); (1758981600, 49500)].
Definition troll : zone := mkZone 0
  [(1585443600, 7200); (1603587600, 0); (1616893200, 7200); (1635642000, 0);
   (1648342800, 7200); (1667091600, 0); (1679792400, 7200); (1698541200, 0);
   (1711846800, 7200); (1729990800, 0); (1743296400, 7200); (1761440400, 0)].
Definition st_johns_2005 : zone := mkZone (-12600)
  [(1081049460, -9000); (1099189860, -12600); (1112499060, -9000); (1130639460, -12600);
   (1143948660, -9000); (1162089060, -12600)].

(* America/Los_Angeles and America/Havana (midnight DST) meet the zone hypothesis for hourly and for
   daily stepping; Pacific/Chatham only for daily stepping although its shift is one hour *)
Example C13_zone_hypothesis_satisfiable :
  zone_wf 3600 la = true /\ zone_wf 86400 la = true /\
  zone_wf 3600 havana = true /\ zone_wf 86400 havana = true /\
  zone_wf 86400 chatham = true /\ zone_wf 3600 chatham = false /\
  zone_wf 3600 troll = false /\ zone_wf 86400 st_johns_2005 = false.
Proof. vm_compute. repeat split; reflexivity. Qed.

(* a day with a 23-hour local day (2024-03-10 in Los Angeles): an overlapping, a nested and an
   unbounded event; range unaligned; all hypotheses of C13_total_duration_rows hold and the daily rows
   40000 + 10400 + 9600 s are the measure of the range (the middle day is 82800 s long) *)
Example C13_rows_hypotheses_satisfiable :
  let evs := [mkI (Some 1710000000) (Some 1710040000) (Rich 1); mkI (Some 1710010000) (Some 1710020000) (Rich 2);
              mkI (Some 1710130000) None (Rich 3)] in
  let a := 1710000000 in let b := 1710150000 in
  Forall wf_ivl evs /\ zone_wf (unit_of_period PDay) la = true /\
  (utc_to_wall la b mod unit_of_period PDay = 0 -> fold_of la b = false) /\
  exists ws, period_windows_dt la a b PDay = Some ws /\ Forall win_bounded ws /\
             map (fun w : win => let '(_, s, e) := w in
                                 total_duration_ (cached_timeline (Stored evs) a b) s e) ws
             = [40000; 10400; 9600] /\
             map (fun w : win => let '(_, s, e) := w in e - s) ws = [86400; 82800; 86400] /\
             measure evs a b = 60000.
Proof.
  cbv zeta. split; [|split; [|split]].
  - repeat constructor; unfold wf_ivl, fstart, fend, NEG_INF, POS_INF; simpl; lia.
  - vm_compute. reflexivity.
  - vm_compute. intros H; first [reflexivity | discriminate H].
  - eexists. split; [vm_compute; reflexivity|]. split.
    + repeat constructor; unfold NEG_INF, POS_INF; lia.
    + vm_compute. repeat split; reflexivity.
Qed.

(* ---------- the hypotheses cannot be dropped: known findings, by computation ---------- *)

Definition model_totals (z : zone) (evs : list ivl) (a b : Z) (p : period) : option (list Z) :=
  match period_windows_dt z a b p with
  | Some ws => Some (map (fun w : win => let '(_, s, e) := w in
                                         total_duration_ (cached_timeline (Stored evs) a b) s e) ws)
  | None => None
  end.

(* M1: a two-hour shift under hourly stepping (Antarctica/Troll, 2024-03-31): a window runs
   backwards and an hour is counted twice: 28800 s reported inside a range of 25200 s *)
Theorem hourly_antarctica_troll_refuted :
  let a := 1711836000 in let b := 1711861200 in let evs := [mkI (Some a) (Some b) (Rich 1)] in
  zone_wf 3600 troll = false /\
  model_totals troll evs a b PHour = Some [3600; 3600; 3600; 3600; 0; 3600; 3600; 3600; 3600] /\
  measure evs a b = 25200.
Proof. vm_compute. repeat split; reflexivity. Qed.

(* M2: a one-hour shift at 02:45 (Pacific/Chatham, 2024-09-29): the hour boundary 03:00 lies inside
   the skipped stretch; the first window starts 840 s after the range start: 6300 of 7140 s reported *)
Theorem hourly_pacific_chatham_refuted :
  let a := 1727532060 in let b := 1727539200 in let evs := [mkI (Some a) (Some b) (Rich 1)] in
  zone_wf 3600 chatham = false /\
  model_totals chatham evs a b PHour = Some [0; 3600; 2700] /\ measure evs a b = 7140.
Proof. vm_compute. repeat split; reflexivity. Qed.

(* M2, daily: America/St_Johns set its clocks back at 00:01 until 2010: midnight lies inside the
   repeated stretch; the last window ends 1860 s before the range end: 86340 of 88200 s reported *)
Theorem daily_st_johns_refuted :
  let a := 1130553060 in let b := 1130641260 in let evs := [mkI (Some a) (Some b) (Rich 1)] in
  zone_wf 86400 st_johns_2005 = false /\
  model_totals st_johns_2005 evs a b PDay = Some [86340] /\ measure evs a b = 88200.
Proof. vm_compute. repeat split; reflexivity. Qed.

(* M3: the zone is fine but the range ends exactly when the clocks are set back to 01:00
   (America/Los_Angeles, 2024-11-03 09:00Z): the loop test compares wall clocks and drops the last hour *)
Theorem hourly_range_end_on_fold_refuted :
  let a := 1730617200 in let b := 1730624400 in let evs := [mkI (Some a) (Some b) (Rich 1)] in
  zone_wf 3600 la = true /\ utc_to_wall la b mod 3600 = 0 /\ fold_of la b = true /\
  model_totals la evs a b PHour = Some [3600] /\ measure evs a b = 7200.
Proof. vm_compute. repeat split; reflexivity. Qed.

(* ---------- group_by buckets, fuel, calendar alignment (Proofs/MetricsP2.v) ---------- *)
From CG Require Import Proofs.MetricsP2.

(* group_by: the buckets are keyed by group_key of their windows' labels, keys ascending and unique,
   and the bucket totals add up to the per-period rows — for ANY timeline expression *)
Theorem C13_grouped_total_adds_up : forall z tl s e p g,
  valid_group_by p (Some g) = true ->
  let a := coerce_bound z s in let b := coerce_bound z e in let c := cached_timeline tl a b in
  exists ws out,
    period_windows_dt z a b p = Some ws /\
    total_duration z tl s e p (Some g) = RInts out /\
    total_duration z tl s e p None
      = RInts (map (fun w => (label_of p (wlabel w), wval total_duration_ c w)) ws) /\
    buckets_int_ok g (wval total_duration_ c) ws out = true /\
    sumZ (map snd out) = sumZ (map (wval total_duration_ c) ws).
Proof. exact grouped_total_adds_up. Qed.
Print Assumptions C13_grouped_total_adds_up.

Theorem C13_grouped_count_adds_up : forall z tl s e p g,
  valid_group_by p (Some g) = true ->
  let a := coerce_bound z s in let b := coerce_bound z e in let c := cached_timeline tl a b in
  exists ws out,
    period_windows_dt z a b p = Some ws /\
    count_intervals z tl s e p (Some g) = RInts out /\
    count_intervals z tl s e p None = RInts (map (fun w => (label_of p (wlabel w), wval count_ c w)) ws) /\
    buckets_int_ok g (wval count_ c) ws out = true /\
    sumZ (map snd out) = sumZ (map (wval count_ c) ws).
Proof. exact grouped_count_adds_up. Qed.
Print Assumptions C13_grouped_count_adds_up.

(* for stored timelines, under the hypotheses of C13_total_duration_rows: the grouped totals sum to
   the measure of the full range and each grouped ratio is (sum covered)/(sum lengths) in [0,1] *)
Theorem C13_grouped_stored_correct : forall z evs s e p g,
  valid_group_by p (Some g) = true ->
  let a := coerce_bound z s in let b := coerce_bound z e in
  Forall wf_ivl evs -> NEG_INF < a -> a < b -> b < POS_INF ->
  zone_wf (unit_of_period p) z = true ->
  (utc_to_wall z b mod unit_of_period p = 0 -> fold_of z b = false) ->
  exists ws outT outR,
    period_windows_dt z a b p = Some ws /\
    total_duration z (Stored evs) s e p (Some g) = RInts outT /\
    coverage_ratio z (Stored evs) s e p (Some g) = RRats outR /\
    (Forall win_bounded ws ->
       buckets_int_ok g (spec_total evs a b) ws outT = true /\
       additive_ok evs a b outT = true /\
       sumZ (map snd outT) = measure evs a b /\
       buckets_rat_ok g evs a b ws outR = true /\
       Forall (fun o => snd o = bucket_ratio g (spec_total evs a b) ws (fst o) /\
                        0 <= fst (snd o) <= snd (snd o) /\ 0 < snd (snd o)) outR).
Proof. exact grouped_stored_correct. Qed.
Print Assumptions C13_grouped_stored_correct.

(* the stepping loops never run out of fuel: no zone hypothesis needed *)
Theorem C13_windows_fuel_enough : forall z a b p, period_windows_dt z a b p <> None.
Proof. exact win_loop_fuel_enough. Qed.
Print Assumptions C13_windows_fuel_enough.

Theorem C13_metrics_never_out_of_fuel : forall z tl f s e p g, metrics_run z tl f s e p g <> RFuel.
Proof. exact metrics_never_out_of_fuel. Qed.
Print Assumptions C13_metrics_never_out_of_fuel.

(* calendar alignment in full: every window starts at a local boundary of its period (the hour, local
   midnight, Monday, the 1st, 1 January), reaches exactly the next one, and consecutive windows are
   contiguous with consecutive labels — hour / day / week / month / year *)
Theorem C13_windows_calendar_aligned : forall z a b p ws,
  zone_wf (unit_of_period p) z = true -> p <> PFull ->
  period_windows_dt z a b p = Some ws ->
  forallb (window_ok z p) ws = true /\ contiguous p ws = true.
Proof. exact windows_calendar_aligned. Qed.
Print Assumptions C13_windows_calendar_aligned.

(* the oracle the check applies to the implementation's windows holds of the model when the range
   does not end on a transition (neither a repeated nor a skipped boundary) *)
Theorem C13_model_windows_ok : forall z a b p ws,
  zone_wf (unit_of_period p) z = true -> a < b ->
  (utc_to_wall z b mod unit_of_period p = 0 -> fold_of z b = false) ->
  end_not_on_gap (unit_of_period p) z b ->
  period_windows_dt z a b p = Some ws -> windows_ok z p a b ws = true.
Proof. exact model_windows_ok. Qed.
Print Assumptions C13_model_windows_ok.

(* ... and the last hypothesis cannot be dropped (KF-M3, skipped-boundary variant): a range ending
   exactly when America/Havana skips from 00:00 to 01:00 gets a spurious extra row (same in /repo) *)
Theorem C13_day_range_end_on_gap_refuted :
  let s := BDate 2024 3 9 in let e := BDate 2024 3 10 in
  let a := coerce_bound MetricsP2.havana_tab s in let b := coerce_bound MetricsP2.havana_tab e in
  let evs := [mkI (Some 1709900000) (Some 1710040000) (Rich 1)] in
  zone_wf (unit_of_period PDay) MetricsP2.havana_tab = true /\ a < b /\ fold_of MetricsP2.havana_tab b = false /\
  utc_to_wall MetricsP2.havana_tab (b - 1) = 19792 * 86400 - 1 /\ utc_to_wall MetricsP2.havana_tab b = 19792 * 86400 + 3600 /\
  ~ end_not_on_gap (unit_of_period PDay) MetricsP2.havana_tab b /\
  total_duration MetricsP2.havana_tab (Stored evs) s e PDay None = RInts [(19791, 79600); (19792, 0)] /\
  total_duration MetricsP2.havana_tab (Stored evs) s e PDay (Some GDayOfWeek) = RInts [(5, 79600); (6, 0)] /\
  coverage_ratio MetricsP2.havana_tab (Stored evs) s e PDay None = RRats [(19791, (79600, 86400)); (19792, (0, 82800))] /\
  measure evs a b = 79600 /\
  exists ws, period_windows_dt MetricsP2.havana_tab a b PDay = Some ws /\ windows_ok MetricsP2.havana_tab PDay a b ws = false.
Proof. exact day_range_end_on_gap_refuted. Qed.
Print Assumptions C13_day_range_end_on_gap_refuted.

Example C13_grouped_nonvacuous : _ := MetricsP2.grouped_hypotheses_satisfiable.
Example C13_calendar_aligned_nonvacuous : _ := MetricsP2.windows_hypotheses_satisfiable.

(* ---- tie C: the stepping loops of _period_windows_with_dt as the code has them ---- *)
From CG Require Import Gen.Source Proofs.GenEq10.
Example C13_source_windows_are_model : _ := g_period_windows_dt_eq.
Print Assumptions C13_source_windows_are_model.
Example C13_source_windows_loop_is_model : _ := g_period_windows_dt_loop.

(* ---- tie C, third extension: the rest of calgebra/metrics.py as the code has it (Proofs/GenEq_met.v).
   Every statement below is about a definition of Gen/Source.v, regenerated from the source text on
   every run: the per-window aggregations and closures, group keys, validation, bounds, the two drivers
   and the five public functions are the model's, for all inputs (hypothesis: fuel for the stepping
   loops, at least the model's own). ---- *)
From CG Require Proofs.GenEq_met.
Example C13_source_total_duration_window : _ := GenEq_met.g_total_duration_eq.
Print Assumptions C13_source_total_duration_window.
Example C13_source_extremum_duration : _ := GenEq_met.g_extremum_duration_eq.
Print Assumptions C13_source_extremum_duration.
Example C13_source_max_agg : _ := GenEq_met.g_max_agg_eq.
Print Assumptions C13_source_max_agg.
Example C13_source_min_agg : _ := GenEq_met.g_min_agg_eq.
Print Assumptions C13_source_min_agg.
Example C13_source_count_agg : _ := GenEq_met.g_count_agg_eq.
Print Assumptions C13_source_count_agg.
Example C13_source_coverage_agg : _ := GenEq_met.g_cov_agg_eq.
Print Assumptions C13_source_coverage_agg.
Example C13_source_coverage_agg_tuple : _ := GenEq_met.g_cov_agg_tuple_eq.
Print Assumptions C13_source_coverage_agg_tuple.
Example C13_source_coverage_combine : _ := GenEq_met.g_cov_combine_ratios_eq.
Print Assumptions C13_source_coverage_combine.
Example C13_source_coverage_no_division_by_zero : _ := (@GenEq_met.g_cov_agg_den_pos, GenEq_met.g_cov_combine_den_pos).
Print Assumptions C13_source_coverage_no_division_by_zero.
Example C13_source_extract_group_key : _ := GenEq_met.g_extract_group_key_eq.
Print Assumptions C13_source_extract_group_key.
Example C13_source_validate_period_group_by : _ := GenEq_met.g_validate_eq.
Print Assumptions C13_source_validate_period_group_by.
Example C13_source_coerce_bound : _ := (GenEq_met.g_met_coerce_bound_eq, GenEq_met.g_met_coerce_bound_is_model).
Print Assumptions C13_source_coerce_bound.
Example C13_source_period_windows : _ := (GenEq_met.g_period_windows_exact, GenEq_met.g_period_windows_eq).
Print Assumptions C13_source_period_windows.
Example C13_source_windowed_agg : _ := (@GenEq_met.g_windowed_agg_eq, @GenEq_met.g_windowed_agg_is_model).
Print Assumptions C13_source_windowed_agg.
Example C13_source_grouped_agg : _ := (@GenEq_met.g_grouped_agg_eq, @GenEq_met.g_grouped_agg_is_model).
Print Assumptions C13_source_grouped_agg.
Example C13_source_total_duration_is_model : _ := GenEq_met.g_pub_total_duration_is_model.
Print Assumptions C13_source_total_duration_is_model.
Example C13_source_count_intervals_is_model : _ := GenEq_met.g_pub_count_intervals_is_model.
Print Assumptions C13_source_count_intervals_is_model.
Example C13_source_coverage_ratio_is_model : _ := GenEq_met.g_pub_coverage_ratio_is_model.
Print Assumptions C13_source_coverage_ratio_is_model.
Example C13_source_max_duration_is_model : _ := GenEq_met.g_pub_max_duration_is_model.
Print Assumptions C13_source_max_duration_is_model.
Example C13_source_min_duration_is_model : _ := GenEq_met.g_pub_min_duration_is_model.
Print Assumptions C13_source_min_duration_is_model.
(* the exactness theorems above, stated of the code text *)
Example C13_source_total_is_measure : _ := GenEq_met.src_total_is_measure.
Print Assumptions C13_source_total_is_measure.
Example C13_source_total_is_measure_per_period : _ := GenEq_met.src_total_is_measure_per_period.
Print Assumptions C13_source_total_is_measure_per_period.
Example C13_source_extremum_spec : _ := GenEq_met.src_extremum_spec.
Print Assumptions C13_source_extremum_spec.
Example C13_source_count_is_hits : _ := GenEq_met.src_count_is_hits.
Print Assumptions C13_source_count_is_hits.
Example C13_source_metrics_never_out_of_fuel : _ := GenEq_met.src_metrics_never_out_of_fuel.
Print Assumptions C13_source_metrics_never_out_of_fuel.
Example C13_source_hypotheses_satisfiable : _ :=
  (GenEq_met.g_pub_inst_fuel, GenEq_met.g_pub_total_duration_inst, GenEq_met.g_pub_others_inst).
