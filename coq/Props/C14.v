(* Props/C14.v — C14: queries stream lazily; open-ended queries deliver results on demand.
   Statements only (Proofs/PullP.v, Proofs/PullRefine.v, Proofs/PullInter.v), about the pull machines of
   Model/Pull.v, which every run of ./check C14 ties to calgebra by corr_pull (items AND
   per-leaf pull counts of the instrumented implementation, exactly). *)
From CG Require Import Model.Pull Proofs.PullP Proofs.PullRefine Proofs.PullInter.

(* composing performs no fetch: building the generator chain of e[a:b] / e[a:] is a pure
   function of the expression and the window; nothing is read before the first next() *)
Theorem C14_compose_no_pull : forall fuel env o e a b c,
  take fuel env o 0 (pslice e a b) c = Some ([], false, pslice e a b, c).
Proof. exact compose_no_pull. Qed.
Print Assumptions C14_compose_no_pull.

(* the first n results, the machine state and the counters depend only on the prefix of
   each source that the counters say was read: two families of sources that agree on those
   prefixes give identical runs.  This is what lets infinite sources be used at all. *)
Theorem C14_pull_noninterference : forall fuel env o1 o2 n m c outs fin m' c',
  take fuel env o1 n m c = Some (outs, fin, m', c') ->
  agree c' o1 o2 ->
  take fuel env o2 n m c = Some (outs, fin, m', c').
Proof. exact pull_noninterference. Qed.
Print Assumptions C14_pull_noninterference.

Theorem C14_counters_grow : forall fuel env o n m c r c',
  take fuel env o n m c = Some (r, c') -> cle c c'.
Proof. exact take_counters_grow. Qed.
Print Assumptions C14_counters_grow.

(* hence: cutting every (infinite) source off anywhere past what was read leaves the first n
   results and the reads unchanged *)
Theorem C14_prefix_of_truncation : forall fuel env o n m c outs fin m' c' cb,
  take fuel env o n m c = Some (outs, fin, m', c') ->
  cle c' cb ->
  take fuel env (truncate cb o) n m c = Some (outs, fin, m', c').
Proof. exact prefix_of_truncation. Qed.
Print Assumptions C14_prefix_of_truncation.

(* refinement to the list model: over a finite window the machine of any expression built
   from recurring and stored leaves with | & ~ flatten filter buffer (k-way union and
   intersection with every mask/emit selection; difference only without subtractors), run
   until it stops, yields exactly the list the sweeps of Model/Sweeps.v compute ... *)
Theorem C14_pull_eq_list : forall env o e a b,
  frag2 e = true -> pos_periods e = true -> leaves_ok o e a (Some b) ->
  runs env o (compile e a (Some b)) (lfetch env e a b).
Proof. exact pull_eq_list. Qed.
Print Assumptions C14_pull_eq_list.

(* ... including the clip "& solid" of Timeline.__getitem__: tl[a:b] *)
Theorem C14_pull_eq_list_slice : forall env o e a b,
  frag2 e = true -> pos_periods e = true -> leaves_ok o e a (Some b) ->
  runs env o (pslice e a (Some b)) (lslice env e a b).
Proof. exact pull_eq_list_slice. Qed.
Print Assumptions C14_pull_eq_list_slice.

(* the Intersection machine alone, over arbitrary operand machines *)
Theorem C14_intersection_refines : forall env o masks ms Ls,
  Forall2 (runs env o) ms Ls -> (2 <= length Ls)%nat ->
  runs env o (MInter masks IInit (map (fun m => (s0, m)) ms)) (inter_sweep Ls (emit_sel masks)).
Proof. exact runs_inter. Qed.
Print Assumptions C14_intersection_refines.

(* and [lfetch] is [fetch] of Model/Expr.v on expressions without recurring leaves *)
Theorem C14_lfetch_is_fetch : forall env e a b, no_per e = true ->
  lfetch env e a b = fetch env (to_expr e) (Some a) (Some b) false.
Proof. exact lfetch_fetch. Qed.
Print Assumptions C14_lfetch_is_fetch.

(* bounded queries terminate: the machine of tl[a:b] stops after finitely many items, each
   next() returning for every sufficiently large fuel (same operators) *)
Theorem C14_bounded_terminates : forall env o e a b,
  frag2 e = true -> pos_periods e = true -> leaves_ok o e a (Some b) ->
  exists l, runs env o (pslice e a (Some b)) l.
Proof. exact bounded_terminates. Qed.
Print Assumptions C14_bounded_terminates.

(* satisfiability / non-vacuity: weekdays-like union of a daily and a weekly pattern, open end *)
Example C14_nonvacuous :
  let e := por (PPer 0 32400 86400 28800) (PPer 1 (-259200) 604800 86400) in
  let o := oenv_of (pand e PSolid) 1000000 None in
  (exists m', take 50 [] o 3 (pslice e 1000000 None) [0; 0]%nat =
    Some ([mkI (Some 1000000) (Some 1036800) Plain; mkI (Some 1000000) (Some 1011600) Plain;
           mkI (Some 1069200) (Some 1098000) Plain], false, m', [2; 2]%nat)) /\
  leaves_ok (oenv_of e 1000000 (Some 2000000)) e 1000000 (Some 2000000) /\
  frag2 e = true /\ pos_periods e = true.
Proof.
  cbv zeta. split; [eexists; vm_compute; reflexivity|].
  split; [|split; reflexivity].
  simpl. repeat split; intro k; reflexivity.
Qed.

(* ---------- the Difference machine and open-ended queries (Proofs/PullDiff.v) ---------- *)
From CG Require Import Proofs.PullDiff.

(* the Difference machine (lazy subtractor cursor, look-ahead of one subtractor) over arbitrary
   operand machines refines the list sweep *)
Theorem C14_difference_refines : forall env o src subs Ls Lsubs,
  runs env o src Ls -> Forall2 (runs env o) subs Lsubs ->
  runs env o (MDiff DInit None src (MUnion UInit (map (fun m => (None, m)) subs)))
       (diff_sweep Ls Lsubs).
Proof. exact diff_machine_refines. Qed.
Print Assumptions C14_difference_refines.

(* refinement to the list model for ALL operators — differences with subtractors included
   ([wfx]: every intersection node has at least two operands, the modelling convention) *)
Theorem C14_pull_eq_list_all_operators : forall env o e a b,
  wfx e = true -> pos_periods e = true -> leaves_ok o e a (Some b) ->
  runs env o (pslice e a (Some b)) (lslice env e a b).
Proof. exact pull_eq_list_slice_diff. Qed.
Print Assumptions C14_pull_eq_list_all_operators.

(* bounded queries always terminate, all operators *)
Theorem C14_bounded_terminates_all_operators : forall env o e a b,
  wfx e = true -> pos_periods e = true -> leaves_ok o e a (Some b) ->
  exists l, runs env o (pslice e a (Some b)) l.
Proof. exact bounded_terminates_diff. Qed.
Print Assumptions C14_bounded_terminates_all_operators.

(* taking n items of a bounded slice gives the first n of the list semantics *)
Theorem C14_bounded_take_is_list_prefix : forall F env o e a b n c outs fin m' c',
  wfx e = true -> pos_periods e = true -> leaves_ok o e a (Some b) ->
  take F env o n (pslice e a (Some b)) c = Some (outs, fin, m', c') ->
  outs = firstn n (lslice env e a b) /\
  (fin = true -> outs = lslice env e a b) /\
  (fin = false -> length outs = n).
Proof. exact bounded_take_is_list_prefix. Qed.
Print Assumptions C14_bounded_take_is_list_prefix.

(* "the first n results of e[a:] are exactly the first n results of a sufficiently long bounded
   query", with EQUAL pull counters: for complement-free expressions (periodic and stored
   leaves, | & - filter buffer), whenever the open-ended run delivered its n results without an
   unbounded item reaching the clip (slice_horizon <= POS_INF), every bounded window reaching
   past the computable horizon runs identically — same items, same pulls per source, same fuel *)
Theorem C14_prefix_of_bounded_partial : forall F env e a n c outs fin m' c',
  nsc e = true -> operands e <> [] ->
  take F env (oenv_of (pand e PSolid) a None) n (pslice e a None) c = Some (outs, fin, m', c') ->
  slice_horizon F env e a n c <= POS_INF ->
  exists B, forall b, B <= b ->
    take F env (oenv_of (pand e PSolid) a (Some b)) n (pslice e a (Some b)) c
      = Some (outs, fin, toB b m', c').
Proof. exact prefix_of_bounded_partial. Qed.
Print Assumptions C14_prefix_of_bounded_partial.

(* ... hence the open-ended result is a prefix of the LIST semantics of long bounded windows *)
Theorem C14_open_slice_is_list_prefix : forall F env e a n c outs m' c',
  nsc e = true -> wfx e = true -> pos_periods e = true ->
  (forall b, leaves_ok (oenv_of (pand e PSolid) a (Some b)) e a (Some b)) ->
  take F env (oenv_of (pand e PSolid) a None) n (pslice e a None) c = Some (outs, false, m', c') ->
  slice_horizon F env e a n c <= POS_INF ->
  exists B, forall b, B <= b -> outs = firstn n (lslice env e a b) /\ length outs = n.
Proof. exact open_slice_is_list_prefix. Qed.
Print Assumptions C14_open_slice_is_list_prefix.

(* the side condition cannot be dropped: an unbounded stored event reaches the clip with end None
   in the open query and with end b in every bounded one (not a calgebra defect: the property
   speaks of recurring sources) *)
Theorem C14_prefix_of_bounded_refuted :
  exists F env e a n c outs m' c',
    nsc e = true /\ operands e <> [] /\ wfx e = true /\
    take F env (oenv_of (pand e PSolid) a None) n (pslice e a None) c = Some (outs, false, m', c') /\
    POS_INF < slice_horizon F env e a n c /\
    forall B, B < POS_INF -> exists b, B <= b < POS_INF /\
      exists outs' fin' m'' c'',
        take F env (oenv_of (pand e PSolid) a (Some b)) n (pslice e a (Some b)) c
          = Some (outs', fin', m'', c'') /\ outs' <> outs.
Proof. exact prefix_of_bounded_refuted. Qed.
Print Assumptions C14_prefix_of_bounded_refuted.

Example C14_prefix_of_bounded_nonvacuous : _ := prefix_of_bounded_partial_ex.
Example C14_difference_refines_nonvacuous : _ := pull_eq_list_slice_diff_ex.

(* ---- tie C: the slice an open-ended query goes through, Timeline.__getitem__ (clip "& solid" whenever a
   bound is given), as the code has it — translation of the source text, proved equal to the model ---- *)
From CG Require Import Gen.Source Proofs.GenEq7.
Example C14_source_getitem_is_model : _ := g_getitem_is_model.
Print Assumptions C14_source_getitem_is_model.

(* ---- the open-ended prefix theorem under a complement (Proofs/PullCompl.v): for ~s, flatten s = ~~s, ~~~s ...
   over a complement-free s the first n results of the open-ended slice are the first n results of every long
   enough bounded slice, up to the end bound of a result that reaches the bound (None in the open query, b in
   the bounded one) — exactly, when no result is unbounded.  `_partial`: an operator ABOVE the complement
   (union, intersection, difference, filter, buffer) is not covered. ---- *)
From CG Require Import Proofs.PullCompl.
Example C14_open_compl_tower_is_list_prefix_partial : _ := open_compl_tower_is_list_prefix_partial.
Check open_compl_tower_is_list_prefix_partial.
Print Assumptions C14_open_compl_tower_is_list_prefix_partial.
Example C14_open_compl_tower_exact_partial : _ := open_compl_tower_exact_partial.
Print Assumptions C14_open_compl_tower_exact_partial.
Example C14_open_compl_nonvacuous : _ := open_compl_tower_ex.
Example C14_open_compl_clip_occurs : _ := open_compl_slice_clip_ex.
