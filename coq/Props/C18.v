(* Props/C18.v — C18: filters select exactly the events that satisfy the predicate.
   Statements only (Proofs/Filter.v).  The predicate semantics [feval] is tied to
   properties.py by the correspondence of the check (filter trees x events). *)
From CG Require Import Proofs.Defs Proofs.Filter.

Theorem C18_filtered_exact : forall env s f a b rv x,
  In x (fetch env (Filt s f) a b rv) <-> In x (fetch env s a b rv) /\ feval env f x = true.
Proof. exact filtered_in. Qed.
Print Assumptions C18_filtered_exact.

Theorem C18_filtered_in_order : forall env s f a b rv,
  fetch env (Filt s f) a b rv = filter (feval env f) (fetch env s a b rv).
Proof. exact filtered_exact. Qed.
Print Assumptions C18_filtered_in_order.

Theorem C18_and_is_conjunction : forall env f g i,
  feval env (FAnd [f; g]) i = feval env f i && feval env g i.
Proof. exact feval_and2. Qed.
Print Assumptions C18_and_is_conjunction.

Theorem C18_or_is_disjunction : forall env f g i,
  feval env (FOr [f; g]) i = feval env f i || feval env g i.
Proof. exact feval_or2. Qed.
Print Assumptions C18_or_is_disjunction.

Theorem C18_duration_threshold : forall env scale c k s e p,
  eval_cmp env (PDur scale) c (VInt k) (mkI (Some s) (Some e) p) = true <-> dur_q_cmp c (e - s) scale k.
Proof. exact duration_threshold. Qed.
Print Assumptions C18_duration_threshold.

Theorem C18_unbounded_is_infinitely_long : forall env scale c k i,
  st i = None \/ en i = None ->
  eval_cmp env (PDur scale) c (VInt k) i = match c with Ge | Gt | Ne => true | _ => false end.
Proof. exact duration_unbounded. Qed.
Print Assumptions C18_unbounded_is_infinitely_long.

Theorem C18_has_any : forall env name vs i,
  feval env (FHasAny name vs) i = true <->
  exists v, In v vs /\ memN v (set_of (field_of env i name)) = true.
Proof. exact has_any_spec. Qed.
Print Assumptions C18_has_any.

Theorem C18_has_all : forall env name vs i,
  feval env (FHasAll name vs) i = true <->
  forall v, In v vs -> memN v (set_of (field_of env i name)) = true.
Proof. exact has_all_spec. Qed.
Print Assumptions C18_has_all.

Theorem C18_empty_collections : forall env p name i,
  feval env (FOneOf p []) i = false /\ feval env (FHasAny name []) i = false /\
  feval env (FHasAll name []) i = true.
Proof. intros. repeat split. Qed.
Print Assumptions C18_empty_collections.

Example C18_nonvacuous :
  let env := [(7%N, [(0%N, VInt 5); (2%N, VSet [1%N; 2%N])])] in
  let ev := mkI (Some 0) (Some 7200) (Rich 7) in
  feval env (FAnd [FCmp (PDur 3600) Ge (VInt 2); FOr [FHasAll 2%N [1%N; 2%N]; FCmp (PField 0%N) Eq (VInt 9)]]) ev = true /\
  feval env (FCmp (PDur 3600) Gt (VInt 2)) ev = false.
Proof. vm_compute. split; reflexivity. Qed.

(* ---- tie C: Filtered.fetch as the code has it (translation of its source text, regenerated
   from /repo on every run): exactly the source's events that satisfy the predicate, in order *)
From CG Require Import Gen.Source Proofs.GenEq.

Theorem C18_source_filtered_fetch_is_model : forall src f a b rv,
  g_filtered_fetch src f a b rv = filter f (src a b rv).
Proof. exact g_filtered_fetch_eq. Qed.
Print Assumptions C18_source_filtered_fetch_is_model.

(* ---- tie C (third extension, tag filt): calgebra/properties.py and the Filter classes of core.py as the
   code has them.  The objects are built by the translated public API (Property.__ge__ .., one_of, has_any,
   has_all, Filter.__and__ / __or__: [src_build]) and applied by the translated apply methods (Operator /
   Or / And .apply, Duration / Start / End .apply, field: [src_apply]); a filter's apply may raise, so its
   result is a [res bool].  TRUSTED float reading as above: (end - start) / scale is the exact rational. *)
From CG Require Import Model.Loop Model.FiltVal Proofs.GenEq_filt.

(* whenever the code's evaluation completes with a Boolean, it is feval's *)
Theorem C18_source_filter_apply_is_feval : forall env i f b,
  in_model f = true -> src_apply env (src_build f) i = RDone b -> feval env f i = b.
Proof. exact src_filter_sound. Qed.
Print Assumptions C18_source_filter_apply_is_feval.

(* and it always completes on comparisons of duration / start / end with ints or with each other, and on
   their & / | combinations: there the code computes feval *)
Theorem C18_source_time_filters_are_feval : forall env i f,
  time_frag f = true -> src_apply env (src_build f) i = RDone (feval env f i).
Proof. exact src_filter_time_total. Qed.
Print Assumptions C18_source_time_filters_are_feval.

Theorem C18_source_duration_threshold : forall env scale c k s e p b,
  src_apply env (src_build (FCmp (PDur scale) c (VInt k))) (mkI (Some s) (Some e) p) = RDone b ->
  (b = true <-> dur_q_cmp c (e - s) scale k).
Proof.
  intros env scale c k s e p b H.
  rewrite (src_filter_time_total env (mkI (Some s) (Some e) p) (FCmp (PDur scale) c (VInt k)) eq_refl) in H.
  injection H as <-. cbn [feval]. exact (duration_threshold env scale c k s e p).
Qed.
Print Assumptions C18_source_duration_threshold.

(* T & f through the translated Filtered.fetch and the translated filter: exactly the source's events that
   satisfy the predicate *)
Theorem C18_source_filtered_exact : forall env s f a b rv x,
  time_frag f = true ->
  In x (g_filtered_fetch (fetch env s)
          (fun ev => match src_apply env (src_build f) ev with RDone true => true | _ => false end) a b rv)
  <-> In x (fetch env s a b rv) /\ feval env f x = true.
Proof.
  intros env s f a b rv x Hf. rewrite g_filtered_fetch_eq, filter_In.
  rewrite (src_filter_time_total env x f Hf). destruct (feval env f x); tauto.
Qed.
Print Assumptions C18_source_filtered_exact.

Example C18_source_hypotheses_satisfiable :
  in_model (FAnd [FCmp (PDur 3600) Ge (VInt 2); FOr [FHasAll 2%N [1%N; 2%N]; FCmp (PField 0%N) Eq (VInt 9)]]) = true /\
  time_frag (FAnd [FCmp (PDur 3600) Ge (VInt 2); FCmpP PStart Lt PEnd]) = true.
Proof. split; reflexivity. Qed.
