(* Props/C18.v — C18: filters select exactly the events that satisfy the predicate.
   Statements only (Proofs/Filter.v).  The predicate semantics [feval] is tied to
   properties.py by the correspondence of the check (filter trees x events). *)
From CG Require Import Proofs.Defs Proofs.Filter.

Theorem C18_filtered_exact : forall env s f a b rv x,
  In x (fetch env (Filt s f) a b rv) <-> In x (fetch env s a b rv) /\ feval env f x = true.
Proof. exact filtered_in. Qed.
Print Assumptions C18_filtered_exact.

Theorem C18_filtered_in_order : forall env s f a b rv,
  fetch env (Filt s f) a b rv = filter (feval env f) (fetch env s a b rv).
Proof. exact filtered_exact. Qed.
Print Assumptions C18_filtered_in_order.

Theorem C18_and_is_conjunction : forall env f g i,
  feval env (FAnd [f; g]) i = feval env f i && feval env g i.
Proof. exact feval_and2. Qed.
Print Assumptions C18_and_is_conjunction.

Theorem C18_or_is_disjunction : forall env f g i,
  feval env (FOr [f; g]) i = feval env f i || feval env g i.
Proof. exact feval_or2. Qed.
Print Assumptions C18_or_is_disjunction.

Theorem C18_duration_threshold : forall env scale c k s e p,
  eval_cmp env (PDur scale) c (VInt k) (mkI (Some s) (Some e) p) = true <-> dur_q_cmp c (e - s) scale k.
Proof. exact duration_threshold. Qed.
Print Assumptions C18_duration_threshold.

Theorem C18_unbounded_is_infinitely_long : forall env scale c k i,
  st i = None \/ en i = None ->
  eval_cmp env (PDur scale) c (VInt k) i = match c with Ge | Gt | Ne => true | _ => false end.
Proof. exact duration_unbounded. Qed.
Print Assumptions C18_unbounded_is_infinitely_long.

Theorem C18_has_any : forall env name vs i,
  feval env (FHasAny name vs) i = true <->
  exists v, In v vs /\ memN v (set_of (field_of env i name)) = true.
Proof. exact has_any_spec. Qed.
Print Assumptions C18_has_any.

Theorem C18_has_all : forall env name vs i,
  feval env (FHasAll name vs) i = true <->
  forall v, In v vs -> memN v (set_of (field_of env i name)) = true.
Proof. exact has_all_spec. Qed.
Print Assumptions C18_has_all.

Theorem C18_empty_collections : forall env p name i,
  feval env (FOneOf p []) i = false /\ feval env (FHasAny name []) i = false /\
  feval env (FHasAll name []) i = true.
Proof. intros. repeat split. Qed.
Print Assumptions C18_empty_collections.

Example C18_nonvacuous :
  let env := [(7%N, [(0%N, VInt 5); (2%N, VSet [1%N; 2%N])])] in
  let ev := mkI (Some 0) (Some 7200) (Rich 7) in
  feval env (FAnd [FCmp (PDur 3600) Ge (VInt 2); FOr [FHasAll 2%N [1%N; 2%N]; FCmp (PField 0%N) Eq (VInt 9)]]) ev = true /\
  feval env (FCmp (PDur 3600) Gt (VInt 2)) ev = false.
Proof. vm_compute. split; reflexivity. Qed.

(* ---- tie C: Filtered.fetch as the code has it (translation of its source text, regenerated
   from /repo on every run): exactly the source's events that satisfy the predicate, in order *)
From CG Require Import Gen.Source Proofs.GenEq.

Theorem C18_source_filtered_fetch_is_model : forall src f a b rv,
  g_filtered_fetch src f a b rv = filter f (src a b rv).
Proof. exact g_filtered_fetch_eq. Qed.
Print Assumptions C18_source_filtered_fetch_is_model.
