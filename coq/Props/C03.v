(* Props/C03.v — C03: query results are well-formed, window-clipped, chronologically ordered
   streams; stored timelines return their events in (start, end) order.  Statements only. *)
From CG Require Import Proofs.Defs Proofs.Compl Proofs.Merge Proofs.Diff Proofs.InterDisjoint
     Proofs.Clip Proofs.Stored Proofs.RefSpec Proofs.Assembly Proofs.Reverse2.

(* SortedList insertion keeps (start, end) order for every insertion history *)
Theorem C03_stored_start_end_order : forall evs, sorted_key (sl_build evs) = true.
Proof. exact sl_build_sorted. Qed.
Print Assumptions C03_stored_start_end_order.

(* a stored fetch is the sub-list of the sorted store meeting the window; reverse = reversed *)
Theorem C03_stored_fetch : forall store a b, sorted_key store = true ->
  fetch_static store a b false = filter (in_range a b) store /\
  fetch_static store a b true = rev (fetch_static store a b false).
Proof. exact fetch_static_spec. Qed.
Print Assumptions C03_stored_fetch.

(* every element a slice returns is a clip: non-empty, inside the window, None exactly where the
   clip is unbounded (no sentinel ever appears), payload kept *)
Theorem C03_clip_shape : forall a b i g, In g (clipW a b i) ->
  pl g = pl i /\ fstart g = Z.max (fstart i) (bnd_lo a) /\ fend g = Z.min (fend i) (bnd_hi b) /\
  fstart g < fend g /\ g = mkI (unS (fstart g)) (unE (fend g)) (pl i).
Proof. exact clipW_shape. Qed.
Print Assumptions C03_clip_shape.

Theorem C03_slice_is_clip : forall m xs a b, sorted_start xs ->
  inter_sweep [xs; [mkI a b Plain]] (emit_sel [m; true]) = flat_map (clipW a b) xs.
Proof. exact clip_sweep_masks. Qed.
Print Assumptions C03_slice_is_clip.

(* order: union (merge by key of key-sorted streams), intersection (any sorted operands),
   difference (non-overlapping source; KF-D1 otherwise), complement *)
Theorem C03_union_sorted : forall ss,
  Forall (sorted_le key_le) ss -> sorted_le key_le (merge_by lt_fwd ss).
Proof. exact merge_fwd_sorted. Qed.
Print Assumptions C03_union_sorted.

Theorem C03_union_sorted_reverse : forall ss,
  Forall (sorted_le key_ge) ss -> sorted_le key_ge (merge_by lt_rev ss).
Proof. exact merge_rev_sorted. Qed.
Print Assumptions C03_union_sorted_reverse.

Theorem C03_intersection_sorted : forall streams sel,
  (2 <= length streams)%nat -> Forall sorted_start streams ->
  sorted_start (inter_sweep streams sel).
Proof. exact inter_sweep_sorted. Qed.
Print Assumptions C03_intersection_sorted.

Theorem C03_difference_sorted_partial : forall src subs,
  Forall wf_ivl src -> disjoint_sorted src -> Forall wf_ivl subs -> sorted_start subs ->
  disjoint_sorted (dsweep src subs).
Proof. exact dsweep_disjoint_sorted. Qed.
Print Assumptions C03_difference_sorted_partial.

Theorem C03_complement_wf : forall xs a b,
  wf_win a b -> Forall wf_ivl xs -> sorted_start xs ->
  canonical a b (compl_sweep xs a b) = true.
Proof. exact compl_sweep_canonical. Qed.
Print Assumptions C03_complement_wf.

(* ---- whole expression trees ([good], see Props/C01.v), every window: every element of a forward
   slice is non-empty, inside the window, sentinel-free, and starts are non-decreasing ---- *)
Theorem C03_forward_wf : forall env e a b,
  good env e -> wf_win' a b ->
  stream_wf (fst (norm_bounds a b)) (snd (norm_bounds a b)) false (slice env e a b false) = true.
Proof. exact Assembly.C03_forward_wf. Qed.
Print Assumptions C03_forward_wf.

(* reverse slices of [good'] trees (see Props/C04.v): non-empty, inside the window, sentinel-free,
   non-increasing starts *)
Theorem C03_reverse_wf : forall env e a b, good' env e -> wf_win' a b ->
  stream_wf (fst (norm_bounds a b)) (snd (norm_bounds a b)) true (slice env e a b true) = true.
Proof. exact Reverse2.C03_reverse_wf. Qed.
Print Assumptions C03_reverse_wf.

(* KF-D1 also breaks order: fragments of overlapping source events come out of start order *)
Theorem C03_difference_order_refuted :
  dsweep [mkI (Some 2) (Some 5) (Rich 2); mkI (Some 3) (Some 4) (Rich 1)] [mkI (Some 3) (Some 4) Plain]
  = [mkI (Some 2) (Some 3) (Rich 2); mkI (Some 4) (Some 5) (Rich 2); mkI (Some 3) (Some 4) (Rich 1)].
Proof. vm_compute. reflexivity. Qed.
Print Assumptions C03_difference_order_refuted.

(* ---------- transforms: buffer and merge_within keep streams ordered (Proofs/Order2.v) ---------- *)
From CG Require Import Proofs.Transform Proofs.Order2.

(* forward slices of expressions that also contain buffer / merge_within nodes above `good`
   sub-expressions (class good2): non-empty elements inside the window, no sentinel, ordered by
   start — for every window whose widened versions stay inside the sentinels *)
Theorem C03_forward_wf_with_transforms : forall env e a b,
  good2 env e -> wins e (fst (norm_bounds a b)) (snd (norm_bounds a b)) ->
  stream_wf (fst (norm_bounds a b)) (snd (norm_bounds a b)) false (slice env e a b false) = true.
Proof. exact C03_forward_wf2. Qed.
Print Assumptions C03_forward_wf_with_transforms.

(* reverse slices of towers of merge_within / buffer / filter over a reverse-exact base *)
Theorem C03_reverse_wf_with_transforms : forall env e a b,
  rtower env e -> wins e (fst (norm_bounds a b)) (snd (norm_bounds a b)) ->
  stream_wf (fst (norm_bounds a b)) (snd (norm_bounds a b)) true (slice env e a b true) = true.
Proof. exact C03_reverse_wf2. Qed.
Print Assumptions C03_reverse_wf_with_transforms.

(* merge_within: strictly increasing starts, more than the gap apart; the reverse fetch is the
   reversed forward fetch *)
Theorem C03_merge_within_ordered : forall env s g a b,
  0 <= g ->
  Forall wf_ivl (fetch env s a b false) -> Forall canon_ivl (fetch env s a b false) ->
  sorted_start (fetch env s a b false) ->
  strict_start (fetch env (MergeW s g) a b false) /\
  sorted_start (fetch env (MergeW s g) a b false) /\
  fetch env (MergeW s g) a b true = rev (fetch env (MergeW s g) a b false) /\
  strict_desc_start (fetch env (MergeW s g) a b true) /\
  far_apartP g (fetch env (MergeW s g) a b false).
Proof. exact mw_fetch_sorted. Qed.
Print Assumptions C03_merge_within_ordered.

(* buffer: shifting every start by the same amount keeps the order *)
Theorem C03_buffer_ordered : forall env s before after a b,
  0 <= before ->
  Forall (no_underflow before) (fetch env s (addO a (- after)) (addO b before) false) ->
  sorted_start (fetch env s (addO a (- after)) (addO b before) false) ->
  sorted_start (fetch env (Buf s before after) a b false).
Proof. exact buffer_fetch_sorted. Qed.
Print Assumptions C03_buffer_ordered.

(* ---- tie C: the code that ORDERS results, as the source text has it (regenerated on every run): the k-way
   merge of Union.fetch with its direction-dependent keys, MemoryTimeline.fetch (the merge of the stored
   intervals and every series, both directions), the sort key of the store, and the reverse pager of a
   recurring pattern ---- *)
From CG Require Import Gen.Source Proofs.GenEq9 Proofs.GenEq_mem Proofs.GenEq2.
Example C03_source_union_fetch_is_model : _ := g_union_fetch_eq.
Print Assumptions C03_source_union_fetch_is_model.
Example C03_source_memory_fetch_is_model : _ := g_mem_fetch_eq.
Print Assumptions C03_source_memory_fetch_is_model.
Example C03_source_sort_key_orders : _ := g_interval_sort_key_orders.
Print Assumptions C03_source_sort_key_orders.
Example C03_source_recurring_reverse_is_model : _ := g_recur_fetch_reverse_eq.
Print Assumptions C03_source_recurring_reverse_is_model.
