(* Props/C07.v — placeholder until Proofs/RecurP.v lands; replaced below in this round. *)
From CG Require Import Spec.RecurSpec.
