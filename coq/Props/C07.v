(* Props/C07.v — C07: recurring patterns expand to the RFC 5545 occurrences in local wall-clock
   time.  Only statements, each closed by an existing lemma and followed by Print Assumptions.
   First the calendar facts the model and the reference series rest on, then (at the end) the
   end-to-end statement C07_forward_exact: fetch_forward = spec_occurrences for every rule of the
   supported shape (BYSETPOS included), every zone with offsets at most half a day apart, every
   window.  The rrule model's agreement with the real dateutil is validated on every run. *)
From CG Require Import Model.Civil Proofs.CivilP.

(* the day number <-> (year, month, day) conversion used by model and spec is a bijection onto
   valid Gregorian dates, for every day number (not just the tested range) *)
Theorem C07_civil_roundtrip : forall z,
  let '(y, m, d) := civil_from_days z in days_from_civil y m d = z /\ valid_date y m d = true.
Proof. exact civil_roundtrip. Qed.
Print Assumptions C07_civil_roundtrip.

(* weekdays repeat every 7 days and the week of a date starts on the Monday on or before it *)
Theorem C07_weekday_periodic : forall d k, weekday (d + 7 * k) = weekday d.
Proof. exact weekday_periodic. Qed.
Print Assumptions C07_weekday_periodic.

Theorem C07_monday_of_week : forall d, weekday (d - weekday d) = 0 /\ d - 6 <= d - weekday d <= d.
Proof. exact monday_of_week. Qed.
Print Assumptions C07_monday_of_week.

(* months have 28..31 days, years 365..366: the look-back buffer's "32 days" / "366 days" per
   period are upper bounds *)
Theorem C07_month_length : forall y m, 28 <= dim y m <= 31.
Proof. exact dim_bounds. Qed.
Print Assumptions C07_month_length.

Theorem C07_year_length : forall y, 365 <= diy y <= 366.
Proof. exact diy_bounds. Qed.
Print Assumptions C07_year_length.

(* ---- the phase-aligned anchor (_get_safe_anchor) ---- *)
From CG Require Import Model.Recur Spec.RecurSpec Proofs.RecurP.

(* a valid date survives the trip through its day number (so the dtstart handed to rrule has the
   calendar fields the anchor computation chose) *)
Theorem C07_civil_from_days_from_civil : forall y m d,
  valid_date y m d = true -> civil_from_days (days_from_civil y m d) = (y, m, d).
Proof. exact civil_from_days_from_civil. Qed.
Print Assumptions C07_civil_from_days_from_civil.

(* whatever look-back date sd the window leads to — arbitrarily far before or after the anchor —
   the rrule dtstart lies in a period whose index (in the numbering of the reference series) is
   congruent to that of the base anchor date modulo the interval: the cadence keeps its phase *)
Theorem C07_anchor_phase : forall (r : rule) (sd a : Z),
  0 < r_interval r ->
  safe_anchor r sd = Some a ->
  (period_of (r_freq r) (cdate_of a) - period_of (r_freq r) (cdate_of (base_day r))) mod r_interval r = 0.
Proof. exact anchor_phase. Qed.
Print Assumptions C07_anchor_phase.

(* and it has the weekday / day of month / month of the base anchor date, which is what rrule
   derives the missing BYxxx parts from *)
Theorem C07_anchor_template : forall (r : rule) (sd a : Z),
  0 < r_interval r ->
  safe_anchor r sd = Some a ->
  match r_freq r with
  | Daily => True
  | Weekly => weekday a = weekday (base_day r)
  | Monthly => day_of a = day_of (base_day r)
  | Yearly => day_of a = day_of (base_day r) /\ month_of a = month_of (base_day r)
  end.
Proof. exact anchor_template. Qed.
Print Assumptions C07_anchor_template.

(* it does not lie in a later period than the look-back date *)
Theorem C07_anchor_not_late : forall (r : rule) (sd a : Z),
  0 < r_interval r ->
  safe_anchor r sd = Some a ->
  period_of (r_freq r) (cdate_of a) <= period_of (r_freq r) (cdate_of sd).
Proof. exact anchor_not_late_period. Qed.
Print Assumptions C07_anchor_not_late.

(* ---- the date enumeration and the look-back ---- *)
From CG Require Import Proofs.CdateP.

(* model and spec enumerate the dates of a period / a scan range with one calendar conversion
   followed by "next day" steps: that is the calendar conversion of every day of the range *)
Theorem C07_cdates_spec : forall s n, cdates s n = map cdate_of (zseq s n).
Proof. exact cdates_spec. Qed.
Print Assumptions C07_cdates_spec.

(* the rrule dtstart is at most 0 / 0 / 30 / 365 days after the look-back date *)
Theorem C07_anchor_not_late_days : forall (r : rule) (sd a : Z),
  0 < r_interval r -> safe_anchor r sd = Some a -> a <= sd + anchor_slack (r_freq r).
Proof. exact anchor_not_late. Qed.
Print Assumptions C07_anchor_not_late_days.

(* look-back sufficiency: an occurrence on a local date before the rrule dtstart ends at or before
   the window start A — whatever the duration, the interval, the frequency — in every zone whose
   UTC offsets differ by at most half a day; so dropping the dates before dtstart loses nothing
   the window can see *)
Theorem C07_anchor_before : forall (r : rule) (A a d S : Z) (i : ivl),
  0 < r_interval r ->
  0 <= r_sod r < DAY ->
  zone_spread_le (r_zone r) S -> 2 * S <= DAY ->
  safe_anchor r (local_day (r_zone r) (A - lookback_buffer r)) = Some a ->
  d < a ->
  occurrence_to_interval r d = Some i ->
  fend i <= A.
Proof. exact anchor_before. Qed.
Print Assumptions C07_anchor_before.

(* seen from the rrule dtstart the series is the same series: phase counted from dtstart's period
   and missing BYxxx parts taken from dtstart select exactly the dates of the series aligned to
   the base anchor date *)
Theorem C07_anchor_series : forall (r : rule) (sd a : Z),
  0 < r_interval r ->
  safe_anchor r sd = Some a ->
  forall c, matches_s (series_from r a) c = matches_s (series_of r) c.
Proof. exact anchor_series. Qed.
Print Assumptions C07_anchor_series.

(* the look-back theorem under the executable zone check the harness applies to every table *)
Theorem C07_anchor_before_checked_zone : forall (r : rule) (A a d : Z) (i : ivl),
  0 < r_interval r ->
  0 <= r_sod r < DAY ->
  zone_spread_ok (r_zone r) = true ->
  safe_anchor r (local_day (r_zone r) (A - lookback_buffer r)) = Some a ->
  d < a ->
  occurrence_to_interval r d = Some i ->
  fend i <= A.
Proof. exact anchor_before_checked_zone. Qed.
Print Assumptions C07_anchor_before_checked_zone.

(* ---------- the end-to-end statement (Proofs/RecurExact.v, RecurExact2.v) ---------- *)
From CG Require Import Proofs.RecurExact Proofs.RecurExact2.
From Coq Require Import Sorting.Sorted.

(* Whenever the forward fetch returns, it returns EXACTLY the occurrences of the bi-infinite,
   phase-aligned series that end after a and start at or before b, minus the excluded ones, in
   ascending order — for every frequency, interval, BYDAY (plain or n-th, not mixed: lists_ok),
   BYMONTHDAY, BYMONTH, BYSETPOS, anchored or time-of-day start, any duration (longer than the
   period included), any exdates, any zone whose offsets differ by at most half a day, any window
   however far from the anchor. *)
Theorem C07_forward_exact : forall r a b l,
  lists_ok r -> 0 < r_interval r -> rule_accepted r ->
  zone_spread_ok (r_zone r) = true ->
  fetch_forward r a b = Ok l -> l = spec_occurrences r a b.
Proof. exact RecurExact2.C07_forward_exact. Qed.
Print Assumptions C07_forward_exact.

(* ... and it does return (no exception, fuel suffices) as soon as the anchor computation succeeds
   and some non-excluded occurrence exists within SLACK_DAYS after the window *)
Theorem C07_forward_total : forall r a b dstar,
  lists_ok r -> 0 < r_interval r -> rule_accepted r ->
  zone_spread_ok (r_zone r) = true -> 0 <= r_dur r -> a <= b ->
  safe_anchor r (local_day (r_zone r) (a - lookback_buffer r)) <> None ->
  matches r dstar = true ->
  local_day (r_zone r) b + 2 <= dstar <= local_day (r_zone r) b + SLACK_DAYS ->
  zmem (fstart (occurrence r dstar)) (r_exdates r) = false ->
  fetch_forward r a b = Ok (spec_occurrences r a b).
Proof. exact RecurExact2.C07_forward_total. Qed.
Print Assumptions C07_forward_total.

(* occurrence starts increase strictly with the local date (this is what makes the early `break`
   of the streaming loop sound), so results are strictly ascending *)
Theorem C07_occurrence_starts_increase : forall r S d d',
  zone_spread_le (r_zone r) S -> S < DAY ->
  d < d' -> fstart (occurrence r d) < fstart (occurrence r d').
Proof. exact occ_start_mono. Qed.
Print Assumptions C07_occurrence_starts_increase.

Theorem C07_forward_sorted : forall r a b l,
  lists_ok r -> 0 < r_interval r -> rule_accepted r -> zone_spread_ok (r_zone r) = true ->
  fetch_forward r a b = Ok l -> StronglySorted (fun x y => fstart x < fstart y) l.
Proof. exact fetch_forward_sorted. Qed.
Print Assumptions C07_forward_sorted.

(* the hypothesis lists_ok cannot be dropped: a BYDAY list mixing plain and n-th weekdays is read
   as a conjunction by the expansion (known finding KF-MIXED-BYDAY-C07) *)
Theorem C07_forward_exact_mixed_byday_refuted :
  exists r a b l,
    Forall (fun m => 1 <= m <= 12) (r_bymonth r) /\ Forall (fun e => e <> 0) (r_bymonthday r) /\
    Forall (fun e => 0 <= fst e < 7) (r_byweekday r) /\
    0 < r_interval r /\ rule_accepted r /\ zone_spread_ok (r_zone r) = true /\
    fetch_forward r a b = Ok l /\ l <> spec_occurrences r a b.
Proof. exact RecurExact2.C07_forward_exact_mixed_byday_refuted. Qed.
Print Assumptions C07_forward_exact_mixed_byday_refuted.

(* non-vacuity: weekly, BYSETPOS and n-th weekday rules in real zone tables meet the hypotheses *)
Example C07_forward_exact_nonvacuous : _ := RecurExact2.C07_forward_exact_instances.
Example C07_forward_total_nonvacuous : _ := RecurExact2.C07_forward_total_instance_setpos.
Example C07_zone_hypothesis_satisfiable : _ := RecurExact2.zone_hypothesis_satisfiable.

(* ---- tie C (extended): statements about the Gallina translation of the SOURCE TEXT, regenerated from
   /repo on every run (Gen/Source.v); external calls are function parameters of the generated definitions ---- *)
From CG Require Import Model.Loop Gen.Source Proofs.GenEq2.

(* RecurringPattern._fetch_forward (look-back ladder + streaming loop), composed with the model's
   anchor and rrule expansion, returns what the model's fetch_forward returns ... *)
Theorem C07_source_forward_is_model : forall r a b l,
  fetch_forward r a b = Ok l ->
  g_forward_of r (gen_anchor r) (model_rrule r b) (Some a) (Some b) = RDone l.
Proof. exact g_recur_fetch_forward_composed_eq. Qed.
Print Assumptions C07_source_forward_is_model.

(* ... hence exactly the spec's occurrences *)
Theorem C07_source_forward_exact : forall r a b l,
  lists_ok r -> 0 < r_interval r -> rule_accepted r -> zone_spread_ok (r_zone r) = true ->
  fetch_forward r a b = Ok l ->
  g_forward_of r (gen_anchor r) (model_rrule r b) (Some a) (Some b) = RDone (spec_occurrences r a b).
Proof. exact src_forward_exact. Qed.
Print Assumptions C07_source_forward_exact.

(* ---- tie C: _occurrence_to_interval as the code has it (datetime operations are the zone model's) ---- *)
From CG Require Import Proofs.GenEq10.
Example C07_source_occurrence_is_model : _ := g_recur_occurrence_to_interval_eq.
Print Assumptions C07_source_occurrence_is_model.

(* ---- tie C (third extension): RecurringPattern.__init__ as the code has it.  The constructor is
   translated as seven fragments that tile its body, and their generated sequence g_rp_init
   (Gen/Source.v); Proofs/GenEq_rec_init.v. ---- *)
From CG Require Import Model.RecSrc Proofs.GenEq_rec_init.

(* the constructor, for all arguments and all instances of the string / datetime libraries, is the
   hand-written rp_new (ValueError exactly where rp_new has None) *)
Example C07_source_init_is_model : _ := @g_rp_init_eq.
Print Assumptions C07_source_init_is_model.

(* what the fetch theorems above assume of a rule (rule_accepted) is what the constructor
   guarantees of every object it builds ... *)
Example C07_source_init_rule_accepted : _ := @src_init_rule_accepted.
Print Assumptions C07_source_init_rule_accepted.

(* ... and an int start that is neither a time of day nor a timestamp is rejected *)
Example C07_source_init_rejects_start : _ := @src_init_rejects_start.
Print Assumptions C07_source_init_rejects_start.

(* the fields the fetch functions read are those of the pattern Model/Ical.v builds (rp_init for an
   int start, rp_init_dt for an aware datetime), on the zone model's datetimes *)
Example C07_source_init_is_rp_init : _ := @src_init_is_rp_init.
Print Assumptions C07_source_init_is_rp_init.
Example C07_source_init_is_rp_init_dt : _ := @src_init_is_rp_init_dt.
Print Assumptions C07_source_init_is_rp_init_dt.
Example C07_source_init_nonvacuous : _ := ex_init_dt.
Example C07_source_init_validation_instances : _ := ex_init_rejects.
