(* Props/C05.v — C05: results do not depend on the window used to ask for them.
   Statements only. *)
From CG Require Import Proofs.Defs Proofs.RefSpec Proofs.Stored Proofs.Clip Proofs.Assembly
     Proofs.Assembly2.

(* the reference semantics is window independent by construction: asking a nested window
   gives exactly the clip of the wider answer *)
Theorem C05_reference_local : forall env e a1 b1 a2 b2,
  bnd_lo a1 <= bnd_lo a2 -> bnd_hi b2 <= bnd_hi b1 ->
  expected env e a2 b2 = flat_map (clipW a2 b2) (expected env e a1 b1).
Proof. exact expected_local. Qed.
Print Assumptions C05_reference_local.

Theorem C05_clip_compose : forall a1 b1 a2 b2 l,
  bnd_lo a1 <= bnd_lo a2 -> bnd_hi b2 <= bnd_hi b1 ->
  flat_map (clipW a2 b2) (flat_map (clipW a1 b1) l) = flat_map (clipW a2 b2) l.
Proof. exact clip_all_local. Qed.
Print Assumptions C05_clip_compose.

(* stored timelines: a fetch returns every stored event meeting the window, whatever the window *)
Theorem C05_stored_fetch_in : forall store a b rv x, sorted_key store = true ->
  (In x (fetch_static store a b rv) <-> In x store /\ in_range a b x = true).
Proof. exact fetch_static_in. Qed.
Print Assumptions C05_stored_fetch_in.

(* and a slice clips exactly those *)
Theorem C05_slice_is_clip : forall m xs a b, sorted_start xs ->
  inter_sweep [xs; [mkI a b Plain]] (emit_sel [m; true]) = flat_map (clipW a b) xs.
Proof. exact clip_sweep_masks. Qed.
Print Assumptions C05_slice_is_clip.

(* ---- whole expression trees ([good], see Props/C01.v): slicing with a nested window returns
   exactly the wider result clipped to it (same events, same metadata) ---- *)
Theorem C05_locality : forall env e a1 b1 a2 b2,
  good env e -> wf_win' a1 b1 -> wf_win' a2 b2 ->
  bnd_lo (fst (norm_bounds a1 b1)) <= bnd_lo (fst (norm_bounds a2 b2)) ->
  bnd_hi (snd (norm_bounds a2 b2)) <= bnd_hi (snd (norm_bounds a1 b1)) ->
  Permutation (slice env e a2 b2 false)
              (flat_map (clipW (fst (norm_bounds a2 b2)) (snd (norm_bounds a2 b2)))
                        (slice env e a1 b1 false)).
Proof. exact Assembly2.C05_locality. Qed.
Print Assumptions C05_locality.

(* ---- tie C: the code locality rests on, as the source text has it (regenerated on every run): the clip of
   Timeline.__getitem__, the widening of the source query by _Buffered.fetch, the look-back of
   RecurringPattern._fetch_forward and its reverse pager ---- *)
From CG Require Import Gen.Source Proofs.GenEq Proofs.GenEq7 Proofs.GenEq2.
Example C05_source_getitem_is_model : _ := g_getitem_is_model.
Print Assumptions C05_source_getitem_is_model.
Example C05_source_buffered_fetch_is_model : _ := g_buffered_fetch_eq.
Print Assumptions C05_source_buffered_fetch_is_model.
Example C05_source_recurring_forward_is_model : _ := g_recur_fetch_forward_eq.
Print Assumptions C05_source_recurring_forward_is_model.
Example C05_source_recurring_reverse_is_model : _ := g_recur_fetch_reverse_eq.
Print Assumptions C05_source_recurring_reverse_is_model.
