(* Props/C06.v — C06: mask results are canonical.  Only statements, each closed by an
   existing lemma, each followed by Print Assumptions. *)
From CG Require Import Proofs.Defs Proofs.Compl.

(* ~T over any window: for EVERY source stream sorted by start with positive-length events —
   overlapping, nested, adjacent, duplicated, unbounded — the gaps are plain, inside the window,
   sentinel-free (None exactly on an unbounded side), strictly separated (never touching), and
   cover exactly the instants of the window the source does not cover. *)
Theorem C06_complement_canonical_and_exact :
  forall xs a b, wf_win a b -> Forall wf_ivl xs -> sorted_start xs ->
    let out := compl_sweep xs a b in
    (forall g, In g out -> good_gap (bnd_lo a) (bnd_hi b) g) /\
    separatedP out /\
    (forall t, bnd_lo a <= t < bnd_hi b -> covers out t = negb (covers xs t)).
Proof. exact compl_sweep_spec. Qed.
Print Assumptions C06_complement_canonical_and_exact.

(* the same, through the executable oracle the check applies to the implementation's output *)
Theorem C06_complement_oracle :
  forall xs a b, wf_win a b -> Forall wf_ivl xs -> sorted_start xs ->
    canonical a b (compl_sweep xs a b) = true.
Proof. exact compl_sweep_canonical. Qed.
Print Assumptions C06_complement_oracle.

(* non-vacuity: a stream with nested, duplicated, touching and unbounded events meets the
   hypotheses, and the sweep really returns the two maximal gaps *)
Example C06_hypotheses_satisfiable :
  let xs := [mkI None (Some 2) Plain; mkI (Some 1) (Some 9) (Rich 1); mkI (Some 3) (Some 4) (Rich 2);
             mkI (Some 3) (Some 4) (Rich 3); mkI (Some 9) (Some 12) Plain; mkI (Some 20) None (Rich 4)] in
  wf_win (Some (-5)) None /\ Forall wf_ivl xs /\ sorted_start xs /\
  compl_sweep xs (Some (-5)) None = [mkI (Some 12) (Some 20) Plain].
Proof.
  cbv zeta. split; [|split; [|split]].
  - unfold wf_win, NEG_INF, POS_INF; simpl. repeat split; intros; try congruence; try lia.
    injection H as <-. lia.
  - repeat constructor; unfold wf_ivl, fstart, fend, NEG_INF, POS_INF; simpl; lia.
  - simpl. unfold fstart, NEG_INF; simpl. repeat split; intros y Hy;
      repeat (destruct Hy as [<-|Hy]; [simpl; lia|]); try contradiction.
  - vm_compute. reflexivity.
Qed.

(* ---- tie C: the statement about the code itself ----
   [g_compl_sweep] is the Gallina translation of the SOURCE TEXT of Complement._sweep, regenerated
   from /repo on every run (Gen/Source.v).  It equals the model for all inputs ... *)
From CG Require Import Gen.Source Proofs.GenEq.

Theorem C06_source_is_model : forall xs a b, g_compl_sweep xs a b = compl_sweep xs a b.
Proof. exact g_compl_sweep_eq. Qed.
Print Assumptions C06_source_is_model.

(* ... so the theorem holds of what the code says now *)
Theorem C06_source_complement_canonical_and_exact :
  forall xs a b, wf_win a b -> Forall wf_ivl xs -> sorted_start xs ->
    let out := g_compl_sweep xs a b in
    (forall g, In g out -> good_gap (bnd_lo a) (bnd_hi b) g) /\
    separatedP out /\
    (forall t, bnd_lo a <= t < bnd_hi b -> covers out t = negb (covers xs t)).
Proof. intros xs a b. rewrite g_compl_sweep_eq. apply compl_sweep_spec. Qed.
Print Assumptions C06_source_complement_canonical_and_exact.

(* Complement.fetch (forward, and reverse by time negation) over ANY source, as the model's
   Compl case of fetch has it *)
Theorem C06_source_fetch_is_model : forall src a b rv,
  g_compl_fetch src a b rv =
  if rv then neg_stream (compl_sweep (neg_stream (src a b true)) (negO b) (negO a))
  else compl_sweep (src a b false) a b.
Proof. exact g_compl_fetch_eq. Qed.
Print Assumptions C06_source_fetch_is_model.

(* ---- tie C (third extension, "small"): the `_is_mask` property of every timeline class as the code has
   it (Proofs/GenEq_small_mask.v): the model's is_mask — which decides what an intersection emits and
   whether a cache stitches — is the flag computed with the generated definitions only ---- *)
From CG Require Import Proofs.GenEq_small_mask.
Example C06_source_is_mask_is_model : _ := is_mask_is_source.
Print Assumptions C06_source_is_mask_is_model.
Example C06_source_is_mask_by_class : _ := g_is_mask_eqs.
Print Assumptions C06_source_is_mask_by_class.

(* ---- tie C: the sweep a conjunction of masks runs, Intersection._sweep with its _SourceState, as the code has
   it (translation of the source text; every pass of its loop is there, none is capped) ---- *)
From CG Require Import Proofs.GenEq6.
Example C06_source_intersection_is_model : _ := g_inter_sweep_eq.
Print Assumptions C06_source_intersection_is_model.
