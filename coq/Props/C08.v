(* Props/C08.v — C08: recurring patterns answer every finite window, without gaps, repeats or
   drift.  Only statements, each closed by an existing lemma and followed by Print Assumptions. *)
From CG Require Import Model.Civil Proofs.CivilP.

Theorem C08_civil_roundtrip : forall z,
  let '(y, m, d) := civil_from_days z in days_from_civil y m d = z /\ valid_date y m d = true.
Proof. exact civil_roundtrip. Qed.
Print Assumptions C08_civil_roundtrip.

Theorem C08_month_length : forall y m, 28 <= dim y m <= 31.
Proof. exact dim_bounds. Qed.
Print Assumptions C08_month_length.

Theorem C08_year_length : forall y, 365 <= diy y <= 366.
Proof. exact diy_bounds. Qed.
Print Assumptions C08_year_length.

From CG Require Import Model.Recur Spec.RecurSpec Proofs.RecurP.
From Coq Require Import Sorting.Sorted.

(* interval > 1 cadences keep their phase for windows arbitrarily far from the anchor *)
Theorem C08_anchor_phase : forall (r : rule) (sd a : Z),
  0 < r_interval r ->
  safe_anchor r sd = Some a ->
  (period_of (r_freq r) (cdate_of a) - period_of (r_freq r) (cdate_of (base_day r))) mod r_interval r = 0.
Proof. exact anchor_phase. Qed.
Print Assumptions C08_anchor_phase.

Theorem C08_anchor_not_late : forall (r : rule) (sd a : Z),
  0 < r_interval r ->
  safe_anchor r sd = Some a ->
  period_of (r_freq r) (cdate_of a) <= period_of (r_freq r) (cdate_of sd).
Proof. exact anchor_not_late_period. Qed.
Print Assumptions C08_anchor_not_late.

(* the chunk loop of _fetch_reverse, abstractly: whatever ascending series of positive-length
   occurrences the forward fetch answers from, whatever the chunk size > 0 and however the
   durations compare with it, paging yields the forward answer reversed — every occurrence
   exactly once, newest first *)
Theorem C08_pager_exactly_once :
  forall (fwd : Z -> Z -> list ivl) (chunk : Z) (occs : list ivl),
    (forall a b, fwd a b = filter (fun i => (a <? fend i) && (fstart i <=? b)) occs) ->
    StronglySorted (fun x y => fstart x <= fstart y) occs ->
    Forall (fun i => fstart i < fend i) occs ->
    0 < chunk ->
    forall (fuel : nat) (a b : Z),
      a < b -> b - a <= Z.of_nat fuel * chunk ->
      pager fwd chunk fuel a b b = Some (rev (fwd a b)).
Proof. exact pager_exactly_once. Qed.
Print Assumptions C08_pager_exactly_once.

(* Model/Recur.v's reverse fetch is that loop: if fetch_forward answers every window from one
   ascending series, fetch_reverse returns the forward answer reversed *)
Theorem C08_reverse_is_rev_forward : forall (r : rule) (occs : list ivl),
  (forall a b, fetch_forward r a b =
               Ok (filter (fun i => (a <? fend i) && (fstart i <=? b)) occs)) ->
  StronglySorted (fun x y => fstart x <= fstart y) occs ->
  Forall (fun i => fstart i < fend i) occs ->
  forall a b, a < b ->
    fetch_reverse r a b = Ok (rev (filter (fun i => (a <? fend i) && (fstart i <=? b)) occs)).
Proof. exact fetch_reverse_is_rev_forward. Qed.
Print Assumptions C08_reverse_is_rev_forward.

(* occurrences that began before the window but reach into it are included however long the
   duration is relative to the period: nothing that ends after the window start A lies before
   the date the expansion starts from *)
Theorem C08_lookback_sufficient : forall (r : rule) (A a d S : Z) (i : ivl),
  0 < r_interval r ->
  0 <= r_sod r < DAY ->
  zone_spread_le (r_zone r) S -> 2 * S <= DAY ->
  safe_anchor r (local_day (r_zone r) (A - lookback_buffer r)) = Some a ->
  d < a ->
  occurrence_to_interval r d = Some i ->
  fend i <= A.
Proof. exact anchor_before. Qed.
Print Assumptions C08_lookback_sufficient.

Theorem C08_anchor_series : forall (r : rule) (sd a : Z),
  0 < r_interval r ->
  safe_anchor r sd = Some a ->
  forall c, matches_s (series_from r a) c = matches_s (series_of r) c.
Proof. exact anchor_series. Qed.
Print Assumptions C08_anchor_series.

(* ---------- consequences of forward exactness (Proofs/RecurExact2.v) ---------- *)
From CG Require Import Proofs.RecurExact Proofs.RecurExact2.

(* window independence: the answer to a window is the restriction of the answer to any wider
   window — no gaps, repeats or drift whichever window is asked, however far from the anchor *)
Theorem C08_fetch_window_independent : forall r a b a' b' l l',
  lists_ok r -> 0 < r_interval r -> rule_accepted r ->
  zone_spread_ok (r_zone r) = true ->
  a' <= a -> b <= b' ->
  fetch_forward r a b = Ok l -> fetch_forward r a' b' = Ok l' ->
  l = filter (fun i => (a <? fend i) && (fstart i <=? b)) l'.
Proof. exact fetch_window_independent. Qed.
Print Assumptions C08_fetch_window_independent.

(* every finite window is answered: no exception once the anchor exists ... *)
Theorem C08_forward_no_raise : forall r a b,
  rule_accepted r ->
  safe_anchor r (local_day (r_zone r) (a - lookback_buffer r)) <> None ->
  fetch_forward r a b <> Raised.
Proof. exact fetch_forward_no_raise. Qed.
Print Assumptions C08_forward_no_raise.

(* ... the anchor exists for every daily / weekly rule and for monthly / yearly rules anchored on
   a day <= 28 (for days 29-31 the step-back loop of the repaired code is validated on every run) *)
Theorem C08_safe_anchor_total : forall r sd,
  0 < r_interval r ->
  r_freq r = Daily \/ r_freq r = Weekly \/
  (day_of (base_day r) <= 28 /\ r_interval r < year_of sd) ->
  exists a0, safe_anchor r sd = Some a0.
Proof. exact safe_anchor_total. Qed.
Print Assumptions C08_safe_anchor_total.

(* ... and the fuel of the model never runs out when an occurrence follows the window *)
Theorem C08_forward_fuel_enough : forall r a b dstar,
  lists_ok r -> 0 < r_interval r -> rule_accepted r ->
  zone_spread_ok (r_zone r) = true -> 0 <= r_dur r -> a <= b ->
  matches r dstar = true ->
  local_day (r_zone r) b + 2 <= dstar <= local_day (r_zone r) b + SLACK_DAYS ->
  zmem (fstart (occurrence r dstar)) (r_exdates r) = false ->
  fetch_forward r a b <> OutOfFuel.
Proof. exact fetch_forward_fuel_enough. Qed.
Print Assumptions C08_forward_fuel_enough.

Theorem C08_forward_exact : forall r a b l,
  lists_ok r -> 0 < r_interval r -> rule_accepted r ->
  zone_spread_ok (r_zone r) = true ->
  fetch_forward r a b = Ok l -> l = spec_occurrences r a b.
Proof. exact RecurExact2.C07_forward_exact. Qed.
Print Assumptions C08_forward_exact.

Example C08_window_independent_nonvacuous : _ := RecurExact2.fetch_window_independent_instance.

(* ---------- reverse exactness and totality of the anchor (Proofs/RecurExact3.v) ---------- *)
From CG Require Import Proofs.RecurExact3.

(* reverse iteration returns exactly the spec's occurrences of the window, newest first — each once,
   whatever the chunk edges do (no global occurrence list is assumed: every chunk answer is exact
   by C07_forward_exact) *)
Theorem C08_reverse_exact : forall r a b l,
  lists_ok r -> 0 < r_interval r -> rule_accepted r ->
  zone_spread_ok (r_zone r) = true ->
  Forall (fun i => fstart i < fend i) (spec_occurrences r a b) ->
  a < b ->
  fetch_reverse r a b = Ok l -> l = rev (spec_occurrences r a b).
Proof. exact RecurExact3.C08_reverse_exact. Qed.
Print Assumptions C08_reverse_exact.

Theorem C08_reverse_is_rev_forward_exact : forall r a b lf lr,
  lists_ok r -> 0 < r_interval r -> rule_accepted r ->
  zone_spread_ok (r_zone r) = true ->
  Forall (fun i => fstart i < fend i) lf ->
  a < b ->
  fetch_forward r a b = Ok lf -> fetch_reverse r a b = Ok lr -> lr = rev lf.
Proof. exact RecurExact3.C08_reverse_is_rev_forward_exact. Qed.
Print Assumptions C08_reverse_is_rev_forward_exact.

(* occurrences have positive length in every well-formed zone table when the duration is positive *)
Theorem C08_occurrences_positive : forall r,
  RecurExact3.zone_wf (r_zone r) = true -> 0 < r_dur r -> occ_positive r.
Proof. exact occ_positive_wf. Qed.
Print Assumptions C08_occurrences_positive.

(* the phase-aligned anchor exists for EVERY rule — days 29-31 and 29 February included — for every
   look-back date at or after the anchor's period, and for every earlier one that leaves room for
   the step-back (1 interval for a 29th/30th, 5 for a 31st, 399 for 29 February) above year 1 *)
Theorem C08_safe_anchor_total_all : forall r sd,
  0 < r_interval r ->
  after_anchor r sd \/ anchor_room r sd ->
  exists a0, safe_anchor r sd = Some a0.
Proof. exact safe_anchor_total_all. Qed.
Print Assumptions C08_safe_anchor_total_all.

(* every finite window at or after the anchor is answered, in both directions, by exactly the spec *)
Theorem C08_answers_every_window_after_anchor : forall r a b,
  lists_ok r -> 0 < r_interval r -> rule_accepted r ->
  zone_spread_ok (r_zone r) = true -> 0 <= r_dur r ->
  Forall (fun i => fstart i < fend i) (spec_occurrences r a b) ->
  a < b ->
  r_freq r = Daily \/ r_freq r = Weekly \/
  (1 <= year_of (base_day r) /\ base_day r < local_day (r_zone r) (a - lookback_buffer r)) ->
  (forall b', a <= b' <= b -> dense_after r b') ->
  fetch_forward r a b = Ok (spec_occurrences r a b) /\
  fetch_reverse r a b = Ok (rev (spec_occurrences r a b)).
Proof. exact RecurExact3.C08_answers_every_window_after_anchor. Qed.
Print Assumptions C08_answers_every_window_after_anchor.

(* "answers EVERY finite window" is false at the edge of the calendar: a 29-February anchor asked
   about a window before the anchor so close to year 1 that the step-back passes year 1 raises
   (known finding KF-ANCHOR-YEAR1-C08; the same input raises in /repo) *)
Theorem C08_answers_every_window_refuted :
  exists r a b,
    lists_ok r /\ 0 < r_interval r /\ rule_accepted r /\ zone_spread_ok (r_zone r) = true /\
    0 < r_dur r /\ a < b /\ 1 <= year_of (local_day (r_zone r) (a - lookback_buffer r)) /\
    spec_occurrences r a b = [] /\
    fetch_forward r a b = Raised /\ fetch_reverse r a b = Raised.
Proof. exact RecurExact3.C08_answers_every_window_refuted. Qed.
Print Assumptions C08_answers_every_window_refuted.

(* positive length cannot be dropped from reverse exactness: a zero-duration pattern (accepted by the
   constructor, outside the positive-length domain of the properties) loses the occurrence lying
   exactly on a chunk edge in a raw reverse fetch *)
Theorem C08_reverse_exact_zero_duration_refuted :
  exists r a b lf lr,
    lists_ok r /\ 0 < r_interval r /\ rule_accepted r /\ zone_spread_ok (r_zone r) = true /\
    r_dur r = 0 /\ a < b /\
    fetch_forward r a b = Ok lf /\ fetch_reverse r a b = Ok lr /\
    length lf = 61%nat /\ length lr = 59%nat /\ lr <> rev lf.
Proof. exact RecurExact3.C08_reverse_exact_zero_duration_refuted. Qed.
Print Assumptions C08_reverse_exact_zero_duration_refuted.

Example C08_reverse_exact_nonvacuous : _ := RecurExact3.C08_reverse_exact_instance.
Example C08_answers_every_window_nonvacuous : _ := RecurExact3.C08_answers_every_window_instance.

(* ---- tie C (extended): statements about the Gallina translation of the SOURCE TEXT, regenerated from
   /repo on every run (Gen/Source.v); external calls are function parameters of the generated definitions ---- *)
From CG Require Import Model.Loop Gen.Source Proofs.GenEq2.

(* RecurringPattern._get_safe_anchor, all four frequencies and both step-back loops *)
Theorem C08_source_safe_anchor_is_model : forall r sd d,
  safe_anchor r sd = Some d -> g_safe_anchor_of (S BACK_FUEL) r sd = RDone d.
Proof. exact g_recur_safe_anchor_eq. Qed.
Print Assumptions C08_source_safe_anchor_is_model.

(* a forward fetch without a finite start raises ValueError (the property speaks of finite starts) *)
Theorem C08_source_forward_unbounded_raises : forall r anchor rr b,
  g_forward_of r anchor rr None b = RRaise Loop.ValueError.
Proof. exact g_recur_fetch_forward_unbounded. Qed.
Print Assumptions C08_source_forward_unbounded_raises.

(* RecurringPattern._fetch_reverse (the chunk loop) over the generated forward fetch *)
Theorem C08_source_reverse_is_model : forall r start e l,
  fetch_reverse_opt r start e = Ok l ->
  g_recur_fetch_reverse (reverse_fuel r start e) (r_freq r) (gen_fwd r) start (Some e) = RDone l.
Proof. exact g_recur_fetch_reverse_composed_eq. Qed.
Print Assumptions C08_source_reverse_is_model.

(* ---- tie C (third extension): the public fetch() dispatcher as the code has it
   (Proofs/GenEq_rec_fetch.v) ---- *)
From CG Require Import Proofs.GenEq_rec_fetch.

(* fetch(start, end, reverse=...) is _fetch_reverse when reverse else _fetch_forward ... *)
Example C08_source_fetch_dispatch : _ := @g_recur_fetch_eq.
Print Assumptions C08_source_fetch_dispatch.

(* ... so, composed with the translated _fetch_reverse / _fetch_forward / _get_safe_anchor, it
   returns what the model's fetch_rec returns, in either direction *)
Example C08_source_fetch_is_model : _ := g_recur_fetch_composed_eq.
Print Assumptions C08_source_fetch_is_model.

(* bounds: a forward fetch without a start raises ValueError through the dispatcher too *)
Example C08_source_fetch_forward_needs_start : _ := g_recur_fetch_forward_needs_start.
Print Assumptions C08_source_fetch_forward_needs_start.
Example C08_source_fetch_nonvacuous : _ := g_recur_fetch_ex.
