(* Props/C19.v — C19: iCalendar and RRULE serialisation preserve the occurrence set.
   Statements only (Proofs/IcalP.v).  Model/Ical.v is the executable model of ical.py's writer and
   reader over an abstract VEVENT record, of rrule_kwargs_to_rrule_string, of
   RecurringPattern.__init__ and of MemoryTimeline's re-creation of stored patterns;
   [roundtrip] = timeline_to_file then file_to_timeline on one item (to_vevent, of_vevent, readd).
   Equality of the pattern records is equality of ALL rule parameters (build-recur's [rule]:
   what C07's theorems quantify over), hence of the occurrence sets for every window.
   The text layer (icalendar) and dateutil.rrulestr are outside these theorems: they are exercised
   on every run by the harness (parts text / files / load). *)
From CG Require Import Spec.IcalSpec Proofs.IcalP.

(* (b) the RRULE text emitted for a rule of the property's list, parsed back, gives the same
   parameters ... *)
Theorem rrule_text_roundtrip : forall p, supported p = true -> parse_rrule (rrule_text p) = Some p.
Proof. exact IcalP.rrule_text_roundtrip. Qed.
Print Assumptions rrule_text_roundtrip.

(* ... indeed for every rule without an ordinal 0 (incl. WKST, BYWEEKNO, ...), and not for all *)
Theorem rrule_text_roundtrip_wf : forall p, text_wf p = true -> parse_rrule (rrule_text p) = Some p.
Proof. exact IcalP.rrule_text_roundtrip_wf. Qed.
Print Assumptions rrule_text_roundtrip_wf.

Theorem rrule_text_roundtrip_refuted : exists p, parse_rrule (rrule_text p) <> Some p.
Proof. exact IcalP.rrule_text_roundtrip_refuted. Qed.
Print Assumptions rrule_text_roundtrip_refuted.

(* (a) a static event with an end, all-day only on midnights UTC, comes back identical: span,
   all-day flag, summary, description, uid, location *)
Theorem vevent_roundtrip_static_partial : forall s e m,
  static_ok s e m -> roundtrip (Static (Some s) (Some e) m) = Some (Static (Some s) (Some e) m).
Proof. exact IcalP.vevent_roundtrip_static. Qed.
Print Assumptions vevent_roundtrip_static_partial.

Theorem vevent_roundtrip_static_refuted :
  (exists s e m, s <= e /\ roundtrip (Static (Some s) (Some e) m) <> Some (Static (Some s) (Some e) m)) /\
  (exists s m, roundtrip (Static (Some s) None m) <> Some (Static (Some s) None m)).
Proof. exact IcalP.vevent_roundtrip_static_refuted. Qed.
Print Assumptions vevent_roundtrip_static_refuted.

(* (a) a timed recurring pattern comes back with every rule parameter, anchor, time of day,
   duration, zone, excluded instances and metadata equal, under [timed_ok]: a time-of-day pattern,
   or one anchored off the phase-base date whose printed wall clock denotes the anchor (anchors
   given inside a DST gap included); excluded instances not in a DST fold *)
Theorem vevent_roundtrip_recurring_partial : forall x m,
  timed_ok x m -> roundtrip (Pattern x m) = Some (Pattern x m).
Proof. exact IcalP.vevent_roundtrip_recurring. Qed.
Print Assumptions vevent_roundtrip_recurring_partial.

(* ... an all-day pattern of whole days from midnight UTC too, through a DATE start *)
Theorem vevent_roundtrip_recurring_allday : forall x m,
  allday_ok x m -> roundtrip (Pattern x m) = Some (Pattern x m).
Proof. exact IcalP.vevent_roundtrip_recurring_allday. Qed.
Print Assumptions vevent_roundtrip_recurring_allday.

(* ... and not unconditionally: all-day outside UTC, first occurrence in a DST fold, anchor on the
   phase-base date (each written and read back as a different pattern) *)
Theorem vevent_roundtrip_recurring_refuted :
  changed (Pattern (x_of (mkRule Daily 1 [] [] [] [] [] None 0 86400 z_plus1)) (m_none true)) /\
  changed (Pattern (x_of (mkRule Daily 1 [] [] [] [] [] (Some 1001800) 51400 3600 z_fold)) (m_none false)) /\
  changed (Pattern (x_of (mkRule Daily 1 [] [] [] [] [] (Some 43200) 43200 3600 utc_zone)) (m_none false)).
Proof. exact IcalP.vevent_roundtrip_recurring_refuted. Qed.
Print Assumptions vevent_roundtrip_recurring_refuted.

(* MemoryTimeline's re-creation of a stored pattern keeps every parameter *)
Theorem readd_preserves : forall x m, stored_ok (x_rule x) -> readd (Pattern x m) = Some (Pattern x m).
Proof. exact IcalP.readd_preserves. Qed.
Print Assumptions readd_preserves.

(* the hypotheses are satisfiable *)
Example C19_supported_sat : supported p_example = true.
Proof. exact supported_example. Qed.
Example C19_timed_sat : timed_ok x_example m_example.
Proof. exact timed_ok_example. Qed.
Example C19_allday_sat : allday_ok x_allday (m_none true).
Proof. exact allday_ok_example. Qed.
Example C19_static_sat : static_ok 1704067200 1704153600 (mkMeta (Some 3%N) None None None true).
Proof. exact static_ok_example. Qed.
Example C19_stored_sat : stored_ok (x_rule x_example).
Proof. exact stored_ok_example. Qed.
Example C19_gap_anchor_kept :
  let it := Pattern (x_of (mkRule Daily 1 [] [] [] [] [] (Some 1001800) 51400 3600 z_gap)) (m_none false) in
  roundtrip it = Some it.
Proof. exact gap_anchor_kept. Qed.

(* ---- tie C (third extension): the RRULE text and the constructor as the code has them.
   rrule_kwargs_to_rrule_string / to_rrule_string are translated from their source text
   (Gen/Source.v: g_rrule_text, g_to_rrule_string), strings being token lists;
   Proofs/GenEq_rec.v, GenEq_rec_init.v. ---- *)
From CG Require Import Model.RecSrc Model.Loop Gen.Source Proofs.GenEq_rec Proofs.GenEq_rec_init.

(* the text the code builds from a rule's kwargs is the model's rrule_text (weekdays 0..6) *)
Example C19_source_rrule_text_is_model : _ := g_rrule_text_eq.
Print Assumptions C19_source_rrule_text_is_model.
Example C19_source_rrule_text_is_model_kw : _ := g_rrule_text_eq_kw.
Print Assumptions C19_source_rrule_text_is_model_kw.
Example C19_source_to_rrule_string_is_model : _ := g_to_rrule_string_eq.
Print Assumptions C19_source_to_rrule_string_is_model.

(* (b) on the code's text: emitted for a rule of the property's list and parsed back, it gives
   the rule *)
Example C19_source_rrule_text_roundtrip : _ := src_rrule_text_roundtrip.
Print Assumptions C19_source_rrule_text_roundtrip.

(* outside the hypotheses, as the code has it: no freq / a weekday outside 0..6 raise ValueError;
   a list argument given as an EMPTY list (month=[]) is written as "BYMONTH=" without a value,
   which no reader accepts — an observation outside the model's rparts, where [] is the absent key *)
Example C19_source_rrule_text_no_freq : _ := g_rrule_text_no_freq.
Example C19_source_rrule_text_bad_weekday : _ := g_rrule_text_bad_weekday.
Example C19_source_rrule_text_empty_list : _ := g_rrule_text_empty_list.
Example C19_source_rrule_text_nonvacuous : _ := g_rrule_text_ex.

(* the constructor the loaded patterns go through (rp_init / rp_init_dt of the round-trip
   theorems above) is the constructor as the code has it *)
Example C19_source_init_is_rp_init : _ := @src_init_is_rp_init.
Print Assumptions C19_source_init_is_rp_init.
Example C19_source_init_is_rp_init_dt : _ := @src_init_is_rp_init_dt.
Print Assumptions C19_source_init_is_rp_init_dt.
Example C19_source_init_then_text : _ := ex_init_text.

(* ---- tie C (third extension, tag ical): the time logic of _parse_vevent as the code has it.
   _dt_to_timestamp, _phase_base and two slices of _parse_vevent (the DTSTART / DTEND / DURATION
   resolution up to the RFC 5545 3.3.6 end of a single event; the start handed to
   RecurringPattern) are translated from their source text (Gen/Source.v: g_ical_...), the
   icalendar / datetime objects being parameters instantiated with the library model of
   Model/IcalSrc.v; Proofs/GenEq_ical.v. ---- *)
From CG Require Import Model.IcalSrc Proofs.GenEq_ical.

Example C19_source_dt_to_timestamp_is_ts_of : _ := g_ical_dt_to_timestamp_eq.
Print Assumptions C19_source_dt_to_timestamp_is_ts_of.
Example C19_source_phase_base_is_model : _ := g_ical_phase_base_eq.
Print Assumptions C19_source_phase_base_is_model.
(* (start_dt, is_all_day, start_ts, end_ts, duration_seconds) of the code = the model's
   ve_dtstart, is_date, ts_of, static_end_ts, duration_of, for DTEND / DURATION present or not *)
Example C19_source_parse_times_is_model : _ := g_ical_parse_times_eq.
Print Assumptions C19_source_parse_times_is_model.
Example C19_source_parse_times_on_vevents : _ := g_ical_parse_times_vevent.
Print Assumptions C19_source_parse_times_on_vevents.
Example C19_source_parse_times_no_dtstart : _ := g_ical_parse_times_no_dtstart.
(* time-of-day start vs anchored start *)
Example C19_source_parse_start_is_model : _ := g_ical_parse_start_eq.
Print Assumptions C19_source_parse_start_is_model.
Example C19_source_of_vevent_recurring : _ := of_vevent_recurring_via_source.
Print Assumptions C19_source_of_vevent_recurring.
(* the tz and the EXDATE list handed to RecurringPattern *)
Example C19_source_parse_tz_is_model : _ := g_ical_parse_tz_zone.
Print Assumptions C19_source_parse_tz_is_model.
Example C19_source_parse_exdates_is_model : _ := g_ical_parse_exdates_eq.
Print Assumptions C19_source_parse_exdates_is_model.

(* _interval_to_vevent, the whole function (Proofs/GenEq_ical2.v): what is written for an item —
   DTSTART of a pattern (anchor wall clock / phase base), DATE values for all-day UTC patterns,
   DURATION, RRULE, EXDATEs, DTSTART / DTEND of a static event, the four optional texts — is the
   model's to_vevent; ValueError exactly where the model has None *)
From CG Require Import Proofs.GenEq_ical2.
Example C19_source_interval_to_vevent_is_model : _ := g_ical_interval_to_vevent_eq.
Print Assumptions C19_source_interval_to_vevent_is_model.
