(* Props/C20.v — C20: the Google Calendar adapter converts faithfully and reads back what it writes.
   Statements only (proofs: Proofs/GcsaP.v; model: Model/Gcsa.v over the SIMULATED backend;
   spec: Spec/GcsaSpec.v).  Gen/GuardFacts.v is regenerated from the AST of calgebra/gcsa.py on
   every run, so the discipline obligation is re-proved against what the code says now. *)
From CG Require Import Model.Gcsa Spec.GuardDiscipline Gen.GuardFacts Proofs.GcsaP.
From Coq Require Import Sorting.Sorted Sorting.Permutation.
Local Open Scope list_scope.
Local Open Scope Z_scope.

(* ---- reverse paging: each event once, newest first, however the range is paged ---- *)
Theorem C20_pager_exactly_once :
  forall (A : Type) (sA eA : A -> Z) (W start end_ : Z) (evs : list A) (fuel : nat),
    0 < W -> start < end_ ->
    StronglySorted (fun a b => sA a <= sA b) evs ->
    (forall x, In x evs -> sA x <= eA x) ->
    end_ - start <= Z.of_nat fuel * W ->
    pager sA eA fuel W evs start end_ end_ = rev (filter (overlaps sA eA start end_) evs).
Proof. exact @pager_exactly_once. Qed.
Print Assumptions C20_pager_exactly_once.

Theorem C20_pager_permutation :
  forall (A : Type) (sA eA : A -> Z) (W start end_ : Z) (evs : list A) (fuel : nat),
    0 < W -> start < end_ ->
    StronglySorted (fun a b => sA a <= sA b) evs ->
    (forall x, In x evs -> sA x <= eA x) ->
    end_ - start <= Z.of_nat fuel * W ->
    Permutation (pager sA eA fuel W evs start end_ end_) (filter (overlaps sA eA start end_) evs).
Proof. exact @pager_permutation. Qed.
Print Assumptions C20_pager_permutation.

(* ---- read conversion: spans are the instants the backend reports ----
   Hypotheses: the calendar zone has been fetched; the row agrees with the backend's truth (all-day:
   local midnights of its dates in the calendar's zone); for a timed event handed out as a zoneinfo
   or naive wall clock, instant -> wall clock (+fold) -> instant is the identity in that zone
   (zone_rt; proved for UTC below); a naive wall clock is not taken for all-day by the midnight
   heuristic (the real client only hands out aware datetimes). *)
Theorem C20_read_span_exact :
  forall (a a' : astate) (w : row) (ev : aev),
    a_tz a = Some (Some (bs_zone (a_b a))) ->
    row_wf (a_b a) w ->
    (s_allday (w_ev w) = false -> pres_ok (a_b a) (w_ev w)) ->
    (s_allday (w_ev w) = false -> s_pres (w_ev w) = KNaive -> is_all_day_event (present (a_b a) w) = false) ->
    convert a (present (a_b a) w) = (a', Some (Some ev)) ->
    e_s ev = w_s w /\ Some (e_e ev) = w_e w /\ Some (e_id ev) = w_id w /\ Some (e_sum ev) = s_sum (w_ev w) /\
    e_rid ev = w_rid w /\ e_desc ev = s_desc (w_ev w) /\
    (s_allday (w_ev w) = true -> e_allday ev = true).
Proof. exact read_span_exact. Qed.
Print Assumptions C20_read_span_exact.

(* in particular an all-day row reads back from local midnight to local midnight of the calendar's zone *)
Theorem C20_read_all_day_midnights :
  forall (a a' : astate) (w : row) (ev : aev) (d1 : Z),
    a_tz a = Some (Some (bs_zone (a_b a))) -> row_wf (a_b a) w ->
    s_allday (w_ev w) = true -> w_k1 w = Some d1 ->
    convert a (present (a_b a) w) = (a', Some (Some ev)) ->
    e_s ev = wall_to_utc (bs_zone (a_b a)) (w_k0 w * DAY) false /\
    e_e ev = wall_to_utc (bs_zone (a_b a)) (d1 * DAY) false.
Proof. exact read_all_day_midnights. Qed.
Print Assumptions C20_read_all_day_midnights.

(* ---- add, then read: same span ----
   Hypotheses: zone fetched; for an event written as all-day (declared or inferred) start and end are
   local midnights of the calendar's zone that are not the repeated half of an ambiguous wall time. *)
Theorem C20_add_then_read :
  forall (a a1 : astate) (w : wev) (id : N) (ad : bool) (s e : Z),
    a_tz a = Some (Some (bs_zone (a_b a))) ->
    add_interval a w = (a1, [(true, Some (EId id, s, e, ad))]) ->
    (ad = true ->
     let z := bs_zone (a_b a) in
     utc_to_wall z (v_s w) mod DAY = 0 /\ utc_to_wall z (v_e w) mod DAY = 0 /\
     unfolded z (v_s w) /\ unfolded z (v_e w)) ->
    s = v_s w /\ e = v_e w /\
    exists st r,
      In st (bs_store (a_b a1)) /\ rows_of_ev (a_b a1) None None st = [r] /\
      w_id r = Some (EId id) /\ w_s r = v_s w /\ w_e r = Some (v_e w) /\
      forall a2 ev, convert a1 (present (a_b a1) r) = (a2, Some (Some ev)) ->
                    e_s ev = v_s w /\ e_e ev = v_e w /\ e_id ev = EId id.
Proof. exact add_then_read. Qed.
Print Assumptions C20_add_then_read.

(* ---- fault containment ---- *)
(* (1) the discipline holds of the CURRENT source of calgebra/gcsa.py *)
Theorem C20_guard_discipline_holds : guard_discipline facts = true.
Proof. vm_compute. reflexivity. Qed.
Print Assumptions C20_guard_discipline_holds.

(* (2) under the discipline no write hook lets a backend failure escape, for every schedule *)
Theorem C20_fault_containment :
  forall g : gfacts, guard_discipline g = true ->
  forall (sch : schedule) (m : gmethod), In m (gf_methods g) -> gm_entry m = true ->
    escapes (S (length (gf_methods g))) (gf_decorator_catches g) (gf_methods g) sch (gm_name m) = false.
Proof. exact fault_containment. Qed.
Print Assumptions C20_fault_containment.

(* (3) the executable model of the write path: in every adapter state (hence for every failure
   schedule of the simulated backend) a write yields WriteResults, one per event, never an exception *)
Theorem C20_model_writes_never_raise :
  forall (a : astate) (outs : list out) (o : op), is_write o = true ->
    match snd (step a outs o) with
    | OWrite (Some rs) => length rs = expected_results o
    | OSkip => True
    | _ => False
    end.
Proof. exact model_writes_never_raise. Qed.
Print Assumptions C20_model_writes_never_raise.

(* ---- satisfiability of the hypotheses ---- *)
(* three events, one across the page edge at 30, one empty exactly on it: page size 30 over [0, 70) *)
Example C20_pager_example :
  let evs := [(5, 8); (29, 31); (30, 30); (40, 41)] in
  StronglySorted (fun a b => fst a <= fst b) evs /\ (forall x, In x evs -> fst x <= snd x) /\
  pager fst snd 3 30 evs 0 70 70 = [(40, 41); (30, 30); (29, 31); (5, 8)].
Proof.
  split; [|split].
  - repeat constructor; simpl; discriminate.
  - simpl. intros x H. repeat destruct H as [<-|H]; simpl; try discriminate; contradiction.
  - vm_compute. reflexivity.
Qed.
(* the zone hypothesis is satisfiable *)
Example C20_zone_rt_utc : zone_rt utc_zone.
Proof. exact utc_zone_rt. Qed.
(* a facts table violating the discipline is rejected: an undecorated hook with a bare backend call *)
Example C20_discipline_rejects :
  guard_discipline (mkGF true [mkGM "_add_many" true false [mkBC "calendar.service.events" false] []]) = false.
Proof. vm_compute. reflexivity. Qed.
