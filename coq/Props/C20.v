(* Props/C20.v — C20: the Google Calendar adapter converts faithfully and reads back what it writes.
   Statements only (proofs: Proofs/GcsaP.v; model: Model/Gcsa.v over the SIMULATED backend;
   spec: Spec/GcsaSpec.v).  Gen/GuardFacts.v is regenerated from the AST of calgebra/gcsa.py on
   every run, so the discipline obligation is re-proved against what the code says now. *)
From CG Require Import Model.Gcsa Spec.GuardDiscipline Gen.GuardFacts Proofs.GcsaP.
From Coq Require Import Sorting.Sorted Sorting.Permutation.
Local Open Scope list_scope.
Local Open Scope Z_scope.

(* ---- reverse paging: each event once, newest first, however the range is paged ---- *)
Theorem C20_pager_exactly_once :
  forall (A : Type) (sA eA : A -> Z) (W start end_ : Z) (evs : list A) (fuel : nat),
    0 < W -> start < end_ ->
    StronglySorted (fun a b => sA a <= sA b) evs ->
    (forall x, In x evs -> sA x <= eA x) ->
    end_ - start <= Z.of_nat fuel * W ->
    pager sA eA fuel W evs start end_ end_ = rev (filter (overlaps sA eA start end_) evs).
Proof. exact @pager_exactly_once. Qed.
Print Assumptions C20_pager_exactly_once.

Theorem C20_pager_permutation :
  forall (A : Type) (sA eA : A -> Z) (W start end_ : Z) (evs : list A) (fuel : nat),
    0 < W -> start < end_ ->
    StronglySorted (fun a b => sA a <= sA b) evs ->
    (forall x, In x evs -> sA x <= eA x) ->
    end_ - start <= Z.of_nat fuel * W ->
    Permutation (pager sA eA fuel W evs start end_ end_) (filter (overlaps sA eA start end_) evs).
Proof. exact @pager_permutation. Qed.
Print Assumptions C20_pager_permutation.

(* ---- fault containment ---- *)
(* (1) the discipline holds of the CURRENT source of calgebra/gcsa.py *)
Theorem C20_guard_discipline_holds : guard_discipline facts = true.
Proof. vm_compute. reflexivity. Qed.
Print Assumptions C20_guard_discipline_holds.

(* (2) under the discipline no write hook lets a backend failure escape, for every schedule *)
Theorem C20_fault_containment :
  forall g : gfacts, guard_discipline g = true ->
  forall (sch : schedule) (m : gmethod), In m (gf_methods g) -> gm_entry m = true ->
    escapes (S (length (gf_methods g))) (gf_decorator_catches g) (gf_methods g) sch (gm_name m) = false.
Proof. exact fault_containment. Qed.
Print Assumptions C20_fault_containment.

(* (3) the executable model of the write path: in every adapter state (hence for every failure
   schedule of the simulated backend) a write yields WriteResults, one per event, never an exception *)
Theorem C20_model_writes_never_raise :
  forall (a : astate) (outs : list out) (o : op), is_write o = true ->
    match snd (step a outs o) with
    | OWrite (Some rs) => length rs = expected_results o
    | OSkip => True
    | _ => False
    end.
Proof. exact model_writes_never_raise. Qed.
Print Assumptions C20_model_writes_never_raise.

(* ---- satisfiability of the hypotheses ---- *)
(* three events, one across the page edge at 30, one empty exactly on it: page size 30 over [0, 70) *)
Example C20_pager_example :
  let evs := [(5, 8); (29, 31); (30, 30); (40, 41)] in
  StronglySorted (fun a b => fst a <= fst b) evs /\ (forall x, In x evs -> fst x <= snd x) /\
  pager fst snd 3 30 evs 0 70 70 = [(40, 41); (30, 30); (29, 31); (5, 8)].
Proof.
  split; [|split].
  - repeat constructor; simpl; discriminate.
  - simpl. intros x H. repeat destruct H as [<-|H]; simpl; try discriminate; contradiction.
  - vm_compute. reflexivity.
Qed.
(* a facts table violating the discipline is rejected: an undecorated hook with a bare backend call *)
Example C20_discipline_rejects :
  guard_discipline (mkGF true [mkGM "_add_many" true false [mkBC "calendar.service.events" false] []]) = false.
Proof. vm_compute. reflexivity. Qed.
