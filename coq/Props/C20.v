(* Props/C20.v — C20: the Google Calendar adapter converts faithfully and reads back what it writes.
   Statements only (proofs: Proofs/GcsaP.v; model: Model/Gcsa.v over the SIMULATED backend;
   spec: Spec/GcsaSpec.v).  Gen/GuardFacts.v is regenerated from the AST of calgebra/gcsa.py on
   every run, so the discipline obligation is re-proved against what the code says now. *)
From CG Require Import Model.Gcsa Spec.GuardDiscipline Gen.GuardFacts Proofs.GcsaP.
From Coq Require Import Sorting.Sorted Sorting.Permutation.
Local Open Scope list_scope.
Local Open Scope Z_scope.

(* ---- reverse paging: each event once, newest first, however the range is paged ---- *)
Theorem C20_pager_exactly_once :
  forall (A : Type) (sA eA : A -> Z) (W start end_ : Z) (evs : list A) (fuel : nat),
    0 < W -> start < end_ ->
    StronglySorted (fun a b => sA a <= sA b) evs ->
    (forall x, In x evs -> sA x <= eA x) ->
    end_ - start <= Z.of_nat fuel * W ->
    pager sA eA fuel W evs start end_ end_ = rev (filter (overlaps sA eA start end_) evs).
Proof. exact @pager_exactly_once. Qed.
Print Assumptions C20_pager_exactly_once.

Theorem C20_pager_permutation :
  forall (A : Type) (sA eA : A -> Z) (W start end_ : Z) (evs : list A) (fuel : nat),
    0 < W -> start < end_ ->
    StronglySorted (fun a b => sA a <= sA b) evs ->
    (forall x, In x evs -> sA x <= eA x) ->
    end_ - start <= Z.of_nat fuel * W ->
    Permutation (pager sA eA fuel W evs start end_ end_) (filter (overlaps sA eA start end_) evs).
Proof. exact @pager_permutation. Qed.
Print Assumptions C20_pager_permutation.

(* ---- read conversion: spans are the instants the backend reports ----
   Hypotheses: the calendar zone has been fetched; the row agrees with the backend's truth (all-day:
   local midnights of its dates in the calendar's zone); for a timed event handed out as a zoneinfo
   or naive wall clock, instant -> wall clock (+fold) -> instant is the identity in that zone
   (zone_rt; proved for UTC below); a naive wall clock is not taken for all-day by the midnight
   heuristic (the real client only hands out aware datetimes). *)
Theorem C20_read_span_exact :
  forall (a a' : astate) (w : row) (ev : aev),
    a_tz a = Some (Some (bs_zone (a_b a))) ->
    row_wf (a_b a) w ->
    (s_allday (w_ev w) = false -> pres_ok (a_b a) (w_ev w)) ->
    (s_allday (w_ev w) = false -> s_pres (w_ev w) = KNaive -> is_all_day_event (present (a_b a) w) = false) ->
    convert a (present (a_b a) w) = (a', Some (Some ev)) ->
    e_s ev = w_s w /\ Some (e_e ev) = w_e w /\ Some (e_id ev) = w_id w /\ Some (e_sum ev) = s_sum (w_ev w) /\
    e_rid ev = w_rid w /\ e_desc ev = s_desc (w_ev w) /\
    (s_allday (w_ev w) = true -> e_allday ev = true).
Proof. exact read_span_exact. Qed.
Print Assumptions C20_read_span_exact.

(* in particular an all-day row reads back from local midnight to local midnight of the calendar's zone *)
Theorem C20_read_all_day_midnights :
  forall (a a' : astate) (w : row) (ev : aev) (d1 : Z),
    a_tz a = Some (Some (bs_zone (a_b a))) -> row_wf (a_b a) w ->
    s_allday (w_ev w) = true -> w_k1 w = Some d1 ->
    convert a (present (a_b a) w) = (a', Some (Some ev)) ->
    e_s ev = wall_to_utc (bs_zone (a_b a)) (w_k0 w * DAY) false /\
    e_e ev = wall_to_utc (bs_zone (a_b a)) (d1 * DAY) false.
Proof. exact read_all_day_midnights. Qed.
Print Assumptions C20_read_all_day_midnights.

(* ---- add, then read: same span ----
   Hypotheses: zone fetched; for an event written as all-day (declared or inferred) start and end are
   local midnights of the calendar's zone that are not the repeated half of an ambiguous wall time. *)
Theorem C20_add_then_read :
  forall (a a1 : astate) (w : wev) (id : N) (ad : bool) (s e : Z),
    a_tz a = Some (Some (bs_zone (a_b a))) ->
    add_interval a w = (a1, [(true, Some (EId id, s, e, ad))]) ->
    (ad = true ->
     let z := bs_zone (a_b a) in
     utc_to_wall z (v_s w) mod DAY = 0 /\ utc_to_wall z (v_e w) mod DAY = 0 /\
     unfolded z (v_s w) /\ unfolded z (v_e w)) ->
    s = v_s w /\ e = v_e w /\
    exists st r,
      In st (bs_store (a_b a1)) /\ rows_of_ev (a_b a1) None None st = [r] /\
      w_id r = Some (EId id) /\ w_s r = v_s w /\ w_e r = Some (v_e w) /\
      forall a2 ev, convert a1 (present (a_b a1) r) = (a2, Some (Some ev)) ->
                    e_s ev = v_s w /\ e_e ev = v_e w /\ e_id ev = EId id.
Proof. exact add_then_read. Qed.
Print Assumptions C20_add_then_read.

(* ---- fault containment ---- *)
(* (1) the discipline holds of the CURRENT source of calgebra/gcsa.py *)
Theorem C20_guard_discipline_holds : guard_discipline facts = true.
Proof. vm_compute. reflexivity. Qed.
Print Assumptions C20_guard_discipline_holds.

(* (2) under the discipline no write hook lets a backend failure escape, for every schedule *)
Theorem C20_fault_containment :
  forall g : gfacts, guard_discipline g = true ->
  forall (sch : schedule) (m : gmethod), In m (gf_methods g) -> gm_entry m = true ->
    escapes (S (length (gf_methods g))) (gf_decorator_catches g) (gf_methods g) sch (gm_name m) = false.
Proof. exact fault_containment. Qed.
Print Assumptions C20_fault_containment.

(* (3) the executable model of the write path: in every adapter state (hence for every failure
   schedule of the simulated backend) a write yields WriteResults, one per event, never an exception *)
Theorem C20_model_writes_never_raise :
  forall (a : astate) (outs : list out) (o : op), is_write o = true ->
    match snd (step a outs o) with
    | OWrite (Some rs) => length rs = expected_results o
    | OSkip => True
    | _ => False
    end.
Proof. exact model_writes_never_raise. Qed.
Print Assumptions C20_model_writes_never_raise.

(* ---- removing one instance of a series removes exactly that occurrence ----
   The series may have been written by another client: daily or weekly, unbounded or bounded by UNTIL
   (inclusive, as an instant or a date) or COUNT, the bound anywhere in the line.  Hypotheses: the
   RRULE line carries at most one EXDATE part (the adapter itself never writes a second one; with two,
   the exclusions of the second are lost by the rewrite: GcsaP.two_exdate_parts_refuted) and does not
   begin with it. *)
(* (1) the rewritten line: the other parts (UNTIL, COUNT, ...) are kept in order, and the series it
   stands for is the old one minus the occurrence starting at the excluded instant, in every window *)
Theorem C20_instance_removal_exact :
  forall (b : bstate) (st : sev) (r : srec) (x : exd) (lo hi : option Z),
    single_ex (r_line r) = true -> is_ex (hd TRule (r_line r)) = false ->
    rule_toks (add_exdate (r_line r) x) = rule_toks (r_line r) /\
    instances b st (with_line r (add_exdate (r_line r) x)) lo hi =
    filter (fun w => negb (w_s w =? parse_exd x)) (instances b st r lo hi).
Proof.
  intros. split; [apply add_exdate_rule_toks | apply instance_removal_exact; assumption].
Qed.
Print Assumptions C20_instance_removal_exact.

(* (2) Calendar.remove(instance) reporting success, against the simulated backend: afterwards the
   master's series is the old one minus exactly the occurrence that starts where the instance starts
   (also the last occurrence of a series whose UNTIL is that very instant, and also when the
   occurrence was excluded already and nothing is written) *)
Theorem C20_remove_instance_exact :
  forall (a a' : astate) (ev : aev) (m : N) (st : sev) (r : srec),
    find_ev m (bs_store (a_b a)) = Some st -> s_rec st = Some r ->
    single_ex (r_line r) = true -> is_ex (hd TRule (r_line r)) = false ->
    remove_instance a ev m = (a', [(true, None)]) ->
    exists st' r',
      find_ev m (bs_store (a_b a')) = Some st' /\ s_rec st' = Some r' /\
      rule_toks (r_line r') = rule_toks (r_line r) /\
      forall lo hi, map row_obs (instances (a_b a') st' r' lo hi) =
                    map row_obs (filter (fun w => negb (w_s w =? e_s ev)) (instances (a_b a) st r lo hi)).
Proof. exact remove_instance_exact. Qed.
Print Assumptions C20_remove_instance_exact.

(* ---- satisfiability of the hypotheses ---- *)
(* a weekly series ending with UNTIL = the start of its fourth occurrence: that occurrence is removed *)
Example C20_until_last_occurrence_removed :
  let mon := 1736157600 in
  let r := mkR true 1 [] [TRule; TUntil (2025, 1, 27, 10, 0, 0)] [] in
  let st := mkSev (Some 1%N) (Some 1%N) None (Some utc_zone) [] false false mon (Some (mon + HOUR)) KZone (Some r) in
  let a := init utc_zone [st] 2%N [] in
  let last := mon + 21 * DAY in
  let ev := mkE (EInst 1%N last) 1%N None (Some 1%N) false None last (last + HOUR) in
  let res := remove_instance a ev 1%N in
  map w_s (rows_of (a_b a) None (Some (mon + 60 * DAY))) = [mon; mon + 7 * DAY; mon + 14 * DAY; last] /\
  snd res = [(true, None)] /\ bs_calls (a_b (fst res)) = 2%nat /\
  map w_s (rows_of (a_b (fst res)) None (Some (mon + 60 * DAY))) = [mon; mon + 7 * DAY; mon + 14 * DAY] /\
  single_ex (r_line r) = true /\ is_ex (hd TRule (r_line r)) = false.
Proof. exact until_last_occurrence_removed. Qed.
(* three events, one across the page edge at 30, one empty exactly on it: page size 30 over [0, 70) *)
Example C20_pager_example :
  let evs := [(5, 8); (29, 31); (30, 30); (40, 41)] in
  StronglySorted (fun a b => fst a <= fst b) evs /\ (forall x, In x evs -> fst x <= snd x) /\
  pager fst snd 3 30 evs 0 70 70 = [(40, 41); (30, 30); (29, 31); (5, 8)].
Proof.
  split; [|split].
  - repeat constructor; simpl; discriminate.
  - simpl. intros x H. repeat destruct H as [<-|H]; simpl; try discriminate; contradiction.
  - vm_compute. reflexivity.
Qed.
(* the zone hypothesis is satisfiable *)
Example C20_zone_rt_utc : zone_rt utc_zone.
Proof. exact utc_zone_rt. Qed.
(* a facts table violating the discipline is rejected: an undecorated hook with a bare backend call *)
Example C20_discipline_rejects :
  guard_discipline (mkGF true [mkGM "_add_many" true false [mkBC "calendar.service.events" false] []]) = false.
Proof. vm_compute. reflexivity. Qed.

(* ========================================================================================== *)
(* Tie C: the same facts stated of the definitions GENERATED from the source text of calgebra/gcsa.py
   (Gen/Source.v, rewritten on every run; equivalences: Proofs/GenEq_gcsa*.v).  A behavioural change
   of one of these functions changes the generated term and breaks the proof quoted here. *)
From CG Require Import Model.Loop Gen.Source.
From CG Require Proofs.GenEq_gcsa Proofs.GenEq_gcsa2 Proofs.GenEq_gcsa3 Proofs.GenEq_gcsa4 Proofs.GenEq_gcsa5 Proofs.GenEq_gcsa6.
Import GenEq_gcsa GenEq_gcsa2 GenEq_gcsa3 GenEq_gcsa4 GenEq_gcsa5 GenEq_gcsa6.

(* _infer_is_all_day, in the zone model *)
Example C20_source_infer_is_all_day : forall s e tz, src_infer_is_all_day s e tz = infer_all_day s e tz
  := g_gcsa_infer_is_all_day_eq.
Print Assumptions C20_source_infer_is_all_day.

(* Calendar._fetch_reverse: each event of the range exactly once, newest first, however it is paged *)
Example C20_source_reverse_exactly_once :
  forall (A : Type) (sA eA : A -> Z) (evs : list A) (fuel : nat) (lo : option Z) (hi : Z),
    let start := match lo with Some s => s | None => hi - 365 * DAY end in
    start < hi ->
    StronglySorted (fun a b => sA a <= sA b) evs ->
    (forall x, In x evs -> sA x <= eA x) ->
    hi - start <= Z.of_nat fuel * WINDOW ->
    g_gcsa_fetch_reverse fuel (fun a b => filter (overlaps sA eA (ozd a) (ozd b)) evs) sA lo (Some hi)
    = RDone (rev (filter (overlaps sA eA start hi) evs))
  := @src_fetch_reverse_exactly_once.
Print Assumptions C20_source_reverse_exactly_once.

Example C20_source_reverse_is_pager :
  forall (A : Type) (sA eA : A -> Z) (evs : list A) (fuel : nat) (lo : option Z) (hi : Z),
    let start := match lo with Some s => s | None => hi - 365 * DAY end in
    hi - start <= Z.of_nat fuel * WINDOW ->
    g_gcsa_fetch_reverse fuel (fun a b => filter (overlaps sA eA (ozd a) (ozd b)) evs) sA lo (Some hi)
    = RDone (pager sA eA fuel WINDOW evs start hi hi)
  := @g_gcsa_fetch_reverse_eq.
Print Assumptions C20_source_reverse_is_pager.

(* _to_timestamp / _normalize_datetime and _is_all_day_event *)
Example C20_source_to_timestamp :
  (forall p zf, src_to_timestamp (DDt p) zf = pres_ts p (tz_or_utc zf)) /\
  (forall d zf, src_to_timestamp (DDate d) zf = date_ts (tz_or_utc zf) d)
  := conj g_gcsa_to_timestamp_datetime g_gcsa_to_timestamp_date.
Print Assumptions C20_source_to_timestamp.

Example C20_source_is_all_day_event : forall e, src_is_all_day_event e = is_all_day_event e
  := g_gcsa_is_all_day_event_eq.
Print Assumptions C20_source_is_all_day_event.

(* Calendar._fetch_forward: with the calendar zone fetched, the model's forward fetch IS the generated
   loop over what the backend hands out — so C20_read_span_exact speaks about the source text *)
Example C20_source_fetch_forward :
  forall (a : astate) (ctz : option zone) (lo hi : option Z),
    a_tz a = Some ctz ->
    let b' := fst (tick (a_b a)) in
    fetch_forward a lo hi =
    (mkA b' (a_tz a), if snd (tick (a_b a)) then Some (src_fetch_forward b' ctz lo hi) else None)
  := g_gcsa_fetch_forward_eq.
Print Assumptions C20_source_fetch_forward.

(* the read path restated on the generated loop: a row of the backend that the generated
   _fetch_forward converts comes back with the instants the backend holds *)
Theorem C20_source_read_span_exact :
  forall (b : bstate) (w : row) (ev : aev),
    let ctz := Some (bs_zone b) in
    row_wf b w ->
    (s_allday (w_ev w) = false -> pres_ok b (w_ev w)) ->
    (s_allday (w_ev w) = false -> s_pres (w_ev w) = KNaive -> src_is_all_day_event (present b w) = false) ->
    conv1 ctz (present b w) = Some ev ->
    e_s ev = w_s w /\ Some (e_e ev) = w_e w /\ Some (e_id ev) = w_id w.
Proof.
  intros b w ev ctz Hwf Hok Hn Hc.
  pose (a := mkA b (Some ctz)).
  assert (Hconv : convert a (present (a_b a) w) = (a, Some (Some ev))).
  { rewrite (convert_fetched a ctz _ eq_refl). cbn [a_b a]. rewrite Hc. reflexivity. }
  destruct (read_span_exact a a w ev eq_refl Hwf Hok) as (H1 & H2 & H3 & _).
  - intros H4 H5. rewrite <- g_gcsa_is_all_day_event_eq. exact (Hn H4 H5).
  - exact Hconv.
  - auto.
Qed.
Print Assumptions C20_source_read_span_exact.

(* the reverse read as a whole: Calendar._fetch_reverse over Calendar._fetch_forward *)
Example C20_source_fetch_reverse_is_model :
  forall (z : zone) (st : list sev) (ctz : option zone) (a : astate) (lo : option Z) (hi : Z),
    quiet z st ctz a ->
    let start := match lo with Some s => s | None => hi - 365 * DAY end in
    match g_gcsa_fetch_reverse (Z.to_nat ((hi - start) / WINDOW + 2))
            (src_fetch_forward (mkBS z st 0 0 []) ctz) e_s lo (Some hi) with
    | RDone l => snd (fetch_reverse a lo (Some hi)) = Some l
    | _ => False
    end
  := src_fetch_reverse_is_model.
Print Assumptions C20_source_fetch_reverse_is_model.

(* EXDATE strings and lines *)
Example C20_source_format_exdate : forall t, src_format_exdate t = format_exdate t /\ parse_exd (src_format_exdate t) = t
  := fun t => conj (g_gcsa_format_exdate_eq t) (src_format_exdate_parses t).
Print Assumptions C20_source_format_exdate.

Example C20_source_add_exdate : forall l x, src_add_exdate l x = add_exdate l x := g_gcsa_add_exdate_to_rrule_eq.
Print Assumptions C20_source_add_exdate.

(* instance removal stated of the source text: the line _add_exdate_to_rrule writes keeps the other
   parts and stands for the old series minus exactly the excluded occurrence *)
Theorem C20_source_instance_removal_exact :
  forall (b : bstate) (st : sev) (r : srec) (t : Z) (lo hi : option Z),
    single_ex (r_line r) = true -> is_ex (hd TRule (r_line r)) = false ->
    let l' := src_add_exdate (r_line r) (src_format_exdate t) in
    rule_toks l' = rule_toks (r_line r) /\
    instances b st (with_line r l') lo hi = filter (fun w => negb (w_s w =? t)) (instances b st r lo hi).
Proof.
  intros b st r t lo hi H1 H2 l'. subst l'.
  rewrite g_gcsa_format_exdate_eq, g_gcsa_add_exdate_to_rrule_eq.
  destruct (C20_instance_removal_exact b st r (format_exdate t) lo hi H1 H2) as [Ha Hb].
  split; [exact Ha|]. rewrite Hb. rewrite parse_format_exdate. reflexivity.
Qed.
Print Assumptions C20_source_instance_removal_exact.

(* Calendar._remove_recurring_instance over the simulated backend *)
Example C20_source_remove_instance_is_model :
  forall (a : astate) (ev : aev) (m : N),
    let b1 := fst (tick (a_b a)) in
    let ok1 := snd (tick (a_b a)) in
    let ok2 := snd (tick b1) in
    src_remove_instance
      (fun id => if ok1 then match find_ev id (bs_store b1) with Some st => inl st | None => inr tt end else inr tt)
      (fun _ => if ok2 then inl tt else inr tt) ev m
    = RDone (snd (remove_instance a ev m))
  := src_remove_instance_is_model.
Print Assumptions C20_source_remove_instance_is_model.

(* the write path of one event: what is sent to the backend is the model's request, and
   Calendar._add_interval is prepare / build / one call / result *)
Example C20_source_prepare : forall ctz w, src_build_gcsa_event (src_prepare ctz w) = prepare ctz w
  := g_gcsa_prepare_build_eq.
Print Assumptions C20_source_prepare.

Example C20_source_add_interval :
  forall (a : astate) (ctz : option zone) (w : wev),
    a_tz a = Some ctz ->
    add_interval a w =
    let p := src_prepare ctz w in
    let '(b2, ok) := tick (a_b a) in
    if ok then
      match b_store b2 (src_build_gcsa_event p) with
      | (b3, Some id) => (with_b a b3, [src_build_result_event p id])
      | (_, None) => (with_b a b2, [failed])
      end
    else (with_b a b2, [failed])
  := src_add_interval_is_model.
Print Assumptions C20_source_add_interval.

(* add, then read — on the generated definitions at both ends: the event Calendar.add() reports comes
   back from the generated _fetch_forward conversion with the same span *)
Theorem C20_source_add_then_read :
  forall (a a1 : astate) (w : wev) (id : N) (ad : bool) (s e : Z),
    a_tz a = Some (Some (bs_zone (a_b a))) ->
    add_interval a w = (a1, [(true, Some (EId id, s, e, ad))]) ->
    (ad = true ->
     let z := bs_zone (a_b a) in
     utc_to_wall z (v_s w) mod DAY = 0 /\ utc_to_wall z (v_e w) mod DAY = 0 /\
     unfolded z (v_s w) /\ unfolded z (v_e w)) ->
    ad = q_allday (src_build_gcsa_event (src_prepare (Some (bs_zone (a_b a))) w)) /\
    s = v_s w /\ e = v_e w /\
    exists st r,
      In st (bs_store (a_b a1)) /\ rows_of_ev (a_b a1) None None st = [r] /\
      forall ev, conv1 (Some (bs_zone (a_b a1))) (present (a_b a1) r) = Some ev ->
                 e_s ev = v_s w /\ e_e ev = v_e w /\ e_id ev = EId id.
Proof.
  intros a a1 w id ad s e Htz Hadd Hmid.
  assert (Had : ad = q_allday (src_build_gcsa_event (src_prepare (Some (bs_zone (a_b a))) w))).
  { rewrite (src_add_interval_is_model a _ w Htz) in Hadd. cbv zeta in Hadd.
    destruct (tick (a_b a)) as [b2 ok]. destruct ok; [|discriminate].
    destruct (b_store b2 _) as [b3 [id'|]]; [|discriminate].
    rewrite g_gcsa_build_result_event_eq in Hadd. rewrite g_gcsa_prepare_build_eq.
    injection Hadd as _ _ _ _ Hq. symmetry. exact Hq. }
  split; [exact Had|].
  destruct (add_then_read a a1 w id ad s e Htz Hadd Hmid) as (Hs & He & st & r & Hin & Hrows & _ & _ & _ & Hread).
  split; [exact Hs|]. split; [exact He|].
  exists st, r. split; [exact Hin|]. split; [exact Hrows|].
  intros ev Hc.
  assert (Htz1 : a_tz a1 = Some (Some (bs_zone (a_b a1)))).
  { unfold add_interval, cal_tz in Hadd. rewrite Htz in Hadd. cbv zeta in Hadd.
    destruct (tick (a_b a)) as [b2 ok] eqn:Et. destruct ok; [|discriminate].
    pose proof (tick_keeps (a_b a)) as [Hz _]. rewrite Et in Hz. cbn [fst] in Hz.
    unfold b_store in Hadd.
    destruct (if q_allday _ then _ else _); [discriminate|].
    injection Hadd as <- _. cbn [with_b a_tz a_b bs_zone]. rewrite Htz, Hz. reflexivity. }
  apply (Hread a1 ev). rewrite (convert_fetched a1 _ _ Htz1). rewrite Hc. reflexivity.
Qed.
Print Assumptions C20_source_add_then_read.

(* Calendar._add_recurring *)
Example C20_source_add_recurring :
  forall (dv_now : zone -> dv) (dv_midnight : dv -> dv) (a : astate) (ctz : option zone) (p : wpat),
    a_tz a = Some ctz -> zone_rt (p_zone p) ->
    let b2 := fst (tick (a_b a)) in
    snd (tick (a_b a)) = true ->
    add_recurring a p =
    (match b_store b2 (rec_request ctz p) with (b3, Some _) => with_b a b3 | (_, None) => with_b a b2 end,
     src_add_recurring dv_now dv_midnight (fun q => snd (b_store b2 q)) ctz p)
  := src_add_recurring_is_model.
Print Assumptions C20_source_add_recurring.

(* the wrapper of @_handle_write_errors never lets an Exception of the wrapped method escape *)
Example C20_source_handle_write_errors :
  forall (EXC WRS : Type) (wrs_error : EXC -> WRS) (r : WRS + EXC),
    g_gcsa_handle_write_errors wrs_error r = RDone (match r with inl v => v | inr e => wrs_error e end)
  := @g_gcsa_handle_write_errors_eq.
Print Assumptions C20_source_handle_write_errors.

(* Calendar.fetch over the generated forward and reverse fetches *)
Example C20_source_fetch :
  forall (z : zone) (st : list sev) (ctz : option zone) (a : astate) (lo : option Z) (h : Z) (rv : bool),
    quiet z st ctz a ->
    let ffw := src_fetch_forward (mkBS z st 0 0 []) ctz in
    snd (fetch a lo (Some h) rv) = Some (g_gcsa_fetch ffw (src_reverse_list ffw) lo (Some h) rv)
  := src_fetch_is_model.
Print Assumptions C20_source_fetch.

(* Calendar._add_interval as a whole (its own text, over the generated helpers) *)
Example C20_source_add_interval_full :
  forall (a : astate) (ctz : option zone) (w : wev),
    a_tz a = Some ctz -> snd (tick (a_b a)) = true ->
    snd (add_interval a w) = src_add_interval (fun q => snd (b_store (fst (tick (a_b a))) q)) ctz w
  := src_add_interval_full_is_model.
Print Assumptions C20_source_add_interval_full.

(* Calendar._add_many: one failed result per event when the batch raises; and the final statement of
   _add_many_batch returns the results in the order of the input events *)
Example C20_source_add_many :
  forall (a : astate) (l : list wev),
    g_gcsa_add_many (model_batch a) (fun _ => failed) l tt = RDone (snd (add_many a l))
  := src_add_many_is_model.
Print Assumptions C20_source_add_many.

Example C20_source_add_many_batch_order :
  forall (I WR : Type) (missing : WR) (results : list WR) (events : list I),
    length results = length events ->
    g_gcsa_add_many_batch_results (fun d i => nth (Z.to_nat i) d missing) results events = results
  := @g_gcsa_add_many_batch_results_eq.
Print Assumptions C20_source_add_many_batch_order.

(* ---- recurring patterns through the adapter (Proofs/GcsaRec.v): a daily or weekly pattern written by
   add_recurring reads back from the backend's expansion with the pattern's own occurrences — every interval,
   BYDAY list, exdates, window; timed and all-day.  The hypotheses say that the wall-clock readings involved do
   not fall into a DST gap of the pattern's zone; the three refuted statements show that they cannot be
   dropped under the simulated backend (which repeats the master's WALL-CLOCK span, as Google documents for
   recurring events). ---- *)
From CG Require Import Proofs.GcsaRec.
Example C20_add_recurring_reads_back_timed : _ := add_recurring_reads_back_timed.
Check add_recurring_reads_back_timed.
Print Assumptions C20_add_recurring_reads_back_timed.
Example C20_add_recurring_reads_back_allday : _ := add_recurring_reads_back_allday.
Check add_recurring_reads_back_allday.
Print Assumptions C20_add_recurring_reads_back_allday.
Example C20_add_recurring_rows_convert : _ := add_recurring_rows_convert.
Print Assumptions C20_add_recurring_rows_convert.
Example C20_add_recurring_rows_ascending : _ := add_recurring_rows_ascending.
Print Assumptions C20_add_recurring_rows_ascending.
Example C20_reads_back_timed_gap_end_refuted : _ := reads_back_timed_gap_end_refuted.
Print Assumptions C20_reads_back_timed_gap_end_refuted.
Example C20_reads_back_timed_gap_start_refuted : _ := reads_back_timed_gap_start_refuted.
Example C20_reads_back_allday_gap_midnight_refuted : _ := reads_back_allday_gap_midnight_refuted.
Example C20_add_recurring_nonvacuous : _ := timed_daily_full_table.
