"""C13 (metrics are exact and add up across calendar periods): total_duration, count_intervals,
coverage_ratio, max_duration, min_duration of calgebra/metrics.py run on stored timelines, ranges
and zones drawn from the seeded PRNG, compared with Model/Metrics.v (correspondence) and judged by
Spec/MetricsSpec.v (oracle).

Time zones reach Coq as explicit transition tables `mkZone off0 [(T, off); ...]` exported on every
run from the installed zoneinfo data (offset changes between 1970 and 2040 located to the second by
bisection); every generated instant lies between 1971 and 2038 so the tables are complete for it.

What is recorded from the implementation, per case (see Harness/MetricsChk.v):
  a, b     calgebra.metrics._coerce_bound(start, tz) / (end, tz)
  wins     calgebra.metrics._period_windows_with_dt(a, b, period, tz)
  out      the public function's return value
coverage_ratio's floats are passed as exact fractions (float.as_integer_ratio()); Coq accepts a
float iff it is within relative error 2^-53 of the exact rational total/span.
"""
from __future__ import annotations

import calendar
import copy
import json
from dataclasses import dataclass
from datetime import date, datetime, timedelta, timezone
from zoneinfo import ZoneInfo

from .common import VERIF, civl, clist, cz, ensure_repo_import, load_known
from .family import Check, Family

ensure_repo_import()
import calgebra.metrics as M  # noqa: E402
from calgebra import Interval, timeline  # noqa: E402

EPOCH_ORD = date(1970, 1, 1).toordinal()
DAY = 86400

# zones of the default generator; zones listed in EXTRA_ZONES are exported too but only used by the
# witnesses of known findings (a DST shift of more than one hour)
ZONES = ["America/Los_Angeles", "Europe/London", "Australia/Lord_Howe", "Asia/Kathmandu",
         "America/St_Johns", "America/Havana", "Africa/Cairo", "Asia/Kolkata", "UTC", "Pacific/Chatham"]
EXTRA_ZONES = ["Antarctica/Troll"]

SCAN_LO = 0                                                               # 1970-01-01
SCAN_HI = calendar.timegm((2040, 1, 1, 0, 0, 0))
GEN_LO = calendar.timegm((1971, 6, 1, 0, 0, 0))
GEN_HI = calendar.timegm((2036, 1, 1, 0, 0, 0))


@dataclass(frozen=True, kw_only=True)
class MEv(Interval):
    id: int


@dataclass(frozen=True, kw_only=True)
class MOcc(Interval):
    """occurrences of the stored series of a history case"""
    id: int = 0
    recurring_event_id: str | None = None


OCC_ID = 77


def occurrences(pat, lo, hi):
    """daily UTC pattern [k_days, start_of_day, duration]: the occurrences (as [s, e, OCC_ID]) whose
    start lies in [lo, hi]"""
    k, sod, dur = pat
    out = []
    d = (lo - sod) // DAY
    while d * DAY + sod <= hi:
        if d % k == 0 and d * DAY + sod >= lo:
            out.append([d * DAY + sod, d * DAY + sod + dur, OCC_ID])
        d += 1
    return out


def history_state(case, a, b):
    """The events a MemoryTimeline holds AFTER the writes of a history case, as far as a metric over
    [a, b] can see them: what the metric asked after the writes must be computed from."""
    h = case["history"]
    evs = [list(e) for e in case["evs"]]
    lo, hi = min(a, b) - 3 * DAY, max(a, b) + 3 * DAY
    occ = occurrences(h["pattern"], lo, hi) if h.get("pattern") else []
    for w in h["writes"]:
        if w[0] == "add":
            evs.append(list(w[1]))
        elif w[0] == "remove_static" and evs:
            evs.pop(w[1] % len(evs))
        elif w[0] == "remove_occ":
            inside = [o for o in occ if o[0] < max(a, b) and o[1] > min(a, b)]
            if inside:
                occ.remove(inside[w[1] % len(inside)])
    return evs + occ


# --------------------------------------------------------------------------------------------
# zone tables

def _off(zi, t):
    return int(datetime.fromtimestamp(t, zi).utcoffset().total_seconds())


def export_zone(name, step=6 * 3600):
    """(off0, [(T, off_after), ...]): every change of UTC offset in [SCAN_LO, SCAN_HI), T = first
    second at which the new offset is in force."""
    zi = ZoneInfo(name)
    off0 = _off(zi, SCAN_LO)
    trans = []
    cur, t = off0, SCAN_LO
    while t < SCAN_HI:
        nt = min(t + step, SCAN_HI)
        o = _off(zi, nt)
        if o != cur:
            lo, hi = t, nt                      # offset(lo) == cur, offset(hi) != cur
            while hi - lo > 1:
                mid = (lo + hi) // 2
                if _off(zi, mid) == cur:
                    lo = mid
                else:
                    hi = mid
            o1 = _off(zi, hi)
            trans.append((hi, o1))
            cur = o1
            t = hi                               # rescan from the transition: several changes per step are found
            continue
        t = nt
    return off0, trans


_ZONE_CACHE = {}


def zone_table(name):
    if name not in _ZONE_CACHE:
        _ZONE_CACHE[name] = export_zone(name)
    return _ZONE_CACHE[name]


def zone_ident(name):
    return "z_" + "".join(ch if ch.isalnum() else "_" for ch in name)


def coq_zone_defs(names):
    out = []
    for n in names:
        off0, trans = zone_table(n)
        body = "; ".join(f"({cz(t)}, {cz(o)})" for t, o in trans)
        out.append(f"Definition {zone_ident(n)} : zone := mkZone {cz(off0)} [{body}].")
    return "\n".join(out) + "\n"


def table_offset(name, t):
    off0, trans = zone_table(name)
    cur = off0
    for T, o in trans:
        if T <= t:
            cur = o
        else:
            break
    return cur


def self_check_tables(rng_seed=7, n=400):
    """The exported tables reproduce zoneinfo's offsets on sampled instants (and next to every
    transition); a failure here is a harness error, not a finding."""
    import random
    r = random.Random(rng_seed)
    for name in ZONES + EXTRA_ZONES:
        zi = ZoneInfo(name)
        _, trans = zone_table(name)
        pts = [r.randrange(SCAN_LO, SCAN_HI) for _ in range(n)]
        for T, _ in trans:
            pts += [T - 1, T, T + 1]
        for t in pts:
            if _off(zi, t) != table_offset(name, t):
                raise SystemExit(f"harness error: zone table of {name} disagrees with zoneinfo at {t}")


# --------------------------------------------------------------------------------------------
# signatures of the known findings, mirrored from Harness/MetricsChk.v (has_M1 / has_M2) so that the
# default generator can stay clear of them

UNIT = {"hour": 3600, "day": DAY, "week": DAY, "month": DAY, "year": DAY}
MARGIN = {"hour": 2 * 3600, "day": 2 * DAY, "week": 8 * DAY, "month": 32 * DAY, "year": 367 * DAY, "full": 0}


def sig_of(zone, period, a, b):
    """set of signatures {'M1','M2','M3'} the case (zone, period, coerced range) carries"""
    if period == "full":
        return set()
    off0, trans = zone_table(zone)
    sigs = set()
    cur = off0
    m = MARGIN[period] + DAY
    u = UNIT[period]
    for T, o in trans:
        if a - m <= T <= b + m:
            if period == "hour" and abs(o - cur) > 3600:
                sigs.add("M1")
            lo, hi = T + min(cur, o), T + max(cur, o)
            if (lo // u + 1) * u < hi:
                sigs.add("M2")
        if a < b and T == b and ((cur < o and o - cur < u and (T + cur) % u == 0) or
                                 (o < cur and (T + o) % u == 0)):
            sigs.add("M3")
        cur = o
    return sigs


# --------------------------------------------------------------------------------------------
# running the implementation

FUNCS = {"total": M.total_duration, "count": M.count_intervals, "ratio": M.coverage_ratio,
         "max": M.max_duration, "min": M.min_duration}


def py_bound(b):
    """int | [y, m, d] (a date) | ["dt", ts, zone] (the instant ts as an aware datetime of that zone —
    which need not be the zone the metric is asked for)"""
    if isinstance(b, int):
        return b
    if b and b[0] == "dt":
        return datetime.fromtimestamp(b[1], ZoneInfo(b[2]))
    return date(*b)


def mk_events(evs):
    out = []
    for s, e, pid in evs:
        out.append(Interval(start=s, end=e) if pid is None else MEv(start=s, end=e, id=pid))
    return out


def wall_secs(dt):
    return calendar.timegm(dt.replace(tzinfo=None).timetuple())


def label_num(lab):
    if isinstance(lab, datetime):
        return wall_secs(lab)
    if isinstance(lab, date):
        return lab.toordinal() - EPOCH_ORD
    return int(lab)


def obs_ivl(r):
    if r is None:
        return None
    pid = getattr(r, "id", None)
    if pid is None and type(r) is not Interval:
        pid = -2
    return [r.start, r.end, pid]


def run_case(case):
    try:
        tz = case["zone"]
        start, end = py_bound(case["start"]), py_bound(case["end"])
        a = M._coerce_bound(start, tz)
        b = M._coerce_bound(end, tz)
        if case.get("history"):
            # a MemoryTimeline asked the same metric before and after being written to: the second
            # answer must be computed from what the timeline holds then
            from calgebra.mutable.memory import MemoryTimeline
            from calgebra.recurrence import RecurringPattern
            h = case["history"]
            tl = MemoryTimeline()
            stored = mk_events(case["evs"])
            for ev in stored:
                tl.add(ev)
            if h.get("pattern"):
                k, sod, dur = h["pattern"]
                tl.add(RecurringPattern("daily", interval=k, start=sod, duration=dur, tz="UTC",
                                        interval_class=MOcc, id=OCC_ID))
            kw0 = dict(period=case["period"], tz=tz)
            if case["fn"] in ("total", "count", "ratio"):
                kw0["group_by"] = case["group"]
            FUNCS[case["fn"]](tl, start, end, **kw0)                       # first answer (discarded)
            for w in h["writes"]:
                if w[0] == "add":
                    ev = mk_events([w[1]])[0]
                    stored.append(ev)
                    tl.add(ev)
                elif w[0] == "remove_static" and stored:
                    tl.remove(stored.pop(w[1] % len(stored)))
                elif w[0] == "remove_occ":
                    lo_, hi_ = min(a, b), max(a, b)
                    inside = [o for o in tl.fetch(lo_ - 3 * DAY, hi_ + 3 * DAY)
                              if getattr(o, "recurring_event_id", None) and o.start < hi_ and o.end > lo_]
                    if inside:
                        tl.remove(inside[w[1] % len(inside)])
        else:
            tl = timeline(*mk_events(case["evs"]))
        wins = [[wall_secs(dt), ws, we] for dt, ws, we in M._period_windows_with_dt(a, b, case["period"], tz)]
        kw = dict(period=case["period"], tz=tz)
        if case["fn"] in ("total", "count", "ratio"):
            kw["group_by"] = case["group"]
        res = FUNCS[case["fn"]](tl, start, end, **kw)
        out = []
        for lab, v in res:
            if case["fn"] == "ratio":
                p, q = float(v).as_integer_ratio()
                out.append([label_num(lab), [p, q]])
            elif case["fn"] in ("max", "min"):
                out.append([label_num(lab), obs_ivl(v)])
            else:
                out.append([label_num(lab), int(v)])
        return dict(a=a, b=b, wins=wins, out=out)
    except Exception as ex:  # an exception escaping a public function is part of the observation
        return {"err": type(ex).__name__ + ": " + str(ex)[:200]}


# --------------------------------------------------------------------------------------------
# Coq terms

PERIOD = {"hour": "PHour", "day": "PDay", "week": "PWeek", "month": "PMonth", "year": "PYear", "full": "PFull"}
GROUP = {"hour_of_day": "GHourOfDay", "day_of_week": "GDayOfWeek", "day_of_month": "GDayOfMonth",
         "week_of_year": "GWeekOfYear", "month_of_year": "GMonthOfYear"}
FN = {"total": "FTotal", "count": "FCount", "ratio": "FRatio", "max": "FMax", "min": "FMin"}
VALID_GROUP = {"hour": ["hour_of_day"], "day": ["day_of_week", "day_of_month"], "week": ["week_of_year"],
               "month": ["month_of_year"], "year": [], "full": []}


def coq_bound(b):
    if isinstance(b, int):
        return f"(BInt {cz(b)})"
    if b and b[0] == "dt":
        return f"(BInt {cz(b[1])})"          # an aware datetime is the instant it denotes, whatever its zone
    y, m, d = b
    return f"(BDate {y} {m} {d})"


def coq_mcase(case, obs):
    evs_ = history_state(case, obs["a"], obs["b"]) if case.get("history") else case["evs"]
    evs = clist([civl(e) for e in evs_])
    wins = clist([f"({cz(l)}, {cz(s)}, {cz(e)})" for l, s, e in obs["wins"]])
    ints = rats = ivls = "[]"
    if case["fn"] == "ratio":
        rats = clist([f"({cz(l)}, ({cz(p)}, {cz(q)}))" for l, (p, q) in obs["out"]])
    elif case["fn"] in ("max", "min"):
        ivls = clist([f"({cz(l)}, {'None' if v is None else '(Some ' + civl(v) + ')'})" for l, v in obs["out"]])
    else:
        ints = clist([f"({cz(l)}, {cz(v)})" for l, v in obs["out"]])
    grp = "None" if case.get("group") is None else f"(Some {GROUP[case['group']]})"
    return (f"(mkM {zone_ident(case['zone'])} {evs} {FN[case['fn']]} {coq_bound(case['start'])} "
            f"{coq_bound(case['end'])} {PERIOD[case['period']]} {grp} {cz(obs['a'])} {cz(obs['b'])} "
            f"{wins} {ints} {rats} {ivls})")


# --------------------------------------------------------------------------------------------
# generation

MAX_UNITS = {"hour": 40, "day": 45, "week": 12, "month": 15, "year": 3.2, "full": 60}
UNIT_LEN = {"hour": 3600, "day": DAY, "week": 7 * DAY, "month": 30 * DAY, "year": 365 * DAY, "full": DAY}


def local_date(zone, t):
    d = datetime.fromtimestamp(t, ZoneInfo(zone))
    return [d.year, d.month, d.day]


class MetricsGen:
    def __init__(self, rng):
        self.r = rng

    def anchor(self, zone):
        """an instant worth looking at: next to a DST change, a month end, a year end, or anywhere"""
        r = self.r
        _, trans = zone_table(zone)
        live = [T for T, _ in trans if GEN_LO < T < GEN_HI]
        k = r.random()
        if live and k < 0.55:
            return r.choice(live)
        if k < 0.75:
            y, m = r.randrange(1972, 2036), r.randrange(1, 13)
            return calendar.timegm((y, m, 1, 0, 0, 0)) - table_offset(zone, calendar.timegm((y, m, 1, 0, 0, 0)))
        if k < 0.88:
            y = r.randrange(1972, 2036)
            return calendar.timegm((y, 1, 1, 0, 0, 0)) - table_offset(zone, calendar.timegm((y, 1, 1, 0, 0, 0)))
        return r.randrange(GEN_LO, GEN_HI)

    def jitter(self, unit):
        r = self.r
        return r.choice([0, 0, 1, -1, 59, 60, 61, 900, 1800, 3599, 3600, 3601, -1800, -3600, 7200,
                         r.randrange(-unit, unit + 1), r.randrange(-2 * unit, 2 * unit + 1)])

    def range_(self, zone, period):
        r = self.r
        unit = UNIT_LEN[period]
        anc = self.anchor(zone)
        span = r.choice([1, 1, 2, 3, r.randrange(1, max(2, int(MAX_UNITS[period]))), r.random() * MAX_UNITS[period]])
        length = max(1, int(span * unit * r.choice([1, 1, 0.5, 0.25, 1.0 + r.random()])))
        length = min(length, int(MAX_UNITS[period] * unit))
        where = r.random()
        if where < 0.4:
            a = anc - r.randrange(0, length + 1) + self.jitter(unit)       # the range straddles the anchor
        elif where < 0.6:
            a = anc + self.jitter(unit)                                     # starts next to it
        elif where < 0.8:
            a = anc - length + self.jitter(unit)                            # ends next to it
        else:
            a = anc + r.randrange(-3 * unit, 3 * unit + 1)
        b = a + length
        if r.random() < 0.04:
            b = a - r.choice([0, 0, 1, 3600, DAY])                          # empty / inverted range
        a = min(max(a, GEN_LO), GEN_HI)
        b = min(max(b, GEN_LO - DAY), GEN_HI + int(MAX_UNITS[period] * unit))
        sb, eb = a, b
        k = r.random()
        if k < 0.25:
            sb = local_date(zone, a)
        if 0.15 < k < 0.4:
            eb = local_date(zone, b)
            if eb == sb and r.random() < 0.8:
                d = date(*eb) + timedelta(days=r.choice([1, 1, 2, 7, 31]))
                eb = [d.year, d.month, d.day]
        # an int bound may equally be given as an aware datetime, in any zone
        if isinstance(sb, int) and r.random() < 0.3:
            sb = ["dt", sb, r.choice(ZONES)]
        if isinstance(eb, int) and r.random() < 0.2:
            eb = ["dt", eb, r.choice(ZONES)]
        return sb, eb, a, b

    def events(self, a, b, period):
        r = self.r
        unit = UNIT_LEN[period] if period != "full" else r.choice([3600, DAY])
        n = r.choice([0, 1, 1, 2, 2, 3, 3, 4, 5])
        lo, hi = min(a, b), max(a, b)
        span = max(hi - lo, unit)
        evs = []
        rich = r.random() < 0.8
        for i in range(n):
            k = r.random()
            if evs and k < 0.15:                                            # nested in / equal to an earlier one
                s0, e0, _ = r.choice(evs)
                s0 = lo if s0 is None else s0
                e0 = hi if e0 is None else e0
                if e0 < s0:
                    s0, e0 = e0, s0
                if e0 - s0 >= 2 and r.random() < 0.7:
                    s = r.randrange(s0, e0)
                    e = r.randrange(s + 1, e0 + 1)
                else:
                    s, e = s0, e0
            elif k < 0.3:                                                   # crosses a period boundary near the range edge
                c = r.choice([lo, hi]) + r.randrange(-unit, unit + 1)
                s, e = c - r.randrange(1, 2 * unit), c + r.randrange(1, 2 * unit)
            elif k < 0.4:                                                   # short
                s = lo + r.randrange(-unit, span + unit)
                e = s + r.choice([1, 60, 900, 1800, 3599, 3600, 3601])
            else:
                s = lo + r.randrange(-unit, span + unit)
                e = s + max(1, int(r.random() * r.choice([0.3, 1, 1, 2, 5]) * min(span, 6 * unit)))
            u = r.random()
            if u < 0.06:
                s = None
            elif u < 0.12:
                e = None
            elif u < 0.14:
                e = s                                                       # zero-length event
            evs.append([s, e, (i + 1) if rich else None])
        r.shuffle(evs)
        return evs

    def case(self):
        r = self.r
        zone = r.choice(ZONES)
        period = r.choice(["hour", "hour", "day", "day", "week", "month", "year", "full"])
        fn = r.choice(["total", "total", "total", "count", "ratio", "ratio", "max", "min"])
        group = None
        if fn in ("total", "count", "ratio") and VALID_GROUP[period] and r.random() < 0.45:
            group = r.choice(VALID_GROUP[period])
        sb, eb, a, b = self.range_(zone, period)
        evs = self.events(a, b, period)
        case = dict(zone=zone, evs=evs, fn=fn, start=sb, end=eb, period=period, group=group)
        if r.random() < 0.1 and period in ("hour", "day", "full") and b - a <= 12 * DAY:
            # the timeline is a MemoryTimeline (with a daily series) that is written to between two
            # identical metric calls
            evs[:] = [e for e in evs if e[0] is not None and e[1] is not None and e[0] < e[1]]
            pat = [r.choice([1, 1, 2]), r.choice([0, 9 * 3600, 23 * 3600]), r.choice([3600, 8 * 3600, DAY + 3600])]
            writes = []
            for _ in range(r.choice([1, 1, 2])):
                k = r.random()
                if k < 0.45:
                    writes.append(["remove_occ", r.randrange(0, 50)])
                elif k < 0.75:
                    s0 = min(a, b) + r.randrange(0, max(1, abs(b - a)))
                    writes.append(["add", [s0, s0 + r.choice([60, 3600, 5 * 3600]), 90 + len(writes)]])
                else:
                    writes.append(["remove_static", r.randrange(0, 50)])
            case["history"] = dict(pattern=pat, writes=writes)
        return case


def coerced(case):
    tz = case["zone"]
    return M._coerce_bound(py_bound(case["start"]), tz), M._coerce_bound(py_bound(case["end"]), tz)


# --------------------------------------------------------------------------------------------
# fixed corpus: boundary situations that must pass

def _utc(y, mo, d, h=0, mi=0, s=0):
    return calendar.timegm((y, mo, d, h, mi, s))


def fixed_corpus():
    la_gap = _utc(2024, 3, 10, 10)       # 02:00 PST -> 03:00 PDT
    la_fold = _utc(2024, 11, 3, 9)       # 02:00 PDT -> 01:00 PST
    lh_fold = _utc(2024, 4, 6, 15)       # Lord Howe 02:00 -> 01:30
    hav_gap = _utc(2024, 3, 10, 5)       # Havana 00:00 -> 01:00
    cs = []
    ev = lambda s, e, i: [s, e, i]  # noqa: E731
    for fn in ("total", "count", "ratio", "max"):
        cs.append(dict(zone="America/Los_Angeles", evs=[ev(la_gap - 5000, la_gap + 5000, 1), ev(la_gap - 100, la_gap + 100, 2)],
                       fn=fn, start=la_gap - 3 * 3600 - 7, end=la_gap + 2 * 3600 + 11, period="hour", group=None))
        cs.append(dict(zone="America/Los_Angeles", evs=[ev(la_fold - 5000, la_fold + 5000, 1)],
                       fn=fn, start=la_fold - 1800, end=la_fold + 600, period="hour", group=None))
        cs.append(dict(zone="America/Los_Angeles", evs=[ev(la_gap - 90000, la_gap + 90000, 1), ev(None, la_gap, 2)],
                       fn=fn, start=[2024, 3, 9], end=[2024, 3, 12], period="day", group=None))
        cs.append(dict(zone="Australia/Lord_Howe", evs=[ev(lh_fold - 4000, lh_fold + 4000, 1)],
                       fn=fn, start=lh_fold - 600, end=lh_fold + 600, period="hour", group=None))
        cs.append(dict(zone="America/Havana", evs=[ev(hav_gap - 4000, hav_gap + 90000, 1)],
                       fn=fn, start=[2024, 3, 9], end=[2024, 3, 11], period="day", group=None))
    cs.append(dict(zone="America/Los_Angeles", evs=[ev(la_gap - 7200, la_gap, 1)], fn="total",
                   start=la_gap - 7200, end=la_gap, period="hour", group="hour_of_day"))
    cs.append(dict(zone="Europe/London", evs=[ev(_utc(2020, 12, 20), _utc(2021, 1, 20), 1)], fn="total",
                   start=[2020, 12, 15], end=[2021, 1, 25], period="week", group="week_of_year"))
    cs.append(dict(zone="Asia/Kathmandu", evs=[ev(_utc(1985, 12, 31, 12), _utc(1986, 1, 1, 12), 1)], fn="ratio",
                   start=[1985, 12, 30], end=[1986, 1, 3], period="day", group=None))
    # the Unix epoch itself as a bound and as an event edge (0 is an instant like any other), and
    # instants before it
    for fn in ("total", "count", "ratio", "max", "min"):
        cs.append(dict(zone="UTC", evs=[ev(-3600, 3600, 1), ev(0, 7200, 2), ev(90000, 100000, 3)], fn=fn,
                       start=0, end=2 * 86400, period="day", group=None))
        cs.append(dict(zone="UTC", evs=[ev(-7200, 0, 1), ev(-100, 100, 2)], fn=fn,
                       start=-86400, end=0, period="hour", group=None))
    cs.append(dict(zone="UTC", evs=[ev(-3600, 3600, 1)], fn="total", start=-86400, end=86400, period="day",
                   group="day_of_week"))
    return cs


# witnesses of the known findings (coq/Harness/MetricsChk.v has_M1 / has_M2); they are written to
# findings/ by tools or by hand and replayed by Check.run when listed in known-findings.txt
def defect_witnesses():
    tr = _utc(2024, 3, 31, 1)            # Troll 01:00 +00 -> 03:00 +02
    ch_gap = _utc(2024, 9, 28, 14)       # Chatham 02:45 +1245 -> 03:45 +1345
    ch_fold = _utc(2024, 4, 6, 14)       # Chatham 03:45 +1345 -> 02:45 +1245
    sj_fold = _utc(2005, 10, 30, 2, 31)  # St John's 00:01 NDT -> 23:01 NST (previous day)
    return {
        "M1": dict(zone="Antarctica/Troll", evs=[[tr - 3 * 3600, tr + 4 * 3600, 1]], fn="total",
                   start=tr - 3 * 3600, end=tr + 4 * 3600, period="hour", group=None),
        "M2": dict(zone="Pacific/Chatham", evs=[[ch_gap + 60, ch_gap + 7200, 1]], fn="total",
                   start=ch_gap + 60, end=ch_gap + 7200, period="hour", group=None),
        "M2-fold": dict(zone="Pacific/Chatham", evs=[[ch_fold - 7200, ch_fold + 300, 1]], fn="total",
                        start=ch_fold - 7200, end=ch_fold + 300, period="hour", group=None),
        "M2-day": dict(zone="America/St_Johns", evs=[[sj_fold - DAY, sj_fold + 1800, 1]], fn="total",
                       start=sj_fold - DAY, end=sj_fold + 1800, period="day", group=None),
        "M3-fold": dict(zone="America/Los_Angeles", evs=[[_utc(2024, 11, 3, 7), _utc(2024, 11, 3, 9), 1]], fn="total",
                        start=_utc(2024, 11, 3, 7), end=_utc(2024, 11, 3, 9), period="hour", group=None),
        "M3": dict(zone="America/Havana", evs=[[_utc(2024, 3, 9, 12), _utc(2024, 3, 9, 18), 1]], fn="count",
                   start=[2024, 3, 9], end=[2024, 3, 10], period="day", group=None),
    }


# --------------------------------------------------------------------------------------------

class MetricsFamily(Family):
    name = "metrics"
    case_type = "mcase"
    corr = "corr_metrics"
    oracle = "oracle_C13"
    dom_funcs = {"M1": "c_noM1", "M2": "c_noM2", "M3": "c_noM3"}
    n_quick = 1500
    n_thorough = 20000
    shard = 100
    rule = ("stored timelines of 0-5 events (overlapping, nested, crossing period boundaries, unbounded, "
            "zero-length) x ranges next to DST changes / month ends / year ends (ints and dates, unaligned, "
            "empty and inverted) x {hour,day,week,month,year,full} x group_by x five functions x zones "
            + ", ".join(ZONES) + "; the generator keeps only a minority (1 in 5) of the draws that carry the "
            "signature of a listed known finding M1/M2/M3 and none of an unlisted one (see assumptions); non-trivial = some window has a non-zero / non-None value")

    _header = None

    @property
    def header(self):
        # exported lazily: importing this module (harness.main imports every props_* module) costs nothing
        if MetricsFamily._header is None:
            self_check_tables()
            MetricsFamily._header = ("From CG Require Import Harness.MetricsChk.\n"
                                     + coq_zone_defs(ZONES + EXTRA_ZONES))
        return MetricsFamily._header

    def gen(self, rng, tier, n):
        g = MetricsGen(rng)
        made = 0
        while made < n:
            c = g.case()
            try:
                a, b = coerced(c)
            except Exception:
                continue
            if c["period"] != "full" and abs(b - a) > (MAX_UNITS[c["period"]] + 3) * UNIT_LEN[c["period"]]:
                continue                       # a date bound pushed the range beyond the size budget
            sigs = sig_of(c["zone"], c["period"], a, b)
            if sigs and (not sigs <= self.listed() or rng.random() < 0.8):
                continue                       # known-finding territory: a minority is kept when the finding is listed
            made += 1
            yield c

    _listed = None

    def listed(self):
        if self._listed is None:
            self._listed = {k["sig"] for k in load_known(self.prop)}
        return self._listed

    def corpus(self):
        cs = fixed_corpus()
        listed = self.listed()
        for sig, c in defect_witnesses().items():
            if sig.split("-")[0] in listed:
                cs.append(c)
        return cs

    def run_impl(self, case):
        return run_case(case)

    def coq_case(self, case, obs):
        return coq_mcase(case, obs)

    def describe(self, case):
        return (f"{case['fn']}(timeline{[tuple(e) for e in case['evs']]}, start={case['start']}, end={case['end']}, "
                f"period={case['period']!r}, tz={case['zone']!r}, group_by={case.get('group')!r})"
                + (f" on a MemoryTimeline with daily series {case['history']['pattern']}, asked again after "
                   f"{case['history']['writes']}" if case.get("history") else ""))

    def nontrivial(self, case, obs):
        return any(v not in (0, None, [0, 1]) for _, v in obs["out"])

    def distribution(self, case, dist):
        if case.get("history"):
            dist["memory_timeline_written_between_two_calls"] += 1
        dist[f"period_{case['period']}"] += 1
        dist[f"fn_{case['fn']}"] += 1
        dist[f"zone_{case['zone']}"] += 1
        if case.get("group"):
            dist[f"group_{case['group']}"] += 1
        if any(isinstance(x, list) and x[0] == "dt" for x in (case["start"], case["end"])):
            dist["aware_datetime_bound"] += 1
        if any(isinstance(x, list) and x[0] != "dt" for x in (case["start"], case["end"])):
            dist["date_bound"] += 1
        if any(e[0] is None or e[1] is None for e in case["evs"]):
            dist["has_unbounded_event"] += 1
        try:
            a, b = coerced(case)
            _, trans = zone_table(case["zone"])
            if any(a - DAY <= T <= b + DAY for T, _ in trans):
                dist["range_near_offset_change"] += 1
        except Exception:
            pass

    def shrink_candidates(self, case):
        evs = case["evs"]
        for i in range(len(evs)):
            yield dict(case, evs=evs[:i] + evs[i + 1:])
        if case.get("group"):
            yield dict(case, group=None)
        try:
            a, b = coerced(case)
        except Exception:
            return
        if not isinstance(case["start"], int):
            yield dict(case, start=a)
        if not isinstance(case["end"], int):
            yield dict(case, end=b)
        if isinstance(case["start"], int) and isinstance(case["end"], int) and b - a > 1:
            yield dict(case, end=a + (b - a) // 2)
            yield dict(case, start=a + (b - a) // 2)
            for d in (DAY, 3600, 60, 1):
                if b - a > d:
                    yield dict(case, end=b - d)
                    yield dict(case, start=a + d)
        for i, (s, e, pid) in enumerate(evs):
            for (s2, e2) in ((a if s is None else s, e), (s, b if e is None else e),
                             (max(s, a) if s is not None else None, e), (s, min(e, b) if e is not None else None)):
                if (s2, e2) != (s, e) and (s2 is None or e2 is None or s2 <= e2):
                    yield dict(case, evs=evs[:i] + [[s2, e2, pid]] + evs[i + 1:])

    def perturb(self, case, rng):
        c = copy.deepcopy(case)
        try:
            a, b = coerced(c)
        except Exception:
            return None
        k = rng.random()
        if k < 0.5:
            c["start"] = a + rng.choice([-3600, -60, -1, 1, 60, 3600])
            c["end"] = b
        elif k < 0.8:
            c["start"] = a
            c["end"] = b + rng.choice([-3600, -60, -1, 1, 60, 3600])
        elif c["evs"]:
            j = rng.randrange(len(c["evs"]))
            s, e, pid = c["evs"][j]
            if s is not None:
                s += rng.choice([-3600, -1, 1, 3600])
            if s is None or e is None or s <= e:
                c["evs"][j] = [s, e, pid]
        return c


ASSUME_METRICS = [
    "time zones are the transition tables exported on this run from the installed zoneinfo data (1970-2040, "
    "offsets located to the second by bisection and re-checked against zoneinfo on sampled instants); "
    "zoneinfo's fold/gap resolution is modelled by Model/Zone.v (wall_to_utc), not verified",
    "all instants lie between 1971 and 2038; datetime.fromtimestamp / datetime arithmetic / date.isocalendar "
    "are modelled by Model/Civil.v and Model/Zone.v",
    "coverage_ratio's float is accepted iff within relative error 2^-53 of the exact rational (a correctly "
    "rounded int/int division); CPython's true division is trusted to round correctly",
    "timelines are stored timelines (timeline(*events)); datetime-typed start/end bounds are not generated "
    "(ints and dates are)",
    "the generator keeps 1 in 5 of the draws carrying the signature of a known finding listed in known-findings.txt "
    "(their oracle failures are attributed to it when the model reproduces the output) and none otherwise: "
    "M1 (an offset change of more than one hour under hourly stepping: Antarctica/Troll, St John's 1988) and "
    "M2 (a period boundary strictly inside the skipped/repeated wall clock stretch of an offset change: "
    "Pacific/Chatham hourly, America/St_Johns 1987-2010) and M3 (the range ends exactly at an offset change whose wall clock is a "
    "period boundary: end=date(d) with the midnight of d skipped, Havana/Cairo/Kathmandu, or end = the instant "
    "clocks are set back to a full hour); the oracle stays strict on them and their witnesses "
    "are replayed when listed in known-findings.txt",
]

CHECKS = {"C13": Check("C13", [MetricsFamily("C13")], ASSUME_METRICS)}


if __name__ == "__main__":  # write the witnesses of the findings to findings/
    for sig, c in defect_witnesses().items():
        p = VERIF / "findings" / f"KF-{sig}-C13.json"
        p.write_text(json.dumps(dict(part="metrics", case=c, impl_output=run_case(c)), indent=1))
        print(p)
