"""C12: an in-memory timeline reflects exactly the history of writes made to it.
Operation sequences (add / add pattern / remove / remove_series / slices in both directions)
run against the real MemoryTimeline, compared with Model/Mem.v, judged by the abstract machine
of Spec/MemSpec.v."""
from __future__ import annotations

import copy
import itertools
import gc
from dataclasses import dataclass

from .common import cbool, civl, clist, coz, cz, ensure_repo_import
from .family import Check, Family

ensure_repo_import()
from calgebra import Interval  # noqa: E402
from calgebra.mutable.memory import MemoryTimeline  # noqa: E402
from calgebra.recurrence import RecurringPattern  # noqa: E402

SER = 100
DAY = 86400
BASE = 1704067200   # 2024-01-01T00:00:00Z, a multiple of 86400


@dataclass(frozen=True, kw_only=True)
class MEv(Interval):
    tag: int = 0
    recurring_event_id: str | None = None


def run_ops(case):
    """ops: ["add", s, e, tag] | ["addpat", k_days, phase, dur, tag, anchored] |
            ["remove", s, e, tag, series] | ["rseries", s, e, tag, series] | ["slice", a, b, rev]
    series refers to the n-th series added (1-based), 0 = none, 99 = an id that does not exist."""
    m = MemoryTimeline()
    series_ids = {}
    out = []
    pat_objs = []

    def mk(s, e, tag, series):
        rid = None
        if series:
            rid = series_ids.get(series, "no-such-series")
        return MEv(start=s, end=e, tag=tag, recurring_event_id=rid)

    def code(r):
        sid = getattr(r, "recurring_event_id", None)
        ser = 0
        if sid is not None:
            ser = next((k for k, v in series_ids.items() if v == sid), 99 if sid == "no-such-series" else 98)
        return [r.start, r.end, getattr(r, "tag", 0) * SER + ser]

    try:
        for op in case["ops"]:
            if op[0] == "add":
                # a stored (static) event may itself carry a recurring_event_id: op[4], optional
                res = m.add(mk(op[1], op[2], op[3], op[4] if len(op) > 4 else 0))
                out.append([[r.success for r in res], []])
            elif op[0] == "addpat":
                _, k, phase, dur, tag, anchored = op[:6]
                start = phase if anchored else phase % DAY
                again = len(op) > 6 and op[6] is not None and op[6] < len(pat_objs)
                if again:
                    # the SAME pattern object is stored a second time: an independent series
                    pobj = pat_objs[op[6]]
                else:
                    # (usually the pattern object is a temporary, as in m.add(recurring(...)); its
                    # exdates argument is a mutable set the caller keeps)
                    extra = {}
                    if len(op) > 7 and op[7]:
                        # the pattern arrives with a recurring_event_id of its own (it was read from
                        # another calendar): the timeline files the series under ITS id
                        extra["recurring_event_id"] = "preset-by-caller"
                    pobj = RecurringPattern("daily", interval=k, start=start, duration=dur, tz="UTC",
                                            interval_class=MEv, tag=tag, exdates=set(), **extra)
                    pat_objs.append(pobj)
                res = m.add(pobj)
                gc.collect()
                series_ids[len(series_ids) + 1] = m._recurring_patterns[-1][0]
                out.append([[r.success for r in res], []])
            elif op[0] == "addmany":
                # add(iterable of intervals): one call, one WriteResult per item
                evs = [mk(*it) for it in op[1]]
                res = m.add(evs)
                flags = [r.success for r in res]
                if len(flags) != len(evs):
                    return {"err": f"add(list of {len(evs)}) returned {len(flags)} results"}
                for f in flags:
                    out.append([[f], []])
            elif op[0] == "remove_fetched":
                # a write fed by a LAZY read of the same timeline: m.remove(m.fetch(a, b)).  What is
                # to be removed is what the timeline held in [a, b] when the call was made (taken here
                # from a separate, fully consumed fetch); every one of those must be reported removed
                _, a, b = op
                snap = [code(r) for r in m.fetch(a, b)]
                res = m.remove(m.fetch(a, b))
                out.append(["fetched", snap, [r.success for r in res]])
            elif op[0] == "rseriesmany":
                # remove_series(iterable): one call, one WriteResult per item; modelled as the sequence
                # of single remove_series calls
                evs = [mk(*it) for it in op[1]]
                res = m.remove_series(iter(evs))
                flags = [r.success for r in res]
                if len(flags) != len(evs):
                    return {"err": f"remove_series(iterable of {len(evs)}) returned {len(flags)} results"}
                for f in flags:
                    out.append([[f], []])
            elif op[0] == "removemany":
                # remove(iterable): one call, one WriteResult per item; modelled as the sequence of
                # single removals (the observation is split accordingly)
                evs = [mk(*it) for it in op[1]]
                res = m.remove(evs)
                flags = [r.success for r in res]
                if len(flags) != len(evs):
                    return {"err": f"remove(list of {len(evs)}) returned {len(flags)} results"}
                for f in flags:
                    out.append([[f], []])
            elif op[0] in ("remove", "rseries"):
                ev = mk(op[1], op[2], op[3], op[4])
                res = m.remove(ev) if op[0] == "remove" else m.remove_series(ev)
                out.append([[r.success for r in res], []])
            else:
                _, a, b, rev = op[:4]
                res = list(m[a:b:-1] if rev else m[a:b])
                if len(op) > 4 and op[4] and not rev:
                    # the first n results are taken from the OPEN-ended slice m[a:] instead (n at most the
                    # length of the prefix of results ending before b): a stored timeline is sliced lazily like any other
                    pre = 0
                    while pre < len(res) and res[pre].end is not None and res[pre].end < b:
                        pre += 1                      # (a later result may reach b: the open slice would not clip it)
                    n_open = min(op[4], pre)
                    res = list(itertools.islice(m[a:], n_open)) + res[n_open:]
                out.append([[], [code(r) for r in res]])
        return out
    except Exception as ex:
        return {"err": type(ex).__name__ + ": " + str(ex)[:200]}


def coq_ev(s, e, tag, series):
    return civl([s, e, tag * SER + series])


def coq_op(op):
    if op[0] == "add":
        return f"(MAdd {coq_ev(op[1], op[2], op[3], op[4] if len(op) > 4 else 0)})"
    if op[0] == "addpat":
        _, k, phase, dur, tag, anchored = op[:6]
        return f"(MAddPat {cz(k * DAY)} {cz(phase)} {cz(dur)} {tag}%N)"
    if op[0] == "remove":
        return f"(MRemove {coq_ev(op[1], op[2], op[3], op[4])})"
    if op[0] == "rseriesmany":
        return "; ".join(f"(MRemoveSeries {coq_ev(*it)})" for it in op[1])
    if op[0] == "removemany":
        return "; ".join(f"(MRemove {coq_ev(*it)})" for it in op[1])
    if op[0] == "addmany":
        return "; ".join(f"(MAdd {coq_ev(*it)})" for it in op[1])
    if op[0] == "rseries":
        return f"(MRemoveSeries {coq_ev(op[1], op[2], op[3], op[4])})"
    return f"(MSlice {cz(op[1])} {cz(op[2])} {cbool(op[3])})"


def shift_ops(ops, d):
    """move a history without series in time"""
    out = []
    sh = lambda x: None if x is None else x + d      # noqa: E731
    for o in ops:
        if o[0] in ("add", "remove", "rseries"):
            out.append([o[0], sh(o[1]), sh(o[2])] + list(o[3:]))
        elif o[0] in ("addmany", "removemany", "rseriesmany"):
            out.append([o[0], [[sh(it[0]), sh(it[1])] + list(it[2:]) for it in o[1]]])
        elif o[0] == "slice":
            out.append(["slice", o[1] + d, o[2] + d] + list(o[3:]))
        elif o[0] == "remove_fetched":
            out.append(["remove_fetched", o[1] + d, o[2] + d])
        else:
            out.append(o)
    return out


class MemFamily(Family):
    name = "histories"
    header = "From CG Require Import Harness.MemChk.\n"
    case_type = "mcase"
    corr = "corr_mem"
    oracle = "oracle_C12"
    shard = 150
    n_quick, n_thorough = 1500, 6000
    rule = ("operation sequences of length <= 12 over a universe of 6 intervals (duplicates, equal starts) and "
            "daily UTC patterns (every 1-3 days, anchored or time-of-day, durations up to 2.5 days) with and "
            "without series ids, interleaved with slices in both directions; non-trivial = some slice "
            "returned an interval and some removal was attempted")

    def gen(self, rng, tier, n):
        H = 3600
        uni = [(BASE + 2 * H, BASE + 5 * H), (BASE + 2 * H, BASE + 9 * H), (BASE + 2 * H, BASE + 5 * H),
               (BASE + DAY, BASE + DAY + H), (BASE - H, BASE + 30 * H), (BASE + 3 * DAY, BASE + 3 * DAY + 2 * H)]
        # stored intervals may be open on either side ("since ...", "until ..."): one history in four
        uni_open = uni + [(None, BASE + 3 * H), (BASE - 3 * DAY, None), (BASE + 4 * H, None)]
        uni_closed = uni
        for _ in range(n):
            ops = []
            npat = 0
            added = []
            uni = uni_open if rng.random() < 0.25 else uni_closed
            if rng.random() < 0.06:
                # aimed history (seeded change C12-m14): an occurrence removed individually, then added
                # back as a one-off event carrying the series id, then the series removed: the one-off
                # event must survive the series and be removable afterwards
                k = rng.choice([1, 2])
                anchored = rng.random() < 0.5
                tod = rng.choice([0, 9 * H])
                phase = (BASE + tod) if anchored else tod
                dur, tag = rng.choice([H, 2 * H]), rng.choice([4, 5, 6])
                s = (phase if phase > DAY else BASE + phase) + rng.choice([0, 1, 2]) * k * DAY
                s2 = (phase if phase > DAY else BASE + phase) + rng.choice([0, 1, 2]) * k * DAY
                win = [BASE - DAY, BASE + 6 * DAY]
                ops = [["addpat", k, phase, dur, tag, anchored],
                       ["remove", s, s + dur, tag, 1],
                       ["slice", win[0], win[1], False],
                       ["add", s, s + dur, tag, 1],
                       ["slice", win[0], win[1], rng.random() < 0.3],
                       ["rseries", s2, s2 + dur, tag, 1],
                       ["slice", win[0], win[1], False],
                       ["remove", s, s + dur, tag, 1],
                       ["slice", win[0], win[1], False]]
                yield dict(ops=ops)
                continue
            for _ in range(rng.choice([2, 4, 6, 8, 10, 12] if tier == "quick" else [6, 10, 14, 16])):
                r = rng.random()
                if r < 0.25:
                    s, e = rng.choice(uni)
                    tag = rng.choice([1, 1, 2, 3])
                    # one add in five stores an event that carries a recurring_event_id (of a stored
                    # series, or of none): a copy of an occurrence, an event of another calendar
                    ser = rng.choice(list(range(1, npat + 1)) + [99]) if rng.random() < 0.2 else 0
                    if ser and ser != 99 and rng.random() < 0.5:
                        # exactly an occurrence of that series
                        _, k, phase, dur, ptag, _ = [o for o in ops if o[0] == "addpat"][ser - 1][:6]
                        s = (phase if phase > DAY else BASE + phase) + rng.choice([0, 1, 2]) * k * DAY
                        e, tag = s + dur, ptag
                    ops.append(["add", s, e, tag, ser])
                    added.append((s, e, tag, ser))
                elif r < 0.4 and npat < 3:
                    k = rng.choice([1, 1, 2, 3])
                    anchored = rng.random() < 0.5
                    tod = rng.choice([0, 9 * H, 23 * H, 12 * H + 1800])
                    phase = (BASE + rng.choice([0, 1, 2]) * DAY + tod) if anchored else tod
                    dur = rng.choice([H, 2 * H, DAY, DAY + 6 * H, 60 * H])
                    prev = [o for o in ops if o[0] == "addpat" and (len(o) == 6 or o[6] is None)]   # (one new object each)
                    if prev and rng.random() < 0.25:
                        src = rng.randrange(len(prev))
                        ops.append(prev[src][:6] + [src])          # the same pattern object once more
                    else:
                        ops.append(["addpat", k, phase, dur, rng.choice([4, 5, 6]), anchored]
                                   + ([None, True] if rng.random() < 0.15 else []))
                    npat += 1
                elif r < 0.6:
                    kind = rng.choice(["remove", "remove", "rseries"])
                    q = rng.random()
                    if q < 0.45 and added:
                        s, e, tag, ser = rng.choice(added)
                        if rng.random() < 0.15:
                            tag = 7                       # same span, different metadata: not stored
                        ops.append([kind, s, e, tag, ser])
                    elif q < 0.9 and npat:
                        ser = rng.choice(list(range(1, npat + 1)) + [99] * 1)
                        pat = [o for o in ops if o[0] == "addpat"][min(ser, npat) - 1]
                        _, k, phase, dur, tag, _ = pat[:6]
                        nn = rng.choice([0, 1, 2, 3, 4])
                        s = (phase if phase > DAY else BASE + phase) + nn * k * DAY
                        if rng.random() < 0.15:
                            s += rng.choice([1, 3600, DAY])   # not the start of an occurrence (when k > 1 or offset)
                        win = [BASE - DAY, BASE + 6 * DAY]
                        if rng.random() < 0.4:
                            ops.append(["slice", win[0], win[1], True])      # ... the same window in reverse
                        ops.append([kind, s, s + dur, tag, ser])
                        if rng.random() < 0.5:
                            ops.append(["slice", win[0], win[1], True])      # before and after the removal
                    else:
                        s, e = rng.choice(uni)
                        ops.append([kind, s, e, 9, 0])
                else:
                    a = BASE + rng.choice([-2 * DAY, -DAY, 0, 2 * H, DAY, 2 * DAY])
                    b = a + rng.choice([H, 5 * H, DAY, 3 * DAY, 6 * DAY])
                    ops.append(["slice", a, b, rng.random() < 0.35] + ([rng.choice([1, 2, 5, 50])] if rng.random() < 0.25 else []))
            # one case in four: merge a run of consecutive removals into one remove([...]) call,
            # sometimes naming the same event twice in the batch
            if rng.random() < 0.25:
                merged = []
                for o in ops:
                    if o[0] == "remove" and merged and merged[-1][0] == "removemany" and len(merged[-1][1]) < 4:
                        merged[-1][1].append(o[1:5])
                    elif o[0] == "remove":
                        merged.append(["removemany", [o[1:5]]])
                    else:
                        merged.append(o)
                for o in merged:
                    if o[0] == "removemany" and rng.random() < 0.5:
                        o[1].append(list(rng.choice(o[1])))
                # ... and runs of consecutive remove_series calls into remove_series(<iterable>)
                merged1 = []
                for o in merged:
                    if o[0] == "rseries" and merged1 and merged1[-1][0] == "rseriesmany" and len(merged1[-1][1]) < 4:
                        merged1[-1][1].append(o[1:5])
                    elif o[0] == "rseries":
                        merged1.append(["rseriesmany", [o[1:5]]])
                    else:
                        merged1.append(o)
                merged = merged1
                for o in merged:
                    if o[0] == "rseriesmany" and added and rng.random() < 0.6:
                        for _ in range(rng.choice([1, 2])):
                            o[1].append(list(rng.choice(added)))       # several one-off events in one batch
                # ... and runs of consecutive adds into add([...])
                merged2 = []
                for o in merged:
                    item = (o[1:4] + [o[4] if len(o) > 4 else 0]) if o[0] == "add" else None
                    if item and merged2 and merged2[-1][0] == "addmany" and len(merged2[-1][1]) < 3:
                        merged2[-1][1].append(item)
                    elif item and rng.random() < 0.5:
                        merged2.append(["addmany", [item]])
                    else:
                        merged2.append(o)
                ops = merged2
            if rng.random() < 0.12:
                a = BASE + rng.choice([-DAY, 0, 2 * 3600, DAY])
                ops.insert(rng.randrange(len(ops) + 1), ["remove_fetched", a, a + rng.choice([6 * 3600, DAY, 2 * DAY])])
            ops.append(["slice", BASE - DAY, BASE + 5 * DAY, False])
            if not any(o[0] == "addpat" for o in ops) and rng.random() < 0.3:
                ops = shift_ops(ops, -BASE)           # the same history around the Unix epoch: edges at 0, negative instants
            yield dict(ops=ops)

    def run_impl(self, case):
        return run_ops(case)

    def coq_case(self, case, obs):
        ops, ob = [], []
        it = iter(obs)
        for o in case["ops"]:
            if o[0] == "remove_fetched":
                _, snap, flags = next(it)
                # the model removes the listed intervals one by one; a different number of results is
                # shown to it as one extra / missing removal
                for k, item in enumerate(snap):
                    ops.append(f"(MRemove {civl(item)})")
                    ob.append(f"({clist([cbool(flags[k])] if k < len(flags) else [])}, [])")
                for f in flags[len(snap):]:
                    ops.append("(MSlice 0 1 false)")
                    ob.append(f"({clist([cbool(f)])}, [])")
                continue
            n_ = len(o[1]) if o[0] in ("removemany", "addmany", "rseriesmany") else 1
            if n_ == 0:
                continue
            ops.append(coq_op(o))
            for _ in range(n_):
                fl, res = next(it)
                ob.append(f"({clist([cbool(f) for f in fl])}, {clist([civl(r) for r in res])})")
        return f"(mkMC {clist(ops)} {clist(ob)})"

    def shrink_candidates(self, case):
        ops = case["ops"]
        for i in range(len(ops)):
            if ops[i][0] == "addpat" and any(o[0] == "addpat" and len(o) > 6 for o in ops):
                continue      # a later op refers to pattern objects by position
            if ops[i][0] == "addpat" and any((o[0] in ("remove", "rseries", "add") and len(o) > 4 and o[4])
                                             or (o[0] in ("removemany", "addmany", "rseriesmany") and any(it[3] for it in o[1]))
                                             for o in ops[i + 1:]):
                continue      # dropping a pattern would renumber the series referred to later
            yield dict(ops=ops[:i] + ops[i + 1:])

    def describe(self, case):
        return f"ops={case['ops']}"

    def nontrivial(self, case, obs):
        return (any(e[1] for e in obs if e[0] != "fetched")
                and any(o[0] in ("remove", "rseries", "removemany", "rseriesmany", "remove_fetched") for o in case["ops"]))

    def distribution(self, case, dist):
        for o in case["ops"]:
            dist["op_" + o[0]] += 1
            if o[0] == "add" and len(o) > 4 and o[4]:
                dist["add_static_with_recurring_event_id"] += 1
        if any(o[0] == "slice" and o[3] for o in case["ops"]):
            dist["has_reverse_slice"] += 1

    def perturb(self, case, rng):
        c = copy.deepcopy(case)
        i = rng.randrange(len(c["ops"]) + 1)
        a = BASE + rng.choice([-DAY, 0, DAY, 2 * DAY])
        c["ops"].insert(i, ["slice", a, a + rng.choice([3600, DAY, 4 * DAY]), rng.random() < 0.4])
        return c


class MetaFamily(Family):
    """metadata merge of add(item, **kwargs) with container metadata: all combinations"""
    name = "metadata_merge"
    header = "From CG Require Import Harness.MemChk.\n"
    case_type = "metacase"
    corr = "corr_meta"
    oracle = "oracle_meta"
    n_quick = n_thorough = 1
    rule = "exhaustive: item field in {None,1,2} x keyword in {absent,None,3,4} x container in {absent,None,5}"

    def gen(self, rng, tier, n):
        for item in (None, 1, 2):
            for kw in ("absent", None, 3, 4):
                for cont in ("absent", None, 5):
                    yield dict(item=item, kw=kw, cont=cont)

    def run_impl(self, case):
        md = {} if case["cont"] == "absent" else {"tag": case["cont"]}
        m = MemoryTimeline(metadata=md)

        @dataclass(frozen=True, kw_only=True)
        class TEv(Interval):
            tag: int | None = None
        kwargs = {} if case["kw"] == "absent" else {"tag": case["kw"]}
        mine = TEv(start=0, end=10, tag=case["item"])
        res = m.add(mine, **kwargs)
        if mine != TEv(start=0, end=10, tag=case["item"]):
            return {"err": "add() modified the interval object it was given"}
        stored = list(m[0:10])
        if len(stored) != 1 or not res[0].success:
            return {"err": "unexpected"}
        return [stored[0].tag]

    def coq_case(self, case, obs):
        def on(x):
            return "None" if x is None else f"(Some {x}%N)"
        kw = "None" if case["kw"] == "absent" else f"(Some {on(case['kw'])})"
        ct = "None" if case["cont"] == "absent" else f"(Some {on(case['cont'])})"
        return f"(mkMeta {on(case['item'])} {kw} {ct} {on(obs[0])})"

    def describe(self, case):
        return f"item.tag={case['item']} kwargs.tag={case['kw']} container.tag={case['cont']}"


ASSUME_MEM = ["recurring series are daily UTC patterns (every k days): their occurrences form an arithmetic "
              "progression; general rules are the subject of C07/C08",
              "series ids are compared through their order of addition"]

CHECKS = {"C12": Check("C12", [MemFamily("C12"), MetaFamily("C12")], ASSUME_MEM)}
