"""Property definitions over slices of core expressions (C01-C06)."""
from __future__ import annotations

from .family import Check
from .slicefam import ExprFamily

SET_OPS = ["or", "and", "sub", "inv", "flatten"]
EVENT_OPS = ["or", "and", "sub", "inv", "flatten", "filt_leaf", "buf"]
ALL_OPS = ["or", "and", "sub", "inv", "flatten", "filt", "buf", "mw"]


def depth_for(rng, tier):
    return rng.choice([1, 1, 2, 2, 3, 4 if tier == "thorough" else 3])


def tree_with_leaf_filters(g, rng, depth, ops, leaf_mode=None):
    """ops may contain 'filt_leaf': a filter applied directly to a stored timeline."""
    if depth <= 0 or rng.random() < 0.25:
        lf = g.leaf(leaf_mode)
        if "filt_leaf" in ops and rng.random() < 0.2:
            allrich = all(e[2] is not None for e in lf["evs"])
            return {"op": "filt", "s": lf, "f": g.filt(1, fields=allrich)}
        return lf
    op = rng.choice([o for o in ops if o != "filt_leaf"])
    rec = lambda: tree_with_leaf_filters(g, rng, depth - 1, ops, leaf_mode)
    if op == "sub":
        # subtractors may be arbitrary (nested, overlapping, duplicated) inside the exact domain
        return {"op": op, "l": rec(), "r": g.with_empty_event(tree_with_leaf_filters(g, rng, depth - 1, ops, None))}
    if op in ("or", "and"):
        return {"op": op, "l": rec(), "r": rec()}
    if op in ("inv", "flatten"):
        return {"op": op, "s": rec()}
    if op == "buf":
        return {"op": "buf", "s": rec(), "before": rng.choice([0, 0, 1, 2, 5]), "after": rng.choice([0, 0, 1, 2, 5])}
    raise ValueError(op)


def gen_set_slices(g, rng, tier, n):
    for _ in range(n):
        g.next_id = 1
        t = g.tree(depth_for(rng, tier), SET_OPS)
        a, b = g.window()
        yield dict(tree=t, q=[(a, b, False)])


def gen_event_slices(g, rng, tier, n):
    """Mostly internally disjoint leaves (the exact domain), some arbitrary."""
    for k in range(n):
        g.next_id = 1
        mode = None if k % 4 == 0 else rng.choice(["disjoint", "touch"])
        t = tree_with_leaf_filters(g, rng, depth_for(rng, tier), EVENT_OPS, mode)
        a, b = g.window()
        yield dict(tree=t, q=[(a, b, False)])


def gen_all_slices(g, rng, tier, n):
    for k in range(n):
        g.next_id = 1
        mode = None if k % 2 == 0 else rng.choice(["disjoint", "touch"])
        t = g.tree(depth_for(rng, tier), ALL_OPS, mode)
        a, b = g.window()
        rev = rng.random() < 0.4 and b is not None
        if b is None and rng.random() < 0.3:
            rev = True        # a reverse slice with an open end, [a::-1] / [::-1] (seeded change C03-m14)
        if rng.random() < 0.04:
            # aimed (C03-m14): an event open on one side, cut by subtractors that leave a part beyond
            # the last hole, under a fully open slice in either direction
            sub = g.leaf("disjoint", None)
            o = g.off
            src_ev = [o + rng.choice([0, 1, 2]), None, g.fresh()] if rng.random() < 0.6 else [None, o + g.m - rng.choice([0, 1, 2]), g.fresh()]
            t = {"op": "sub", "l": {"op": "stored", "evs": [src_ev]}, "r": sub}
            a, b, rev = None, None, rng.random() < 0.6
        yield dict(tree=t, q=[(a, b, rev)])


def gen_fwd_rev(g, rng, tier, n):
    for k in range(n):
        g.next_id = 1
        mode = None if k % 4 == 0 else rng.choice(["disjoint", "touch"])
        t = g.tree(depth_for(rng, tier), ALL_OPS, mode)
        a, b = g.window()
        if b is None:
            b = g.off + rng.randrange(0, 9)
            if a is not None and a >= b:
                a = b - 1
        if rng.random() < 0.15 and a is not None:
            yield dict(tree=t, q=[(a, b, False), (b, a, True)])   # bounds written in reverse order
        else:
            yield dict(tree=t, q=[(a, b, False), (a, b, True)])


def gen_nested_windows(g, rng, tier, n):
    for k in range(n):
        g.next_id = 1
        mode = None if k % 4 == 0 else rng.choice(["disjoint", "touch"])
        t = tree_with_leaf_filters(g, rng, depth_for(rng, tier), EVENT_OPS, mode)
        a, b = g.window()
        lo = g.off - 1 if a is None else a
        hi = g.off + 9 if b is None else b
        if hi - lo < 1:
            hi = lo + 1
        a2 = rng.randrange(lo, hi)
        b2 = rng.randrange(a2 + 1, hi + 1)
        if rng.random() < 0.1:
            a2 = a
        if rng.random() < 0.1:
            b2 = b
        yield dict(tree=t, q=[(a, b, False), (a2, b2, False)])


MASK_OPS = ["inv", "flatten", "and_mask", "inv", "flatten"]


def loose_mask(g, rng, depth):
    """A mask timeline that is NOT canonical by itself: a union of masks, or an all-mask
    intersection with such a union as an operand (it emits from its first operand).  Only used
    directly under ~ / flatten, which must canonicalise it."""
    u = {"op": "or", "l": mask_tree(g, rng, depth - 1), "r": mask_tree(g, rng, depth - 1)}
    r = rng.random()
    if r < 0.4:
        return u
    m = mask_tree(g, rng, depth - 1)
    return {"op": "and", "l": u, "r": m} if r < 0.8 else {"op": "and", "l": m, "r": u}


def mask_tree(g, rng, depth):
    """~, flatten and & over masks, on arbitrary stored timelines."""
    r = rng.random()
    if depth <= 0:
        inner = g.tree(rng.choice([0, 0, 1]), ["or", "sub", "and"])
        return {"op": rng.choice(["inv", "flatten"]), "s": inner}
    op = rng.choice(MASK_OPS)
    if op == "and_mask":
        return {"op": "and", "l": mask_tree(g, rng, depth - 1), "r": mask_tree(g, rng, depth - 1)}
    if r < 0.4:
        return {"op": op, "s": mask_tree(g, rng, depth - 1)}
    if r < 0.6:
        return {"op": op, "s": loose_mask(g, rng, depth)}
    inner = g.tree(rng.choice([0, 1, 2]), ["or", "sub", "and"])
    return {"op": op, "s": inner}


def gen_masks(g, rng, tier, n):
    for _ in range(n):
        g.next_id = 1
        t = mask_tree(g, rng, rng.choice([0, 1, 1, 2, 3]))
        a, b = g.window()
        yield dict(tree=t, q=[(a, b, False)])


ASSUME = ["streams are finite lists; user-defined Timeline subclasses are out of scope",
          "leaves are in-memory timelines (MemoryTimeline static storage); recurring leaves are covered by C07/C08"]

def _cache_part(prop, n_quick=500, n_thorough=8000):
    # caches are in the scope of C03/C04/C05: histories of bounded queries on cached(T) in both
    # directions, judged by "each slice = the source's slice, in order" (which is locality for paging)
    from .props_cache import CacheFamily
    return CacheFamily(prop, "oracle_C09", False, n_quick, n_thorough, "cached_histories")


def _spell_part(prop):
    # "writing the two bounds in either order gives the same result", for every spelling of the bounds
    # (ints, aware datetimes of any zone, with sub-second parts): the part is shared with C15
    from .props_pure import SpellFamily
    return SpellFamily(prop)


CHECKS = {
    "C01": Check("C01", [ExprFamily("C01", "s", "oracle_C01", {"D1": "c_noD1"}, gen_set_slices, 6000, 40000)], ASSUME),
    "C02": Check("C02", [ExprFamily("C02", "s", "oracle_events", {"D1": "c_noD1", "D2": "c_noD2"}, gen_event_slices, 6000, 40000)], ASSUME),
    "C03": Check("C03", [ExprFamily("C03", "s", "oracle_C03", {"D1": "c_noD1", "D2": "c_noD2", "D3": "c_noD3"}, gen_all_slices, 6000, 40000), _cache_part("C03")], ASSUME),
    "C04": Check("C04", [ExprFamily("C04", "p", "oracle_C04", {"D1": "p_noD1", "D2": "p_noD2", "D3": "p_noD3"}, gen_fwd_rev, 5000, 30000), _cache_part("C04"), _spell_part("C04")], ASSUME),
    "C05": Check("C05", [ExprFamily("C05", "p", "oracle_C05", {"D1": "p_noD1", "D2": "p_noD2"}, gen_nested_windows, 5000, 30000), _cache_part("C05")], ASSUME),
    "C06": Check("C06", [ExprFamily("C06", "s", "oracle_C06", {}, gen_masks, 6000, 40000)], ASSUME),
}
