"""C20: the Google Calendar adapter (calgebra/gcsa.py) converts faithfully and reads back what it writes.

The real Google API is out of reach: the backend is the SIMULATION harness/gcsa_fake.py (trusted), a fake
of the gcsa client in which every call can be made to fail.  Histories (reads in both directions, slices,
add / batch add / add pattern / remove / remove_series) run against the real Calendar class over that fake,
are compared with the Gallina model Model/Gcsa.v (correspondence: outputs and call counts), and judged by
the abstract machine of Spec/GcsaSpec.v (oracle).

  read_conversion   random event stores (timed in several presentations and zones, all-day, multi-day,
                    events without id/summary/end, recurring masters, events on and across 30-day page
                    edges) x windows x both directions
  histories         write/read histories without failures
  fault_injection   histories with the backend failing at every call index in turn
Tie B: harness/translate/guardfacts.py regenerates coq/Gen/GuardFacts.v from the source on every run."""
from __future__ import annotations

import copy
import os
import re
import shutil
import subprocess
from datetime import date, datetime, timedelta, timezone
from functools import lru_cache
from zoneinfo import ZoneInfo

from .common import BUILD, COQ, REPO, cbool, clist, cz, ensure_repo_import, run_coqc
from .family import Check, Family
from .gcsa_fake import (DAY, FakeGoogleCalendar, Stored, WD, dn, fmt_exdate, midnight, nd, parse_exdate)

ensure_repo_import()
from calgebra.gcsa import Calendar, Event, Reminder  # noqa: E402
from calgebra.recurrence import RecurringPattern  # noqa: E402

H = 3600
CAL_ZONES = ["UTC", "America/Los_Angeles", "Europe/Berlin", "Asia/Tokyo", "Australia/Sydney", "Asia/Kolkata"]
EV_ZONES = CAL_ZONES + ["America/New_York"]
DAYNAMES = ["monday", "tuesday", "wednesday", "thursday", "friday", "saturday", "sunday"]
EPOCH_ORD = date(1970, 1, 1).toordinal()
SCAN_LO = 0
SCAN_HI = (date(2040, 1, 1).toordinal() - EPOCH_ORD) * DAY


# --------------------------------------------------------------------------------------------
# zone tables exported from the installed zoneinfo on every run

def _off(tz, t):
    return int(datetime.fromtimestamp(t, tz).utcoffset().total_seconds())


@lru_cache(maxsize=None)
def zone_table(name: str):
    """(offset before the first change, [(T, offset from T on), ...]) for 1970 <= T < 2040: every change of
    the UTC offset, located to the second by bisection"""
    tz = ZoneInfo(name)
    step = 6 * H
    t = SCAN_LO
    cur = off0 = _off(tz, t)
    out = []
    while t < SCAN_HI:
        nxt = t + step
        o = _off(tz, nxt)
        if o != cur:
            lo, hi = t, nxt
            while hi - lo > 1:
                mid = (lo + hi) // 2
                if _off(tz, mid) == cur:
                    lo = mid
                else:
                    hi = mid
            cur = _off(tz, hi)
            out.append((hi, cur))
            if cur != o:
                nxt = hi
        t = nxt
    return off0, out


def zname(name):
    return "utc_zone" if name is None else "gz_" + name.replace("/", "_").replace("-", "_")


_ZONES_BUILT = set()


def coq_header(prop: str) -> str:
    """zone tables are big literals: compiled once per run into build/<prop>/GcsaZones.vo"""
    d = BUILD / prop
    if prop not in _ZONES_BUILT:
        d.mkdir(parents=True, exist_ok=True)
        src = ["From CG Require Export Harness.GcsaChk."]
        # the model compares zones by table where the adapter compares them by name
        tables = [repr(zone_table(z)) for z in EV_ZONES]
        assert len(set(tables)) == len(tables), "two zone names share one table"
        for z in EV_ZONES:
            off0, tr = zone_table(z)
            src.append(f"Definition {zname(z)} : zone := (mkZone {cz(off0)} "
                       + clist([f"({cz(T)}, {cz(o)})" for T, o in tr]) + ").")
        f = d / "GcsaZones.v"
        f.write_text("\n".join(src) + "\n")
        subprocess.run(["flock", str(COQ / ".lock"), "true"])      # wait for a running make
        rc, out, err = run_coqc(f)
        if rc != 0:
            raise RuntimeError(f"coqc failed on {f}: {err[-2000:]}")
        sub = d / f"p{os.getpid()}"
        sub.mkdir(parents=True, exist_ok=True)
        shutil.copy(f.with_suffix(".vo"), sub / "GcsaZones.vo")
        _ZONES_BUILT.add(prop)
    return "Require Import GcsaZones.\n"


# --------------------------------------------------------------------------------------------
# running a history against the real adapter over the fake backend

def rec_bound(rec):
    """the UNTIL / COUNT part of a backend-authored rule: (text, Coq token) or None.
    rec["until"] = ["t", instant] (UNTIL=YYYYMMDDTHHMMSSZ) | ["d", day number] (UNTIL=YYYYMMDD)"""
    u, c = rec.get("until"), rec.get("count")
    if u is not None and u[0] == "t":
        return "UNTIL=" + fmt_exdate(u[1]), f"(TUntil {c_exd(u[1])})"
    if u is not None:
        return "UNTIL=" + nd(u[1]).strftime("%Y%m%d"), f"(TUntilD {cz(u[1])})"
    if c is not None:
        return f"COUNT={c}", f"(TCount {cz(c)})"
    return None


def rec_parts(rec):
    """the ';'-separated parts of the RRULE line, each with its Coq token.  The bound sits right after
    FREQ (where Google's own UI writes it), after the rule parts, or after the EXDATE parts."""
    out = [("FREQ=" + ("WEEKLY" if rec["weekly"] else "DAILY"), "TRule")]
    bound, pos = rec_bound(rec), rec.get("bpos", "head")
    if bound and pos == "freq":
        out.append(bound)
    if rec["interval"] != 1:
        out.append((f"INTERVAL={rec['interval']}", "TRule"))
    if rec["byday"]:
        out.append(("BYDAY=" + ",".join(WD[d] for d in rec["byday"]), "TRule"))
    if bound and pos == "head":
        out.append(bound)
    for p in rec["parts"]:
        out.append(("EXDATE:" + ",".join(fmt_exdate(t) for t in p), "(TEx " + clist([c_exd(t) for t in p]) + ")"))
    if bound and pos == "tail":
        out.append(bound)
    return out


def rec_lines(rec):
    lines = ["RRULE:" + ";".join(t for t, _ in rec_parts(rec))]
    if rec["extra"]:
        lines.append("EXDATE:" + ",".join(fmt_exdate(t) for t in rec["extra"]))
    return lines


def mk_stored(ev):
    return Stored(id=None if ev["id"] is None else f"e{ev['id']}",
                  summary=None if ev["sum"] is None else f"s{ev['sum']}",
                  description=None if ev["desc"] is None else f"d{ev['desc']}",
                  tz=ev["tz"], reminders=[("email" if m else "popup", k) for m, k in ev["rem"]],
                  default_reminders=ev["defrem"], all_day=ev["allday"], s=ev["s"], e=ev["e"], pres=ev["pres"],
                  recurrence=rec_lines(ev["rec"]) if ev["rec"] else None)


_ID = re.compile(r"e(\d+)(?:_(\d{8}T\d{6}Z))?$")


def parse_id(s):
    m = _ID.match(s)
    if not m:
        raise ValueError(f"unexpected id {s!r}")
    return [int(m.group(1)), None if m.group(2) is None else parse_exdate(m.group(2))]


def obs_ev(e):
    rid = None if e.recurring_event_id is None else parse_id(e.recurring_event_id)[0]
    rem = None if e.reminders is None else [[r.method == "email", r.minutes] for r in e.reminders]
    return [parse_id(e.id), int(e.summary[1:]), None if e.description is None else int(e.description[1:]),
            rid, bool(e.is_all_day), rem, e.start, e.end]


def mk_event(w):
    rem = None if w["rem"] is None else [Reminder(method="email" if m else "popup", minutes=k) for m, k in w["rem"]]
    return Event(start=w["s"], end=w["e"], summary=f"s{w['sum']}",
                 description=None if w["desc"] is None else f"d{w['desc']}", is_all_day=w["allday"], reminders=rem)


def mk_pattern(p):
    kw = dict(interval=p["interval"], start=p["anchor"], duration=p["dur"], tz=p["tz"], exdates=p["ex"] or None)
    if p["weekly"]:
        return RecurringPattern("weekly", day=[DAYNAMES[d] for d in p["byday"]], **kw)
    return RecurringPattern("daily", **kw)


def horizon(case):
    los, his = [], []
    for op in case["ops"]:
        if op[0] in ("fetch", "slice"):
            lo, hi = op[1], op[2]
            if hi is not None:
                his.append(hi)
                los.append(lo if lo is not None else hi - 365 * DAY)
            elif lo is not None:
                los.append(lo)
                his.append(lo + 800 * DAY)
    if not los:
        return None
    return min(los), max(his)


def run_history(case):
    """-> dict(outs=[...], occ={op index: [[s, e], ...]})"""
    fake = FakeGoogleCalendar(case["zone"], [mk_stored(e) for e in case["store"]], case["fail"])
    fake.next_id = case["next"]
    cal = Calendar("cal", "Cal", client=fake)
    outs, objs, occs = [], [], {}
    hz = horizon(case)

    def wres(results, with_event):
        r = []
        for x in results:
            if x.success and with_event:
                ev = x.event
                r.append([True, [parse_id(ev.id), ev.start, ev.end, bool(ev.is_all_day)]])
            else:
                r.append([bool(x.success), None])
        return r

    for i, op in enumerate(case["ops"]):
        kind = op[0]
        evs = None
        try:
            if kind == "fetch":
                evs = list(cal.fetch(op[1], op[2], reverse=op[3]))
                out = dict(t="read", raised=False, evs=[obs_ev(e) for e in evs])
            elif kind == "slice":
                evs = list(cal[op[1]:op[2]:-1] if op[3] else cal[op[1]:op[2]])
                out = dict(t="read", raised=False, evs=[obs_ev(e) for e in evs])
            elif kind == "add":
                res = cal.add(mk_event(op[1]))
                evs = [x.event if x.success else None for x in res]
                out = dict(t="write", raised=False, res=wres(res, True))
            elif kind == "addmany":
                res = cal.add(iter([mk_event(w) for w in op[1]]))
                evs = [x.event if x.success else None for x in res]
                out = dict(t="write", raised=False, res=wres(res, True))
            elif kind == "addrec":
                p = op[1]
                pat = mk_pattern(p)
                if hz is not None:
                    lo = max(hz[0] - p["dur"] - DAY, p["anchor"])
                    occs[i] = [[x.start, x.end] for x in pat.fetch(lo, hz[1] + DAY) if x.start >= p["anchor"]]
                else:
                    occs[i] = []
                res = cal.add(pat, summary=f"s{p['sum']}")
                evs = [x.event if x.success else None for x in res]
                out = dict(t="write", raised=False, res=wres(res, True))
            elif kind in ("remove", "rseries"):
                tgt = None
                if op[1] < len(objs) and objs[op[1]] is not None and op[2] < len(objs[op[1]]):
                    tgt = objs[op[1]][op[2]]
                if tgt is None:
                    out = dict(t="skip")
                else:
                    res = cal.remove(tgt) if kind == "remove" else cal.remove_series(tgt)
                    out = dict(t="write", raised=False, res=wres(res, False))
            else:
                raise ValueError(kind)
        except Exception as ex:                                  # an exception escaped from the adapter
            out = dict(t="read" if kind in ("fetch", "slice") else "write", raised=True,
                       exc=type(ex).__name__ + ": " + str(ex)[:120])
            evs = None
        out["calls"] = fake.calls
        outs.append(out)
        objs.append(evs)
    return dict(outs=outs, occ=occs, log=fake.log)


# --------------------------------------------------------------------------------------------
# Coq terms

def con(x):
    return "None" if x is None else f"(Some {x}%N)"


def coz(x):
    return "None" if x is None else f"(Some {cz(x)})"


def c_exd(t):
    d = datetime.fromtimestamp(t, timezone.utc)
    return f"({d.year}, {d.month}, {d.day}, {d.hour}, {d.minute}, {d.second})"


def c_rems(l):
    return clist([f"({cbool(m)}, {cz(k)})" for m, k in l])


def c_orems(l):
    return "None" if l is None else f"(Some {c_rems(l)})"


def c_rec(rec):
    toks = [k for _, k in rec_parts(rec)]
    return (f"(mkR {cbool(rec['weekly'])} {cz(rec['interval'])} {clist([cz(d) for d in rec['byday']])} "
            f"{clist(toks)} {clist([c_exd(t) for t in rec['extra']])})")


def c_sev(ev):
    tz = "None" if ev["tz"] is None else f"(Some {zname(ev['tz'])})"
    pres = {"zone": "KZone", "fixed": "KFixed", "naive": "KNaive"}[ev["pres"]]
    rec = "None" if not ev["rec"] else f"(Some {c_rec(ev['rec'])})"
    return (f"(mkSev {con(ev['id'])} {con(ev['sum'])} {con(ev['desc'])} {tz} {c_rems(ev['rem'])} {cbool(ev['defrem'])} "
            f"{cbool(ev['allday'])} {cz(ev['s'])} {coz(ev['e'])} {pres} {rec})")


def c_eid(i):
    return f"(EId {i[0]}%N)" if i[1] is None else f"(EInst {i[0]}%N {cz(i[1])})"


def c_aev(e):
    i, sm, ds, rid, ad, rem, s, en = e
    return f"(mkE {c_eid(i)} {sm}%N {con(ds)} {con(rid)} {cbool(ad)} {c_orems(rem)} {cz(s)} {cz(en)})"


def c_wev(w):
    ad = "None" if w["allday"] is None else f"(Some {cbool(w['allday'])})"
    return f"(mkW {w['sum']}%N {con(w['desc'])} {c_orems(w['rem'])} {ad} {cz(w['s'])} {cz(w['e'])})"


def c_op(op, occ):
    k = op[0]
    if k == "fetch":
        return f"(OFetch {coz(op[1])} {coz(op[2])} {cbool(op[3])})"
    if k == "slice":
        return f"(OSlice {cz(op[1])} {cz(op[2])} {cbool(op[3])})"
    if k == "add":
        return f"(OAdd {c_wev(op[1])})"
    if k == "addmany":
        return f"(OAddMany {clist([c_wev(w) for w in op[1]])})"
    if k == "addrec":
        p = op[1]
        return (f"(OAddRec (mkP {cbool(p['weekly'])} {cz(p['interval'])} {clist([cz(d) for d in p['byday']])} "
                f"{cz(p['anchor'])} {cz(p['dur'])} {zname(p['tz'])} {p['sum']}%N {clist([cz(t) for t in p['ex']])}) "
                + clist([f"({cz(s)}, {cz(e)})" for s, e in occ]) + ")")
    if k == "remove":
        return f"(ORemove {op[1]}%nat {op[2]}%nat)"
    return f"(ORemoveSeries {op[1]}%nat {op[2]}%nat)"


def c_out(o):
    if o["t"] == "skip":
        x = "OSkip"
    elif o["t"] == "read":
        x = "(ORead None)" if o["raised"] else f"(ORead (Some {clist([c_aev(e) for e in o['evs']])}))"
    else:
        if o["raised"]:
            x = "(OWrite None)"
        else:
            rs = []
            for ok, ev in o["res"]:
                if ev is None:
                    rs.append(f"({cbool(ok)}, None)")
                else:
                    rs.append(f"({cbool(ok)}, Some ({c_eid(ev[0])}, {cz(ev[1])}, {cz(ev[2])}, {cbool(ev[3])}))")
            x = f"(OWrite (Some {clist(rs)}))"
    return f"({x}, {o['calls']}%nat)"


def coq_case(case, obs):
    occ = obs["occ"]
    ops = clist([c_op(op, occ.get(i, occ.get(str(i), []))) for i, op in enumerate(case["ops"])])
    return (f"(mkGC {zname(case['zone'])} {clist([c_sev(e) for e in case['store']])} {case['next']}%N "
            f"{clist([f"{i}%nat" for i in case['fail']])} {ops} {clist([c_out(o) for o in obs['outs']])})")


# --------------------------------------------------------------------------------------------
# generation

BASES = [int(datetime(2025, 3, 1, tzinfo=timezone.utc).timestamp()),
         int(datetime(2025, 10, 1, tzinfo=timezone.utc).timestamp()),
         int(datetime(2024, 12, 20, tzinfo=timezone.utc).timestamp())]


def local_midnight(zone, day):
    return midnight(ZoneInfo(zone), day)


def dst_days(zone, lo, hi):
    """day numbers (local dates) on which the zone changes its offset, within [lo, hi)"""
    _, tr = zone_table(zone)
    z = ZoneInfo(zone)
    return [dn(datetime.fromtimestamp(T, z).date()) for T, _ in tr if lo <= T < hi]


def gen_rems(rng):
    r = rng.random()
    if r < 0.6:
        return [], False
    if r < 0.7:
        return [], True
    return [[rng.random() < 0.5, rng.choice([0, 5, 10, 30, 1440])] for _ in range(rng.choice([1, 2]))], False


def gen_store_event(rng, zone, eid, lo, hi, edges):
    """one stored single event placed with respect to the window [lo, hi) and its page edges"""
    rem, defrem = gen_rems(rng)
    ev = dict(id=eid, sum=rng.choice([1, 2, 3, 4]), desc=rng.choice([None, None, 7, 8]), tz=None, rem=rem,
              defrem=defrem, allday=False, s=0, e=0, pres="zone", rec=None)
    r = rng.random()
    if r < 0.08:
        ev["id"] = None
    elif r < 0.16:
        ev["sum"] = None
    if rng.random() < 0.45:                                 # all-day
        ev["allday"] = True
        specials = dst_days(zone, lo - 3 * DAY, hi + 3 * DAY)
        if specials and rng.random() < 0.4:
            d0 = rng.choice(specials) + rng.choice([-1, 0, 0, 1])
        elif rng.random() < 0.5:
            d0 = rng.choice(edges + [lo, hi]) // DAY + rng.choice([-2, -1, 0, 1])
        else:
            d0 = rng.randrange(lo // DAY - 3, hi // DAY + 3)
        ev["s"], ev["e"] = d0, d0 + rng.choice([1, 1, 1, 2, 3, 7])
        ev["tz"] = rng.choice([None, None, rng.choice(EV_ZONES)])
        if rng.random() < 0.06:
            ev["e"] = None
        return ev
    ev["tz"] = rng.choice([None] + EV_ZONES)
    ev["pres"] = rng.choice(["zone", "zone", "fixed", "fixed", "naive"])
    q = rng.random()
    if q < 0.45:                                            # on or across a page edge / window bound
        edge = rng.choice(edges + [lo, hi])
        s = edge - rng.choice([0, 1, H, 5 * H, DAY, 3 * DAY])
        e = edge + rng.choice([0, 1, H, 5 * H, DAY, 40 * DAY])
        if e < s:
            e = s
    elif q < 0.6:                                           # local midnight to local midnight (24 h heuristics)
        z = ev["tz"] or zone
        d0 = rng.randrange(lo // DAY - 2, hi // DAY + 2)
        s = local_midnight(z, d0)
        e = local_midnight(z, d0 + rng.choice([1, 1, 2])) + rng.choice([0, 0, 1800, H, H + 1, -H])
    else:
        s = rng.randrange(lo - 3 * DAY, hi + 3 * DAY)
        s -= s % rng.choice([1, 60, 900, H])
        e = s + rng.choice([0, 1, 900, H, 2 * H, 26 * H, 31 * DAY])
    if ev["pres"] == "naive":
        z = ZoneInfo(ev["tz"] or "UTC")
        if datetime.fromtimestamp(s, z).time() == datetime.min.time():
            s += 900             # a naive midnight start would trip the all-day heuristic (stub-only data)
            e = max(e, s)
    ev["s"], ev["e"] = s, e
    if rng.random() < 0.06:
        ev["e"] = None
    return ev


def gen_master(rng, zone, eid, lo, hi):
    """a recurring master in the initial store"""
    allday = rng.random() < 0.35
    weekly = rng.random() < 0.4
    interval = rng.choice([1, 1, 2, 3])
    start_day = rng.randrange(lo // DAY - 20, lo // DAY + 10)
    byday = []
    if weekly:
        byday = sorted(set([(start_day + 3) % 7] + rng.sample(range(7), rng.choice([0, 1, 2]))))
    rem, defrem = gen_rems(rng)
    ev = dict(id=eid, sum=rng.choice([5, 6]), desc=rng.choice([None, 9]), tz=None, rem=rem, defrem=defrem,
              allday=allday, pres="zone", rec=dict(weekly=weekly, interval=interval, byday=byday, parts=[], extra=[]))
    if allday:
        ev["s"], ev["e"] = start_day, start_day + rng.choice([1, 1, 2])
    else:
        tz = rng.choice(EV_ZONES)
        ev["tz"] = tz
        sod = rng.choice([0, 9 * H, 18 * H, 23 * H, 12 * H + 1800])
        s = int((datetime(1970, 1, 1) + timedelta(days=start_day, seconds=sod)).replace(tzinfo=ZoneInfo(tz)).timestamp())
        ev["s"], ev["e"] = s, s + rng.choice([H, 2 * H, 3 * H, DAY, 26 * H])
        ev["pres"] = rng.choice(["zone", "fixed"])
    # a series written by another client: bounded by UNTIL (inclusive: the last occurrence may start exactly
    # at UNTIL; as an instant or as a date) or by COUNT, the last occurrence preferably inside the window
    last = None
    if rng.random() < 0.55:
        fk = FakeGoogleCalendar(zone, [mk_stored(ev)])
        full = fk.instances(fk.store[0], None, hi + 5 * DAY)            # from the master on
        inside = [i for i, (s, _) in enumerate(full) if lo <= s < hi]
        if full:
            i = rng.choice(inside[:6] + inside[-2:]) if inside and rng.random() < 0.85 else rng.randrange(len(full))
            last = full[i][0]
            day = full[i][1][0] if allday else dn(datetime.fromtimestamp(last, ZoneInfo(ev["tz"])).date())
            r = rng.random()
            if r < 0.4:
                ev["rec"]["until"] = ["t", last]                        # the last occurrence starts AT UNTIL
            elif r < 0.55:
                ev["rec"]["until"] = ["t", last + rng.choice([1, H, 86399 - last % DAY if last % DAY < 82000 else 1])]
            elif r < 0.62:
                ev["rec"]["until"] = ["t", last - 1]                    # ... just before it: it is out
            elif r < 0.8:
                ev["rec"]["until"] = ["d", day]
            else:
                ev["rec"]["count"] = i + 1
            ev["rec"]["bpos"] = rng.choice(["freq", "head", "head", "tail"])
    # exclude a few instances the way the adapter writes them, and on a line of their own
    fk = FakeGoogleCalendar(zone, [mk_stored(ev)])
    inst = [s for s, _ in fk.instances(fk.store[0], lo - 5 * DAY, hi + 5 * DAY)]
    if inst and rng.random() < 0.5:
        ev["rec"]["parts"] = [sorted(rng.sample(inst, min(len(inst), rng.choice([1, 2]))))]
    if inst and rng.random() < 0.2:
        ev["rec"]["extra"] = [rng.choice(inst)]
    if last is not None and rng.random() < 0.12:                        # the last occurrence is excluded already
        if ev["rec"]["parts"] and rng.random() < 0.5:
            ev["rec"]["parts"] = [sorted(set(ev["rec"]["parts"][0] + [last]))]
        else:
            ev["rec"]["extra"] = sorted(set(ev["rec"]["extra"] + [last]))
    return ev


def gen_window(rng):
    base = rng.choice(BASES)
    hi = base + rng.choice([0, 1, 7 * H, 12 * H + 30, 5 * DAY + 3 * H])
    span = rng.choice([H, DAY, 29 * DAY, 30 * DAY, 30 * DAY + 1, 31 * DAY, 59 * DAY + 5 * H, 60 * DAY, 61 * DAY,
                       90 * DAY, 95 * DAY + 7])
    lo = hi - span
    edges = [hi - k * 30 * DAY for k in range(1, span // (30 * DAY) + 2) if hi - k * 30 * DAY >= lo - DAY]
    return lo, hi, edges or [lo]


def gen_wev(rng, zone, lo, hi):
    rem = rng.choice([None, None, None, [[True, 10]], [[False, 30], [True, 1440]]])
    w = dict(sum=rng.choice([11, 12, 13]), desc=rng.choice([None, 21]), rem=rem, allday=None, s=0, e=0)
    r = rng.random()
    if r < 0.5:                         # whole local days of the calendar: inferred (or declared) all-day
        days = dst_days(zone, lo - 40 * DAY, hi + 40 * DAY)
        d0 = (rng.choice(days) + rng.choice([-1, 0, 0, 1])) if days and rng.random() < 0.4 \
            else rng.randrange(lo // DAY - 1, hi // DAY + 1)
        w["s"] = local_midnight(zone, d0)
        w["e"] = local_midnight(zone, d0 + rng.choice([1, 1, 2, 3]))
        w["allday"] = rng.choice([None, None, None, True, False])
    elif r < 0.6:                       # UTC midnights (all-day only on a UTC calendar)
        d0 = rng.randrange(lo // DAY - 1, hi // DAY + 1)
        w["s"], w["e"] = d0 * DAY, (d0 + 1) * DAY
    else:
        s = rng.randrange(lo - DAY, hi + DAY)
        s -= s % rng.choice([1, 60, H])
        w["s"], w["e"] = s, s + rng.choice([1, 900, H, 3 * H, DAY, 26 * H, 35 * DAY])
        w["allday"] = rng.choice([None, None, False])
    return w


def gen_wpat(rng, zone, lo, hi):
    tz = rng.choice([zone, zone, "UTC", rng.choice(EV_ZONES)])
    weekly = rng.random() < 0.4
    interval = rng.choice([1, 1, 2])
    day0 = rng.randrange(lo // DAY - 12, lo // DAY + 3)
    r = rng.random()
    if r < 0.35:
        sod, dur = 0, DAY                                   # whole days of the pattern's zone
    elif r < 0.45:
        sod, dur = 9 * H, DAY                               # 24 h from 09:00
    else:
        sod, dur = rng.choice([9 * H, 18 * H, 23 * H, 12 * H + 1800, 0]), rng.choice([H, 2 * H, 90 * 60, 26 * H])
    anchor = int((datetime(1970, 1, 1) + timedelta(days=day0, seconds=sod)).replace(tzinfo=ZoneInfo(tz)).timestamp())
    byday = []
    if weekly:
        wd = (day0 + 3) % 7
        byday = sorted(set([wd] + rng.sample(range(7), rng.choice([0, 1, 2]))))
    p = dict(weekly=weekly, interval=interval, byday=byday, anchor=anchor, dur=dur, tz=tz, sum=rng.choice([31, 32]), ex=[])
    if rng.random() < 0.3:
        occ = [x.start for x in mk_pattern(p).fetch(anchor, anchor + 30 * DAY) if x.start >= anchor]
        p["ex"] = sorted(rng.sample(occ, min(len(occ), rng.choice([1, 2]))))
    return p


def next_id(store):
    return 1 + max([e["id"] for e in store if e["id"] is not None], default=0)


def listing(zone, store, a, b):
    """what a forward read of [a, b) over the initial store presents, by the simulation alone: for every
    presented event the id of its series (None for a single event), in order.  Used to aim removals."""
    fk = FakeGoogleCalendar(zone, [mk_stored(e) for e in store])
    evs = fk.get_events(time_min=datetime.fromtimestamp(a, timezone.utc), time_max=datetime.fromtimestamp(b, timezone.utc),
                        single_events=True, order_by="startTime")
    return [g.recurring_event_id for g in evs if g.id is not None and g.summary is not None and g.end is not None]


def aimed_removals(rng, zone, store, lo, hi, ops, reads):
    """a read of the whole window followed by removals aimed at the instances of one series of the initial
    store: its last occurrence (for a series bounded by UNTIL the one that may start exactly at UNTIL), the
    first, one in the middle, the same one again, and the series itself"""
    masters = [e for e in store if e["rec"] and e["id"] is not None and e["sum"] is not None]
    if not masters:
        return
    bounded = [e for e in masters if e["rec"].get("until") or e["rec"].get("count")]
    m = rng.choice(bounded if bounded and rng.random() < 0.8 else masters)
    a, b = lo - rng.choice([0, DAY, 3 * DAY]), hi + rng.choice([0, DAY, 3 * DAY])
    rv = rng.random() < 0.3
    rows = listing(zone, store, a, b)
    pos = [i for i, rid in enumerate(rows) if rid == f"e{m['id']}"]
    if not pos:
        return
    if rv:
        pos = [len(rows) - 1 - i for i in pos][::-1]       # the reverse read lists them backwards
        last, first = pos[0], pos[-1]
    else:
        last, first = pos[-1], pos[0]
    ops.append(["fetch", a, b, rv])
    ref = len(ops) - 1
    reads.append(ref)
    prev = None
    for _ in range(rng.choice([1, 2, 2, 3])):
        what = rng.choice(["last", "last", "last", "mid", "first", "again"])
        k = {"last": last, "first": first, "mid": rng.choice(pos)}.get(what, prev if prev is not None else last)
        ops.append(["remove", ref, k])
        prev = k
        if rng.random() < 0.4:
            ops.append(["fetch", a, b, rng.random() < 0.3])
            reads.append(len(ops) - 1)
    if rng.random() < 0.2:
        ops.append(["rseries", ref, rng.choice(pos)])


def gen_history(rng, with_slices, nops):
    zone = rng.choice(CAL_ZONES)
    lo, hi, edges = gen_window(rng)
    if hi - lo > 61 * DAY:
        lo = hi - rng.choice([DAY, 20 * DAY, 31 * DAY, 45 * DAY])
    store = []
    for k in range(rng.choice([0, 1, 2, 3])):
        store.append(gen_store_event(rng, zone, k + 1, lo, hi, edges) if rng.random() < 0.7
                     else gen_master(rng, zone, k + 1, lo, hi))
    ops, reads = [], []
    if rng.random() < 0.75:
        aimed_removals(rng, zone, store, lo, hi, ops, reads)

    def read():
        a = lo - rng.choice([0, 0, DAY, 3 * DAY])
        b = hi + rng.choice([0, 0, DAY, 3 * DAY])
        if rng.random() < 0.25:
            a = b - rng.choice([DAY, 5 * DAY, 31 * DAY])
        if with_slices and rng.random() < 0.35:
            ops.append(["slice", a, b, rng.random() < 0.4])
        else:
            ops.append(["fetch", a, b, rng.random() < 0.4])
            reads.append(len(ops) - 1)

    adds = []
    for _ in range(nops):
        r = rng.random()
        if r < 0.2:
            ops.append(["add", gen_wev(rng, zone, lo, hi)])
            adds.append(len(ops) - 1)
        elif r < 0.3:
            ops.append(["addmany", [gen_wev(rng, zone, lo, hi) for _ in range(rng.choice([1, 2, 3, 3, 11, 12, 23]))]])
            adds.append(len(ops) - 1)
        elif r < 0.42:
            ops.append(["addrec", gen_wpat(rng, zone, lo, hi)])
            adds.append(len(ops) - 1)
        elif r < 0.7 and (reads or adds):
            kind = rng.choice(["remove", "remove", "rseries"])
            ref = rng.choice(reads) if reads and (not adds or rng.random() < 0.75) else rng.choice(adds)
            ops.append([kind, ref, rng.choice([0, 0, 1, 2, 3, 5])])
        else:
            read()
    read()
    return dict(zone=zone, store=store, next=next_id(store), fail=[], ops=ops)


class GcsaFamily(Family):
    case_type = "gcase"
    corr = "corr_gcsa"
    oracle = "oracle_C20"
    shard = 60

    @property
    def header(self):
        return coq_header(self.prop)

    def run_impl(self, case):
        try:
            return run_history(case)
        except Exception as ex:           # the harness itself failed (not the adapter)
            return {"err": type(ex).__name__ + ": " + str(ex)[:200]}

    def coq_case(self, case, obs):
        return coq_case(case, obs)

    def describe(self, case):
        return (f"calendar zone {case['zone']}, fail={case['fail']}, store={len(case['store'])} events, "
                f"ops={case['ops']}")[:600]

    def shrink_candidates(self, case):
        ops = case["ops"]
        for i in range(len(ops)):
            if any(o[0] in ("remove", "rseries") and o[1] >= i for o in ops[i + 1:]) and i < len(ops) - 1:
                # dropping an earlier op renumbers the references: shift them
                new = []
                ok = True
                for j, o in enumerate(ops):
                    if j == i:
                        continue
                    if o[0] in ("remove", "rseries"):
                        if o[1] == i:
                            ok = False
                            break
                        o = [o[0], o[1] - 1 if o[1] > i else o[1], o[2]]
                    new.append(o)
                if ok and not case["fail"]:
                    yield dict(case, ops=new)
                continue
            if not case["fail"]:
                yield dict(case, ops=ops[:i] + ops[i + 1:])
        for i in range(len(case["store"])):
            st = case["store"][:i] + case["store"][i + 1:]
            yield dict(case, store=st)

    def distribution(self, case, dist):
        dist["zone_" + case["zone"]] += 1
        for o in case["ops"]:
            dist["op_" + o[0] + ("_rev" if o[0] in ("fetch", "slice") and o[3] else "")] += 1
        for e in case["store"]:
            dist["store_" + ("master" if e["rec"] else "allday" if e["allday"] else "timed_" + e["pres"])] += 1
            if e["rec"]:
                u = e["rec"].get("until")
                dist["master_" + ("until_instant" if u and u[0] == "t" else "until_date" if u else
                                  "count" if e["rec"].get("count") else "unbounded")] += 1


# --------------------------------------------------------------------------------------------
# fixed corpus: the reproducers of the defects found through this property (all repaired)

B0 = BASES[0]


def _ev(i, s, e, **kw):
    d = dict(id=i, sum=1, desc=None, tz="UTC", rem=[], defrem=False, allday=False, s=s, e=e, pres="zone", rec=None)
    d.update(kw)
    return d


def _w(s, e, allday=None):
    return dict(sum=11, desc=None, rem=None, allday=allday, s=s, e=e)


def corpus_read():
    # D8: an event across the inner page edge; N5: an empty event exactly on it
    yield dict(zone="UTC", store=[_ev(1, B0 + 29 * DAY + 23 * H, B0 + 30 * DAY + H)], next=2, fail=[],
               ops=[["fetch", B0, B0 + 60 * DAY, False], ["fetch", B0, B0 + 60 * DAY, True]])
    yield dict(zone="UTC", store=[_ev(1, B0 + 30 * DAY, B0 + 30 * DAY)], next=2, fail=[],
               ops=[["fetch", B0, B0 + 60 * DAY, False], ["fetch", B0, B0 + 60 * DAY, True]])


def corpus_hist():
    for z in CAL_ZONES:                                    # D16: whole local day written and read back
        d0 = dn(date(2025, 6, 10))
        s, e = local_midnight(z, d0), local_midnight(z, d0 + 1)
        yield dict(zone=z, store=[], next=1, fail=[],
                   ops=[["add", _w(s, e)], ["fetch", s - 5 * DAY, e + 5 * DAY, False]])
        # D16 in _add_recurring: all-day every 2 days
        yield dict(zone=z, store=[], next=1, fail=[],
                   ops=[["addrec", dict(weekly=False, interval=2, byday=[], anchor=s, dur=DAY, tz=z, sum=31, ex=[])],
                        ["fetch", s, s + 9 * DAY, False]])
    # N2: 24 hours from 09:00 is not an all-day series
    yield dict(zone="UTC", store=[], next=1, fail=[],
               ops=[["addrec", dict(weekly=False, interval=1, byday=[], anchor=B0 + 9 * H, dur=DAY, tz="UTC", sum=31, ex=[])],
                    ["fetch", B0 + 9 * H, B0 + 4 * DAY, False]])
    # N3: a master with an EXDATE line of its own keeps it when another instance is removed
    s0 = B0 + 9 * H
    yield dict(zone="UTC", next=2, fail=[],
               store=[_ev(1, s0, s0 + H, rec=dict(weekly=False, interval=1, byday=[], parts=[], extra=[s0 + 2 * DAY]))],
               ops=[["fetch", B0, B0 + 5 * DAY, False], ["remove", 0, 0], ["fetch", B0, B0 + 5 * DAY, False]])
    # series written by another client, bounded by UNTIL (inclusive) / COUNT: a middle occurrence and then the
    # LAST one (which starts exactly at UNTIL) are removed, the last one twice, and the range is read again
    mon = int(datetime(2025, 1, 6, 10, 0, tzinfo=timezone.utc).timestamp())
    jan1, mar1 = mon - 5 * DAY - 10 * H, mon + 54 * DAY
    for bound in (dict(until=["t", mon + 21 * DAY], bpos="freq"), dict(until=["t", mon + 21 * DAY], bpos="tail"),
                  dict(until=["d", dn(date(2025, 1, 27))]), dict(count=4), dict(until=["t", mon + 21 * DAY + 1])):
        for parts in ([], [[mon + 7 * DAY]]):
            rec = dict(weekly=True, interval=1, byday=[], parts=parts, extra=[], **bound)
            n = 4 - len(parts)
            yield dict(zone="UTC", next=2, fail=[], store=[_ev(1, mon, mon + H, rec=rec)],
                       ops=[["fetch", jan1, mar1, False], ["remove", 0, n - 2], ["fetch", jan1, mar1, False],
                            ["remove", 0, n - 1], ["fetch", jan1, mar1, True], ["remove", 0, n - 1],
                            ["fetch", jan1, mar1, False]])
    # the same for an all-day series on a calendar east of Greenwich: the occurrence of local day d starts at
    # the instant of the calendar's midnight, and that instant is the UNTIL
    d0 = dn(date(2025, 3, 24))
    until = local_midnight("Europe/Berlin", d0 + 8)             # 3 occurrences later (every 4 days), across the DST change
    rec = dict(weekly=False, interval=4, byday=[], parts=[], extra=[], until=["t", until])
    a, b = local_midnight("Europe/Berlin", d0 - 2), local_midnight("Europe/Berlin", d0 + 30)
    yield dict(zone="Europe/Berlin", next=2, fail=[], store=[_ev(1, d0, d0 + 1, allday=True, tz=None, rec=rec)],
               ops=[["fetch", a, b, False], ["remove", 0, 2], ["fetch", a, b, False], ["rseries", 0, 0],
                    ["fetch", a, b, False]])


def corpus_fault():
    for i in range(12):                                    # D18: every call of a two-event batch fails in turn
        yield dict(zone="UTC", store=[], next=1, fail=[i],
                   ops=[["addmany", [_w(B0 + H, B0 + 2 * H), _w(B0 + 2 * H, B0 + 5 * H)]],
                        ["fetch", B0, B0 + DAY, False]])
    # N1: a failed zone lookup is not remembered as UTC
    d0 = dn(date(2025, 6, 10))
    lo = local_midnight("America/Los_Angeles", d0)
    yield dict(zone="America/Los_Angeles", next=2, fail=[1],
               store=[_ev(1, d0, d0 + 1, allday=True, tz=None)],
               ops=[["fetch", lo - 5 * DAY, lo + 5 * DAY, False], ["fetch", lo - 5 * DAY, lo + 5 * DAY, False]])


class ReadFamily(GcsaFamily):
    name = "read_conversion"
    n_quick, n_thorough = 400, 4000
    rule = ("stores of 3-12 backend events: timed (aware in a zone, fixed offset, naive + zone name; zones with DST), "
            "all-day and multi-day all-day (also on DST days of the calendar zone), events without id/summary/end, "
            "recurring masters (daily/weekly, unbounded or bounded by UNTIL as an instant or a date, or by COUNT, "
            "with EXDATEs inside the RRULE line and on lines of their own), events on and across 30-day page edges; "
            "windows of 1 h to 95 days, "
            "forward and reverse over the same window, open bounds; non-trivial = a read returned an event")

    def gen(self, rng, tier, n):
        for _ in range(n):
            zone = rng.choice(CAL_ZONES)
            lo, hi, edges = gen_window(rng)
            store = []
            for k in range(rng.choice([3, 5, 8, 12])):
                store.append(gen_store_event(rng, zone, k + 1, lo, hi, edges) if rng.random() < 0.85
                             else gen_master(rng, zone, k + 1, lo, hi))
            ops = [["fetch", lo, hi, False], ["fetch", lo, hi, True]]
            r = rng.random()
            if r < 0.15:
                ops.append(["fetch", None, hi, True])
            elif r < 0.25:
                ops.append(["fetch", lo, None, False])
            elif r < 0.3:
                ops.append(["fetch", lo, None, True])            # ValueError
            elif r < 0.5:
                a = rng.choice(edges) - rng.choice([0, 1, DAY])
                ops += [["fetch", a, hi, True], ["fetch", a, hi, False]]
            yield dict(zone=zone, store=store, next=next_id(store), fail=[], ops=ops)

    def nontrivial(self, case, obs):
        return any(o.get("evs") for o in obs["outs"])

    def corpus(self):
        return list(corpus_read())


class HistFamily(GcsaFamily):
    name = "histories"
    corr = "corr_gcsa_out"
    n_quick, n_thorough = 400, 4000
    rule = ("histories of 4-10 operations on small stores (single events and series written by other clients: "
            "daily/weekly masters, unbounded or ending with UNTIL=<instant of the last occurrence's start>, UNTIL "
            "later/earlier, UNTIL=<date>, COUNT=n, with earlier EXDATEs in both forms): a read of the window followed "
            "by removals aimed at one series (its last occurrence, the first, a middle one, the same one again, "
            "then possibly the series), then add (timed, whole local days inferred or declared all-day), "
            "batch add via an iterator, add daily/weekly patterns (UTC or zoned, with exdates, whole-day and 24 h from "
            "09:00), remove / remove_series of events read or added earlier (instances, masters, singles, repeated "
            "removals), fetches and slices in both directions; non-trivial = some write succeeded and a later read "
            "returned an event")

    def gen(self, rng, tier, n):
        for _ in range(n):
            yield gen_history(rng, True, rng.choice([4, 6, 8, 10]))

    def nontrivial(self, case, obs):
        return (any(o["t"] == "write" and not o["raised"] and any(r[0] for r in o["res"]) for o in obs["outs"])
                and any(o.get("evs") for o in obs["outs"]))

    def corpus(self):
        return list(corpus_hist())


class FaultFamily(GcsaFamily):
    name = "fault_injection"
    n_quick, n_thorough = 60, 500          # base histories; each is run once per backend call index
    rule = ("histories of 3-6 operations (as in part histories, reads through fetch), run with the backend failing "
            "at call index i for every i below the number of calls of the failure-free run, plus pairs of failing "
            "indices; the observation records whether an exception escaped; non-trivial = the failure hit a call")

    def gen(self, rng, tier, n):
        for _ in range(n):
            base = gen_history(rng, False, rng.choice([3, 4, 5, 6]))
            obs = run_history(base)
            ncalls = obs["outs"][-1]["calls"] if obs["outs"] else 0
            for i in range(ncalls):
                yield dict(base, fail=[i])
            if ncalls >= 2:
                for _ in range(2):
                    yield dict(base, fail=sorted(rng.sample(range(ncalls), 2)))

    def nontrivial(self, case, obs):
        return bool(case["fail"]) and case["fail"][0] < len(obs["log"])

    def corpus(self):
        return list(corpus_fault())

    def distribution(self, case, dist):
        super().distribution(case, dist)
        dist["failing_indices_%d" % len(case["fail"])] += 1


def regen_guard_facts():
    from .translate.guardfacts import regenerate
    f, err = regenerate(REPO, COQ)
    if err:
        return f"guard facts could not be extracted: {err}"
    return "Gen/GuardFacts.v regenerated from calgebra/gcsa.py: " + ", ".join(
        f"{m['name']}({len(m['calls'])} backend calls, {'decorated' if m['decorated'] else 'undecorated'})"
        for m in f["methods"])


ASSUME_GCSA = [
    "the Google Calendar API is SIMULATED by harness/gcsa_fake.py / Model/Gcsa.v (trusted): overlap rule of get_events "
    "(end > timeMin, start < timeMax, ordered by start), all-day events = local midnights of the calendar's zone, "
    "expansion of FREQ=DAILY/WEEKLY masters on the wall clock of the event's zone, EXDATE accepted inside the RRULE line "
    "the way the adapter writes it (RFC 5545 and the real API define EXDATE as a line of its own); UNTIL is an inclusive "
    "bound on occurrence starts (UNTIL=<instant>Z: on the start instant, UNTIL=<date>: on the local date), COUNT=n keeps "
    "the first n occurrences of the rule counted before exclusions",
    "patterns added are anchored daily/weekly patterns whose time of day avoids DST gaps; their expected occurrences are "
    "the pattern's own (RecurringPattern.fetch, subject of C07/C08), from the series start on",
    "events declared all-day by the caller are whole local days of the calendar's zone; naive (tz-less) datetimes from "
    "the client never start at local midnight (the real client returns aware datetimes)",
    "zone tables exported from the installed zoneinfo (1970-2040) on every run",
]

CHECKS = {"C20": Check("C20", [ReadFamily("C20"), HistFamily("C20"), FaultFamily("C20")], ASSUME_GCSA,
                       pre_build=regen_guard_facts)}
