"""Parts over core expressions: single slices ('s'), pairs of slices ('p'), raw fetches ('f'),
overlapping(point) ('o')."""
from __future__ import annotations

import copy

from . import exprs as X
from .common import eval_term
from .family import Family


class ExprFamily(Family):
    def __init__(self, prop, kind, oracle, dom_funcs, gen, n_quick, n_thorough, name=None, rule=None):
        super().__init__(prop)
        self.kind, self.oracle, self.dom_funcs = kind, oracle, dom_funcs
        self.genf, self.n_quick, self.n_thorough = gen, n_quick, n_thorough
        self.corr = {"s": "corr_slice", "p": "corr_pair", "f": "corr_fetch", "o": "corr_ov"}[kind]
        self.case_type = {"s": "scase", "p": "pcase", "f": "fcase", "o": "ocase"}[kind]
        self.name = name or {"s": "slices", "p": "slice-pairs", "f": "fetches", "o": "overlapping"}[kind]
        self.rule = rule or ("random expression trees over stored leaves with endpoints in {None,0..7}; "
                             "non-trivial = the implementation returned at least one interval")

    def gen(self, rng, tier, n):
        g = X.Gen(rng)
        g.big_ok = True
        for case in self.genf(g, rng, tier, n):
            if rng.random() < 0.12 and "env" not in case:
                case = with_context(g, rng, case)
            yield case

    def run_impl(self, case):
        env = case.get("env")
        t = case["tree"]
        ctx, warm = case.get("ctx"), case.get("warm")
        if self.kind == "f":
            outs = [X.run_fetch(t, a, b, rev, env, ctx, warm) for (a, b, rev) in case["q"]]
        elif self.kind == "o":
            outs = [X.run_overlapping(t, q[0], env, ctx, warm) for q in case["q"]]
        else:
            outs = [X.run_slice(t, a, b, rev, env, ctx, warm) for (a, b, rev) in case["q"]]
        for o in outs:
            if isinstance(o, dict):
                return o
        return outs

    def coq_case(self, case, obs):
        t, env = case["tree"], case.get("env")
        if self.kind == "f":
            (a, b, rev), = case["q"]
            return X.coq_scase(t, a, b, rev, obs[0], env).replace("(mkSC ", "(mkFC ", 1)
        if self.kind == "o":
            p = case["q"][0][0]
            return f"(mkOC {X.coq_env(t, env)} {X.coq_expr(t)} {X.cz(p)} {X.coq_out(obs[0])})"
        if self.kind == "s":
            (a, b, rev), = case["q"]
            return X.coq_scase(t, a, b, rev, obs[0], env)
        return X.coq_pcase(t, case["q"][0], obs[0], case["q"][1], obs[1], env)

    def shrink_candidates(self, case):
        if case.get("ctx") is not None:
            yield {k: v for k, v in case.items() if k not in ("ctx", "warm")}     # without the context
            return          # (the context embeds the tree: shrinking one without the other would unshare them)
        for t2 in X.shrink_tree(case["tree"]):
            yield dict(case, tree=t2)

    def describe(self, case):
        d = f"{X.describe(case['tree'])}  queries={case['q']}"
        if case.get("ctx") is not None:
            d += f"  [after evaluating, with shared objects, {X.describe(case['ctx'])} over {case['warm']}]"
        return d

    def model_output(self, case):
        outs = []
        t, env = case["tree"], case.get("env")
        for q in case["q"]:
            envs, es = X.coq_env(t, env), X.coq_expr(t)
            if self.kind == "o":
                term = f"overlapping {envs} {es} {X.cz(q[0])}"
            else:
                a, b, rev = q
                fn = "fetch" if self.kind == "f" else "slice"
                term = f"{fn} {envs} {es} {X.coz(a)} {X.coz(b)} {X.cbool(rev)}"
            outs.append(eval_term(self.prop, self.header, term))
        return outs

    def nontrivial(self, case, obs):
        return any(len(o) > 0 for o in obs)

    def distribution(self, case, dist):
        if case.get("ctx") is not None:
            dist["evaluated_inside_a_larger_expression_first"] += 1
        for n_ in walk(case["tree"]):
            dist["op_" + n_["op"]] += 1
        if self.kind != "o":
            dist["reverse" if any(q[2] for q in case["q"]) else "forward"] += 1
            dist["open_window" if any(q[0] is None or q[1] is None for q in case["q"]) else "bounded_window"] += 1
        if any(len(l["evs"]) > 1 and overlapping(l["evs"]) for l in X.leaves_of(case["tree"])):
            dist["has_overlapping_leaf"] += 1
        if any(e[0] is None or e[1] is None for e in X.all_events(case["tree"])):
            dist["has_unbounded_event"] += 1

    def perturb(self, case, rng):
        return perturb(case, rng)


def with_context(g, rng, case):
    """The expression is ALSO part of a larger expression (sharing the very objects), and that one is
    evaluated first: composing or evaluating must not change what a sub-expression answers
    afterwards (the model only sees the sub-expression)."""
    t = case["tree"]
    other = g.tree(rng.choice([0, 1]), ["or", "and", "sub"])
    j = rng.random()
    if j < 0.45:
        ctx = {"op": rng.choice(["or", "and", "sub"]), "l": t, "r": other}
    elif j < 0.6:
        ctx = {"op": rng.choice(["or", "and"]), "l": other, "r": t}
    elif j < 0.8:
        ctx = {"op": "or", "l": {"op": "and", "l": t, "r": other}, "r": {"op": "and", "l": t, "r": g.leaf()}}
    else:
        ctx = t                                   # the expression itself, evaluated twice
    a, b = g.window()
    return dict(case, ctx=ctx, warm=[(a, b, False)] + ([(a, b if b is not None else 9, True)] if rng.random() < 0.3 else []))


def walk(t):
    yield t
    for k in ("l", "r", "s"):
        if k in t:
            yield from walk(t[k])


def overlapping(evs):
    def fs(x):
        return -10 ** 19 if x is None else x

    def fe(x):
        return 10 ** 19 if x is None else x
    for i in range(len(evs)):
        for j in range(i + 1, len(evs)):
            if max(fs(evs[i][0]), fs(evs[j][0])) < min(fe(evs[i][1]), fe(evs[j][1])):
                return True
    return False


def perturb(case, rng):
    """endpoint +-1, add a nested/duplicate/touching/unbounded event, move window edges onto
    event edges"""
    c = copy.deepcopy(case)
    lvs = list(X.leaves_of(c["tree"]))
    ids = X.ids_of(c["tree"])
    nid = (max(ids) + 1) if ids else 1
    for _ in range(rng.choice([1, 1, 2, 3])):
        k = rng.random()
        if lvs and k < 0.35:
            lf = rng.choice(lvs)
            if lf["evs"]:
                j = rng.randrange(len(lf["evs"]))
                s, e, pid = lf["evs"][j]
                d = rng.choice([-1, 1])
                if rng.random() < 0.5 and s is not None:
                    s += d
                elif e is not None:
                    e += d
                if s is None or e is None or s < e:
                    lf["evs"][j] = [s, e, pid]
        elif lvs and k < 0.7:
            lf = rng.choice(lvs)
            rich = any(e[2] is not None for e in lf["evs"]) or not lf["evs"]
            if lf["evs"] and rng.random() < 0.6:
                s, e, _ = rng.choice(lf["evs"])
                kind = rng.choice(["dup", "nest", "touch", "unb"])
                lo = 0 if s is None else s
                hi = lo + 3 if e is None else e
                if kind == "dup":
                    ns, ne = s, e
                elif kind == "nest" and hi - lo >= 2:
                    ns, ne = lo + 1, (hi - 1 if hi - lo > 2 else hi)
                elif kind == "touch":
                    ns, ne = hi, hi + rng.choice([1, 2])
                else:
                    ns, ne = (None, hi) if rng.random() < 0.5 else (lo, None)
            else:
                ns = rng.randrange(0, 7)
                ne = rng.randrange(ns + 1, 9)
            lf["evs"].append([ns, ne, nid if rich else None])
            nid += 1
        else:
            qs = []
            pts = [x for ev in X.all_events(c["tree"]) for x in ev[:2] if x is not None] or [0, 5]
            for q in c["q"]:
                if len(q) == 1:
                    qs.append((rng.choice(pts + [min(pts) - 1, max(pts) + 1]),))
                    continue
                a, b, rev = q
                if rng.random() < 0.5:
                    a = rng.choice(pts + [None, min(pts) - 1])
                if rng.random() < 0.5:
                    b = rng.choice(pts + [None, max(pts) + 1])
                if a is not None and b is not None and a >= b:
                    b = a + 1
                qs.append((a, b, rev))
            if len(qs) == 1:
                c["q"] = qs
    return c
