"""Generic runner for the properties decided over slices of core expressions
(C01–C06, C17, C18): generate cases, run the implementation, evaluate the model and the
property oracle in Coq, classify, shrink, report."""
from __future__ import annotations

import json
import random
import time
from collections import Counter

from . import exprs as X
from .common import (Report, TRUSTED_BASE, VERIF, check_props_file, eval_cases, eval_term,
                     load_known, make_coq, scan_forbidden)

HEADER = "From CG Require Import Harness.CoreChk.\n"


class SliceFamily:
    """One property over single slices (kind='s') or pairs of slices (kind='p').

    oracle      Coq function name: case -> bool, evaluated on the implementation's output
    dom_funcs   Coq functions whose conjunction is the domain free of known-finding signatures
    gen         (Gen, rng, tier) -> iterable of case dicts {tree, q:[(a,b,rev)...], env?}
    """

    def __init__(self, prop, kind, oracle, dom_funcs, gen, n_quick, n_thorough, corpus=(),
                 nontrivial=None, extra_checks=None, design_ref=""):
        self.prop, self.kind, self.oracle, self.dom_funcs = prop, kind, oracle, dom_funcs
        self.gen, self.n_quick, self.n_thorough = gen, n_quick, n_thorough
        self.corpus = list(corpus)
        self.nontrivial = nontrivial or (lambda c, obs: any(len(o) > 0 for o in obs if isinstance(o, list)))
        self.extra_checks = extra_checks
        self.corr = "corr_slice" if kind == "s" else "corr_pair"
        self.case_type = "scase" if kind == "s" else "pcase"

    # ---- implementation side
    def run_impl(self, case):
        return [X.run_slice(case["tree"], a, b, rev, case.get("env")) for (a, b, rev) in case["q"]]

    def coq_case(self, case, obs):
        if self.kind == "s":
            (a, b, rev), = case["q"]
            return X.coq_scase(case["tree"], a, b, rev, obs[0], case.get("env"))
        return X.coq_pcase(case["tree"], case["q"][0], obs[0], case["q"][1], obs[1], case.get("env"))

    def evaluate(self, cases, tag="cases"):
        """Returns per-case dict(obs, err, corr_ok, oracle_ok, in_dom)."""
        obs_all = [self.run_impl(c) for c in cases]
        good = [i for i, o in enumerate(obs_all) if all(isinstance(x, list) for x in o)]
        terms = [self.coq_case(cases[i], obs_all[i]) for i in good]
        funcs = [self.corr, self.oracle] + list(self.dom_funcs.values())
        res = eval_cases(self.prop, HEADER, self.case_type, terms, funcs, tag=tag) if terms else {f: [] for f in funcs}
        fail = {f: set(res[f]) for f in funcs}
        out = []
        pos = {gi: k for k, gi in enumerate(good)}
        for i, c in enumerate(cases):
            if i not in pos:
                out.append(dict(obs=obs_all[i], err=True, corr_ok=False, oracle_ok=False, in_dom=True, sigs=[]))
                continue
            k = pos[i]
            out.append(dict(obs=obs_all[i], err=False, corr_ok=k not in fail[self.corr],
                            oracle_ok=k not in fail[self.oracle],
                            in_dom=all(k not in fail[d] for d in self.dom_funcs.values()),
                            sigs=[sg for sg, d in self.dom_funcs.items() if k in fail[d]]))
        return out

    # ---- classification
    def is_new_violation(self, r, have_known):
        """A failing oracle is attributed to a listed known finding only when the model
        reproduces the implementation's output and the case carries a finding's signature."""
        if r["err"]:
            return True
        if r["oracle_ok"]:
            return False
        if r["corr_ok"] and any(sg in have_known for sg in r["sigs"]):
            return False
        return True

    def shrink(self, case, have_known, rounds=25):
        cur = case
        for _ in range(rounds):
            cands = []
            for t2 in X.shrink_tree(cur["tree"]):
                cands.append(dict(cur, tree=t2))
                if len(cands) >= 60:
                    break
            if not cands:
                break
            rs = self.evaluate(cands, tag="shrink")
            nxt = None
            for c, r in zip(cands, rs):
                if self.is_new_violation(r, have_known):
                    nxt = c
                    break
            if nxt is None:
                break
            cur = nxt
        return cur

    def model_outputs(self, case):
        outs = []
        for (a, b, rev) in case["q"]:
            term = (f"slice {X.coq_env(case['tree'], case.get('env'))} {X.coq_expr(case['tree'])} "
                    f"{X.coz(a)} {X.coz(b)} {X.cbool(rev)}")
            outs.append(eval_term(self.prop, HEADER, term))
        return outs

    def replay_payload(self, case, r, why):
        return dict(kind="slice-case", why=why, expression=X.describe(case["tree"]), case=case,
                    queries=case["q"], impl_output=r["obs"], model_output=self.model_outputs(case),
                    oracle=self.oracle, correspondence_agrees=r["corr_ok"],
                    in_known_finding_free_domain=r["in_dom"],
                    how_to_replay=f"./check {self.prop} --replay <this file>")

    # ---- main
    def run(self, tier, seed, replay=None):
        rep = Report(self.prop, tier, seed)
        known = load_known(self.prop)
        have_known = {k["sig"] for k in known}

        ok, out, build_s = make_coq()
        pf = check_props_file(self.prop) if ok else dict(ok=False, theorems=[], axioms={}, printed=[], output=out)
        forb = scan_forbidden()
        obligations = len(pf.get("printed", []))
        discharged = len([k for k in pf.get("axioms", {})]) if pf["ok"] else 0
        proof_broken = (not ok) or (not pf["ok"]) or bool(forb)

        if replay:
            case = json.loads(open(replay).read())["case"]
            r = self.evaluate([case], tag="replay")[0]
            print(json.dumps(dict(impl=r["obs"], corr_ok=r["corr_ok"], oracle_ok=r["oracle_ok"],
                                  in_dom=r["in_dom"], model=self.model_outputs(case)), default=str))
            return 0 if (r["oracle_ok"] and r["corr_ok"]) else 1

        rng = random.Random(seed)
        n = self.n_thorough if tier == "thorough" else self.n_quick
        cases = []
        for wf in self.corpus:
            cases.append(wf)
        n_corpus = len(cases)
        g = X.Gen(rng)
        for c in self.gen(g, rng, tier, n):
            cases.append(c)
        t_eval = time.time()
        try:
            rs = self.evaluate(cases)
        except RuntimeError as ex:
            rep.coverage = dict(obligations=max(obligations, 1), discharged=0, checker_cmd="coqc",
                                trusted_base=TRUSTED_BASE, explanation=str(ex)[-1500:])
            rep.violation(dict(kind="broken-correspondence-build", detail=str(ex)[-3000:],
                               theorem_or_correspondence="Harness/CoreChk.v evaluation of generated cases"),
                          no_input=True)
            return rep.finish()
        eval_s = time.time() - t_eval

        # known findings: replay each listed witness on the implementation
        for kf in known:
            w = json.loads((VERIF / kf["witness"]).read_text())
            fam = self
            r = fam.evaluate([w["case"]], tag="kf")[0]
            if not r["oracle_ok"]:
                rep.known(f"{kf['id']} {kf['text']}")

        bad = [i for i, r in enumerate(rs) if self.is_new_violation(r, have_known)]
        corr_bad = [i for i, r in enumerate(rs) if not r["corr_ok"]]
        attributed = [i for i, r in enumerate(rs) if (not r["err"]) and (not r["oracle_ok"]) and i not in bad]

        reported = 0
        if bad:
            # report up to 2 shrunk, distinct violations
            seen = set()
            for i in bad[:6]:
                small = self.shrink(cases[i], have_known)
                key = json.dumps(small, sort_keys=True, default=str)
                if key in seen:
                    continue
                seen.add(key)
                r = self.evaluate([small], tag="final")[0]
                rep.violation(self.replay_payload(small, r, "property oracle fails on the implementation's output"))
                reported += 1
                if reported >= 2:
                    break
        elif corr_bad or proof_broken:
            # correspondence or proof broken but no failing input among the generated cases:
            # targeted search around the disagreeing cases
            found = None
            if corr_bad:
                found = self.targeted_search(cases, corr_bad, rng, have_known)
            if found is not None:
                case, r = found
                small = self.shrink(case, have_known)
                r = self.evaluate([small], tag="final")[0]
                rep.violation(self.replay_payload(small, r, "found by targeted search around a model/implementation disagreement"))
            else:
                detail = dict(kind="no-failing-input",
                              theorem_or_correspondence=(
                                  f"correspondence {self.corr} (model Model/Expr.v slice vs implementation)"
                                  if corr_bad else f"proof obligations of Props/{self.prop}.v"),
                              proof_build_ok=ok, props_file_ok=pf["ok"], forbidden=forb,
                              build_output=(out if not ok else pf.get("output", ""))[-3000:])
                if corr_bad:
                    i = corr_bad[0]
                    detail["first_disagreement"] = self.replay_payload(cases[i], rs[i], "model and implementation disagree")
                    detail["case"] = cases[i]
                rep.violation(detail, no_input=True)

        # evidence
        dist = Counter()
        nontriv = set()
        for c, r in zip(cases, rs):
            for n_ in walk(c["tree"]):
                dist["op_" + n_["op"]] += 1
            dist["rev" if any(q[2] for q in c["q"]) else "fwd"] += 1
            dist["open_window" if any(q[0] is None or q[1] is None for q in c["q"]) else "bounded_window"] += 1
            if not r["err"] and self.nontrivial(c, r["obs"]):
                nontriv.add(json.dumps([c["tree"], c["q"]], sort_keys=True, default=str))
            if r["in_dom"]:
                dist["in_exact_domain"] += 1
            if any(len(l["evs"]) > 1 and overlapping(l["evs"]) for l in X.leaves_of(c["tree"])):
                dist["has_overlapping_leaf"] += 1
        samples = [dict(expression=X.describe(c["tree"]), queries=c["q"], impl_output=r["obs"])
                   for c, r in list(zip(cases, rs))[n_corpus:n_corpus + 3]]
        rep.coverage = dict(
            obligations=max(obligations, 1), discharged=(discharged if not proof_broken else 0),
            checker_cmd=f"make -C coq (full .vo) && coqc Props/{self.prop}.v  [Print Assumptions]; "
                        f"coqc build/{self.prop}/cases_*.v (vm_compute)",
            trusted_base=TRUSTED_BASE,
            theorems=pf.get("theorems", []), axioms=pf.get("axioms", {}),
            evaluations=len(cases), distinct_nontrivial=len(nontriv),
            rule="random expression trees (one PRNG) over leaves with endpoints in {None,0..7}; "
                 "a case is non-trivial when the implementation returned at least one interval; "
                 "distinct = distinct (expression, queries)",
            samples=samples, traces_validated_against_impl=len(cases),
            disagreements_checked=len(corr_bad), correspondence_disagreements=len(corr_bad),
            oracle_failures_attributed_to_known_findings=len(attributed),
            distribution=dict(dist), corpus_cases=n_corpus, build_s=round(build_s, 1), eval_s=round(eval_s, 1),
            explanation="theorems of Props/%s.v re-checked by coqc; model tied to /repo by running both on the "
                        "cases above; oracle = executable spec of Spec/Sets.v applied to the implementation's output" % self.prop)
        rep.assumptions = ["streams are finite lists; user-defined Timeline subclasses out of scope"]
        return rep.finish()

    def targeted_search(self, cases, corr_bad, rng, have_known, budget=1500):
        """Mutate the disagreeing cases (endpoint ±1, add nested/duplicate/touching/unbounded
        events, move the window edges onto event edges, flip direction) looking for an input on
        which the property oracle fails on the implementation."""
        pool = []
        for i in corr_bad[:20]:
            base = cases[i]
            for _ in range(max(1, budget // max(1, min(20, len(corr_bad))))):
                pool.append(perturb(base, rng))
        rs = self.evaluate(pool, tag="search")
        for c, r in zip(pool, rs):
            if self.is_new_violation(r, have_known):
                return c, r
        return None


def walk(t):
    yield t
    for k in ("l", "r", "s"):
        if k in t:
            yield from walk(t[k])


def overlapping(evs):
    def fs(x):
        return -10 ** 19 if x is None else x

    def fe(x):
        return 10 ** 19 if x is None else x
    for i in range(len(evs)):
        for j in range(i + 1, len(evs)):
            if max(fs(evs[i][0]), fs(evs[j][0])) < min(fe(evs[i][1]), fe(evs[j][1])):
                return True
    return False


def perturb(case, rng):
    import copy
    c = copy.deepcopy(case)
    lvs = list(X.leaves_of(c["tree"]))
    ids = X.ids_of(c["tree"])
    nid = (max(ids) + 1) if ids else 1
    for _ in range(rng.choice([1, 1, 2, 3])):
        k = rng.random()
        if lvs and k < 0.35:
            lf = rng.choice(lvs)
            if lf["evs"]:
                j = rng.randrange(len(lf["evs"]))
                s, e, pid = lf["evs"][j]
                d = rng.choice([-1, 1])
                if rng.random() < 0.5 and s is not None:
                    s += d
                elif e is not None:
                    e += d
                if s is None or e is None or s < e:
                    lf["evs"][j] = [s, e, pid]
        elif lvs and k < 0.7:
            lf = rng.choice(lvs)
            rich = any(e[2] is not None for e in lf["evs"]) or not lf["evs"]
            if lf["evs"] and rng.random() < 0.6:
                s, e, _ = rng.choice(lf["evs"])
                kind = rng.choice(["dup", "nest", "touch", "unb"])
                lo = 0 if s is None else s
                hi = lo + 3 if e is None else e
                if kind == "dup":
                    ns, ne = s, e
                elif kind == "nest" and hi - lo >= 2:
                    ns, ne = lo + 1, hi - 1 if hi - lo > 2 else hi
                elif kind == "touch":
                    ns, ne = hi, hi + rng.choice([1, 2])
                else:
                    ns, ne = (None, hi) if rng.random() < 0.5 else (lo, None)
            else:
                ns = rng.randrange(0, 7)
                ne = rng.randrange(ns + 1, 9)
            lf["evs"].append([ns, ne, nid if rich else None])
            nid += 1
        else:
            qs = []
            pts = [x for ev in X.all_events(c["tree"]) for x in ev[:2] if x is not None] or [0, 5]
            for (a, b, rev) in c["q"]:
                if rng.random() < 0.5:
                    a = rng.choice(pts + [None, min(pts) - 1])
                if rng.random() < 0.5:
                    b = rng.choice(pts + [None, max(pts) + 1])
                if a is not None and b is not None and a >= b:
                    b = a + 1
                qs.append((a, b, rev))
            if len(qs) == 1:
                c["q"] = qs
    return c
