"""C11: concurrent queries on one cached timeline behave as if run one at a time.

Real threads, real CachedTimeline, deterministic scheduler (harness/sched.py): every placement of
zero or one preemption (thorough: two) at statement granularity inside cache.py / memory.py, at
lock acquisition/release and at source-fetch boundaries, for 2-3 threads issuing 1-2 overlapping
queries each on empty and pre-warmed caches with and without expiry in between.  Each run is
turned into the sequential history given by the order in which the queries read the clock
(= lock acquisition order) and judged like a C09 history: the Coq model's serial run must
reproduce every thread's result (correspondence), and every result must equal the source's slice
(oracle), including a final full-range query made after all threads finished."""
from __future__ import annotations

import copy
import threading

from .common import cbool, civl, clist, cz, ensure_repo_import
from .family import Check, Family
from .props_cache import KEYMOD, KEv, coq_op, obs_iv
from .sched import CoopLock, run_threads

ensure_repo_import()
import calgebra.cache as cache_mod  # noqa: E402
from calgebra import cached, timeline  # noqa: E402

TRACE_FILES = ("calgebra/cache.py", "calgebra/mutable/memory.py")


class TClock:
    """integer clock advancing by tick per reading; remembers who read it"""

    def __init__(self, t0, tick, who):
        self.t, self.tick, self.who = t0, tick, who
        self.readings = []

    def __call__(self):
        v = self.t
        self.readings.append((self.who(), v))
        self.t += self.tick
        return v


class TSource:
    _is_mask = False

    def __init__(self, evs, clock, who, sched_ref):
        self.tl = timeline(*[KEv(start=s, end=e, id=k) for (s, e, k) in evs])
        self.clock, self.who, self.sched_ref = clock, who, sched_ref
        self.log = []

    def fetch(self, start, end, *, reverse=False):
        s = self.sched_ref[0]
        me = self.who()
        if s is not None and me[0] is not None:
            s.point(me[0])                      # source-fetch boundary
        self.log.append((me, self.clock.t, start, end))
        res = list(self.tl.fetch(start, end, reverse=reverse))
        if s is not None and me[0] is not None:
            s.point(me[0])
        return iter(res)


# a change that makes threads hang (a real lock taken inside the cache, a lost wake-up) costs one
# scheduler timeout per schedule: after a few of them the remaining schedules are not run — each is
# reported as a failure straight away, so the check ends in minutes, with a violation
HANGS = [0]
MAX_HANGS = 3


def run_case(case, count_points=False):
    if HANGS[0] >= MAX_HANGS:
        return {"err": "deadlock: not run — earlier schedules of this run timed out (threads hang)", "points": None}
    tls = threading.local()

    def who():
        return (getattr(tls, "tid", None), getattr(tls, "q", None))

    clock = TClock(case["t0"], case["tick"], who)
    saved = cache_mod.monotonic
    cache_mod.monotonic = clock
    sched_ref = [None]
    try:
        src = TSource(case["evs"], clock, who, sched_ref)
        c = cached(src, ttl=case["ttl"], key="id")
        pre_out = []
        tls.tid = None
        for i, op in enumerate(case["prewarm"]):
            tls.q = ("pre", i)
            if op[0] == "q":
                pre_out.append((("pre", i), op, [obs_iv(r, False) for r in c.fetch(op[1], op[2], reverse=op[3])]))
            else:
                clock.t += op[1]

        def make_prog(tid, queries):
            def prog(t, sched):
                tls.tid = t
                outs = []
                for qi, (a, b, rev) in enumerate(queries):
                    tls.q = ("t", t, qi)
                    # the consumer may be preempted between two results it takes from the iterator (the
                    # result list is yielded after the lock is released: it must be private to the query)
                    res = []
                    for x in c.fetch(a, b, reverse=rev):
                        res.append(x)
                        sched.point(t)
                    outs.append((("t", t, qi), ["q", a, b, rev], [obs_iv(r, False) for r in res]))
                return outs
            return prog

        def setup_lock(sched, tid_of):
            sched_ref[0] = sched
            c._lock = CoopLock(sched, tid_of)

        progs = [make_prog(t, qs) for t, qs in enumerate(case["threads"])]
        r = run_threads(progs, [tuple(p) for p in case["preempt"]], case["start_order"], TRACE_FILES, setup_lock)
        sched_ref[0] = None
        if r["deadlock"]:
            if r["deadlock"].startswith("timeout"):
                HANGS[0] += 1
            return {"err": "deadlock: " + r["deadlock"], "points": r["points"]}
        if any(r["errors"]):
            return {"err": "exception in thread: " + str([e for e in r["errors"] if e]), "points": r["points"]}
        # afterwards: one full-range query (sequential again: ordinary lock)
        c._lock = threading.Lock()
        tls.tid = None
        tls.q = ("post", 0)
        lo = min([q[0] for qs in case["threads"] for q in qs] + [0])
        hi = max([q[1] for qs in case["threads"] for q in qs] + [30])
        post = (("post", 0), ["q", lo, hi, False], [obs_iv(x, False) for x in c.fetch(lo, hi)])
        # serial order of the threads' queries = order of their first clock reading
        first = {}
        for (w, v) in clock.readings:
            key = w[1]
            if key not in first:
                first[key] = (len(first), v)
        items = list(pre_out)
        tq = [o for res in r["results"] for o in res]
        missing = [o for o in tq if o[0] not in first]
        if missing:
            return {"err": "a query never read the clock (eviction pass skipped?)", "points": r["points"]}
        tq.sort(key=lambda o: first[o[0]][0])
        items += tq
        items.append(post)
        # interleave prewarm advances back in
        ops, outs, logs, evt = [], [], [], []
        pre_iter = iter(pre_out)
        for i, op in enumerate(case["prewarm"]):
            if op[0] == "adv":
                ops.append(op)
            else:
                key, _, out = next(pre_iter)
                ops.append(op); outs.append(out)
                logs.append([[t, a, b] for (w, t, a, b) in src.log if w[1] == key])
                evt.append(first[key][1])
        for key, op, out in tq + [post]:
            ops.append(op); outs.append(out)
            logs.append([[t, a, b] for (w, t, a, b) in src.log if w[1] == key])
            evt.append(first[key][1])
        return dict(ops=ops, outs=outs, logs=logs, evt=evt, points=r["points"], acq=r["acq"],
                    switches=r["switches"])
    except Exception as ex:
        return {"err": type(ex).__name__ + ": " + str(ex)[:200]}
    finally:
        cache_mod.monotonic = saved


SCENARIOS = [
    # (evs, ttl, tick, prewarm, threads)
    dict(evs=[[2, 18, 1], [8, 12, 2], [15, 40, 3]], ttl=100, tick=1, prewarm=[],
         threads=[[(0, 20, False)], [(10, 30, False)]]),
    dict(evs=[[2, 18, 1], [8, 12, 2], [15, 40, 3]], ttl=100, tick=1, prewarm=[["q", 5, 15, False]],
         threads=[[(0, 20, False)], [(10, 30, True)]]),
    dict(evs=[[0, 50, 1], [12, 14, 2]], ttl=3, tick=1, prewarm=[["q", 0, 10, False], ["adv", 1], ["q", 10, 20, False], ["adv", 1]],
         threads=[[(5, 25, False)], [(0, 30, False)]]),           # expiry in between (small ttl, ticking clock)
    dict(evs=[[None, 7, 1], [5, 25, 2], [20, None, 3]], ttl=50, tick=0, prewarm=[],
         threads=[[(0, 10, False), (5, 30, False)], [(8, 22, False)]]),
    dict(evs=[[1, 9, 1], [9, 19, 2], [19, 29, 3]], ttl=4, tick=1, prewarm=[["q", 9, 19, False]],
         threads=[[(0, 15, False)], [(12, 30, False)], [(5, 25, True)]]),     # three threads
    dict(evs=[[3, 27, 1]], ttl=2, tick=1, prewarm=[["q", 0, 10, False], ["q", 20, 30, False], ["adv", 5]],
         threads=[[(0, 30, False), (10, 20, False)], [(5, 25, False), (0, 30, True)]]),
    # the SAME window, already cached, read forward by one thread and in reverse by another (and asked twice by
    # one thread): nothing is filled or evicted, only the answers can interfere
    dict(evs=[[2, 18, 1], [8, 12, 2], [15, 40, 3], [20, 22, 4]], ttl=100, tick=1, prewarm=[["q", 0, 30, False]],
         threads=[[(0, 30, False)], [(0, 30, True)]]),
    dict(evs=[[2, 18, 1], [8, 12, 2], [15, 40, 3], [20, 22, 4]], ttl=100, tick=0, prewarm=[["q", 0, 30, False]],
         threads=[[(0, 30, False), (0, 30, False)], [(0, 30, True), (0, 30, False)]]),
]


class ConcFamily(Family):
    name = "schedules"
    header = "From CG Require Import Harness.CacheChk.\n"
    case_type = "kcase"
    corr = "corr_cache"
    oracle = "oracle_C09"
    shard = 150
    n_quick, n_thorough = 1400, 12000
    rule = ("8 scenarios (2-3 threads, 1-2 overlapping queries each, empty and pre-warmed caches, with and "
            "without expiry) x every placement of 0 or 1 preemption at a scheduling point (traced line of "
            "cache.py/memory.py, lock acquire/release, source-fetch boundary, between two results a consumer takes) x both start orders; thorough adds "
            "2-preemption schedules; non-trivial = the run had at least one context switch before a thread finished")

    def gen(self, rng, tier, n):
        cases = []
        for sc in SCENARIOS:
            nt = len(sc["threads"])
            orders = [list(range(nt)), list(reversed(range(nt)))]
            for order in orders:
                base = dict(sc, t0=0, preempt=[], start_order=order)
                base = copy.deepcopy(base)
                cases.append(base)
                probe = run_case(base)
                pts = probe.get("points") or [0] * nt
                for tid in range(nt):
                    for k in range(1, pts[tid] + 1):
                        cases.append(dict(copy.deepcopy(base), preempt=[[tid, k]]))
        singles = [c for c in cases if len(c["preempt"]) == 1]
        if len(cases) > n:
            keep = [c for c in cases if not c["preempt"]]
            rest = singles
            stride = max(1, len(rest) // (n - len(keep)))
            off = rng.randrange(stride)
            cases = keep + rest[off::stride]
        elif tier == "thorough":
            extra = []
            while len(cases) + len(extra) < n and singles:
                c = copy.deepcopy(rng.choice(singles))
                tid2 = rng.randrange(len(c["threads"]))
                c["preempt"].append([tid2, rng.randrange(1, 400)])
                extra.append(c)
            cases += extra
        return cases

    def run_impl(self, case):
        return run_case(case)

    def coq_case(self, case, obs):
        evs = clist([civl([s, e, key * KEYMOD]) for (s, e, key) in case["evs"]])
        ops = clist([coq_op(o) for o in obs["ops"]])
        outs = clist([clist([civl(o) for o in out]) for out in obs["outs"]])
        logs = clist([clist([f"({cz(t)}, {cz(a)}, {cz(b)})" for (t, a, b) in lg]) for lg in obs["logs"]])
        evt = clist([cz(t) for t in obs["evt"]])
        return (f"(mkK false {cz(case['ttl'])} {cz(case['tick'])} {cz(case['t0'])} "
                f"{evs} {ops} {outs} {logs} {evt})")

    def shrink_candidates(self, case):
        for i in range(len(case["evs"])):
            yield dict(case, evs=case["evs"][:i] + case["evs"][i + 1:])
        for i in range(len(case["prewarm"])):
            yield dict(case, prewarm=case["prewarm"][:i] + case["prewarm"][i + 1:])
        for t in range(len(case["threads"])):
            if len(case["threads"][t]) > 1:
                th = copy.deepcopy(case["threads"])
                th[t] = th[t][:-1]
                yield dict(case, threads=th)

    def describe(self, case):
        return (f"source={case['evs']} ttl={case['ttl']} tick={case['tick']} prewarm={case['prewarm']} "
                f"threads={case['threads']} start_order={case['start_order']} preempt(tid,point)={case['preempt']}")

    def nontrivial(self, case, obs):
        return bool(case["preempt"]) and obs.get("switches", 0) > len(case["threads"])

    def distribution(self, case, dist):
        dist[f"threads_{len(case['threads'])}"] += 1
        dist[f"preemptions_{len(case['preempt'])}"] += 1
        dist["prewarmed" if case["prewarm"] else "empty_cache"] += 1

    def perturb(self, case, rng):
        c = copy.deepcopy(case)
        if c["preempt"]:
            c["preempt"][0][1] = max(1, c["preempt"][0][1] + rng.choice([-3, -2, -1, 1, 2, 3]))
        else:
            c["preempt"] = [[rng.randrange(len(c["threads"])), rng.randrange(1, 200)]]
        return c


ASSUME_CONC = ["threading.Lock provides mutual exclusion (replaced by a cooperative lock with the same semantics under the "
               "deterministic scheduler)",
               "CPython may preempt between bytecodes, finer than the statement-level scheduling points explored; irrelevant "
               "under the lock discipline checked on the source (Gen/LockFacts.v)",
               "integer fake clock; exceptions raised by the source inside the critical section are outside the property"]

def regen_lock_facts():
    from .common import COQ, REPO
    from .translate.lockfacts import regenerate
    f, err = regenerate(REPO, COQ)
    if err:
        return {"error": err}
    return {"shared_fields": f["shared"], "methods": {m["name"]: [m["acc_out"], m["acc_in"], m["acquires"]] for m in f["methods"]}}


CHECKS = {"C11": Check("C11", [ConcFamily("C11")], ASSUME_CONC, pre_build=regen_lock_facts)}
