"""The SIMULATED Google Calendar backend used by C20 (trusted: it stands in for the real API).

An in-memory fake of the gcsa `GoogleCalendar` client with exactly the surface calgebra/gcsa.py uses:
get_calendar, get_events, add_event, get_event, update_event, delete_event, and
service.new_batch_http_request / service.events().insert / batch.add / batch.execute.
Every call takes one tick of a global call counter; a call whose index is in `fail` raises
BackendError instead of doing anything.  The same machine is modelled in coq/Model/Gcsa.v.

Semantics fixed by this simulation (see Model/Gcsa.v for the mirror image):
  * a stored single event has true instants [s, e): a timed event's instants, an all-day event's
    local midnights in the CALENDAR's zone;
  * get_events(time_min, time_max, single_events=True, order_by="startTime") returns the single
    events and the expanded instances of recurring masters with end > time_min and start < time_max,
    in a stable order by start instant; instances carry recurring_event_id = master id and the id
    "<master>_<YYYYMMDDTHHMMSSZ of the instance start>";
  * recurring masters: RRULE:FREQ=DAILY|WEEKLY[;INTERVAL=k][;BYDAY=..][;UNTIL=..|;COUNT=n] expanded on
    the wall clock of the event's zone from the master's start on (all-day: dates); every EXDATE (inside
    the RRULE line the way the adapter writes it, or on a line of its own) excludes the instance starting
    at that instant; an instance ends at its start's wall clock plus the master's wall-clock
    duration (start and end keep their local times across DST changes);
  * UNTIL is an INCLUSIVE upper bound on occurrence starts (RFC 5545): UNTIL=YYYYMMDDTHHMMSSZ bounds the
    true start instant of an occurrence (the last occurrence of a series may start exactly at UNTIL),
    UNTIL=YYYYMMDD bounds its local date (the date of an all-day occurrence, the wall-clock date in the
    event's zone of a timed one); COUNT=n keeps the first n occurrences of the rule counted from the
    master's start, BEFORE exclusions (an excluded occurrence still counts); a line with UNTIL and
    COUNT, or with one of them twice, is rejected;
  * timed events are handed out as gcsa Event objects whose start/end are aware datetimes in the
    event's zone (or the calendar's), as fixed-offset aware datetimes (what gcsa parses from the
    API), or, for stub-like data, naive wall clocks with a `timezone` name;
  * add_event rejects empty all-day ranges (end date <= start date) and timed ranges with end < start;
    delete/get/update of an unknown id raise.
"""
from __future__ import annotations

import re
from datetime import date, datetime, timedelta, timezone
from zoneinfo import ZoneInfo

from gcsa.calendar import Calendar as GcsaCalendar
from gcsa.event import Event as GcsaEvent
from gcsa.reminders import EmailReminder, PopupReminder

DAY = 86400
EPOCH_ORD = date(1970, 1, 1).toordinal()
UTC = timezone.utc
WD = ["MO", "TU", "WE", "TH", "FR", "SA", "SU"]


class BackendError(Exception):
    pass


def dn(d: date) -> int:
    return d.toordinal() - EPOCH_ORD


def nd(n: int) -> date:
    return date.fromordinal(n + EPOCH_ORD)


def wall_of(dt: datetime) -> int:
    """wall clock seconds since 1970-01-01 local of a datetime (tzinfo ignored)"""
    return int((dt.replace(tzinfo=None) - datetime(1970, 1, 1)).total_seconds())


def from_wall(w: int) -> datetime:
    return datetime(1970, 1, 1) + timedelta(seconds=w)


def fmt_exdate(t: int) -> str:
    return datetime.fromtimestamp(t, UTC).strftime("%Y%m%dT%H%M%SZ")


def parse_exdate(s: str) -> int:
    return int(datetime.strptime(s, "%Y%m%dT%H%M%SZ").replace(tzinfo=UTC).timestamp())


def midnight(zone: ZoneInfo, day: int) -> int:
    d = nd(day)
    return int(datetime(d.year, d.month, d.day, tzinfo=zone).timestamp())


def parse_recurrence(lines):
    """-> dict(weekly, interval, byday(list of 0..6), ex(list of instants), parts, extra, until_t, until_d,
    count)
    parts: the EXDATE parts inside line 0 in order (each a list of instants); extra: instants of
    EXDATE lines of their own; until_t: instant of UNTIL=...Z, until_d: day number of UNTIL=YYYYMMDD.
    Anything else raises (the simulation only knows simple rules)."""
    line0 = lines[0]
    if not line0.startswith("RRULE:"):
        raise BackendError("recurrence[0] is not an RRULE")
    weekly, interval, byday, parts = None, 1, [], []
    until_t = until_d = count = None
    for p in line0[len("RRULE:"):].split(";"):
        m = re.fullmatch(r"EXDATE[:=](.+)", p)
        if m:
            parts.append([parse_exdate(x) for x in m.group(1).split(",")])
            continue
        k, _, v = p.partition("=")
        if k == "FREQ" and v in ("DAILY", "WEEKLY"):
            weekly = v == "WEEKLY"
        elif k == "INTERVAL":
            interval = int(v)
        elif k == "BYDAY":
            byday = [WD.index(x) for x in v.split(",")]
        elif k in ("UNTIL", "COUNT") and (until_t, until_d, count) != (None, None, None):
            raise BackendError("UNTIL and COUNT must not occur together or twice")
        elif k == "UNTIL" and re.fullmatch(r"\d{8}T\d{6}Z", v):
            until_t = parse_exdate(v)
        elif k == "UNTIL" and re.fullmatch(r"\d{8}", v):
            until_d = dn(datetime.strptime(v, "%Y%m%d").date())
        elif k == "COUNT" and re.fullmatch(r"\d+", v) and int(v) >= 1:
            count = int(v)
        else:
            raise BackendError(f"unsupported RRULE part {p}")
    if weekly is None:
        raise BackendError("no FREQ")
    extra = []
    for ln in lines[1:]:
        m = re.fullmatch(r"EXDATE[:=](.+)", ln)
        if not m:
            raise BackendError(f"unsupported recurrence line {ln}")
        extra += [parse_exdate(x) for x in m.group(1).split(",")]
    return dict(weekly=weekly, interval=interval, byday=byday, parts=parts, extra=extra,
                ex=[t for p in parts for t in p] + extra, until_t=until_t, until_d=until_d, count=count)


class Stored:
    """one entry of the event store"""

    def __init__(self, **kw):
        self.id = kw.get("id")                 # str | None
        self.summary = kw.get("summary")       # str | None
        self.description = kw.get("description")
        self.tz = kw.get("tz")                 # zone name | None
        self.reminders = kw.get("reminders", [])   # [(method, minutes)]
        self.default_reminders = kw.get("default_reminders", False)
        self.all_day = kw["all_day"]
        self.s = kw["s"]                       # timed: instant; all-day: day number
        self.e = kw["e"]                       # ... | None (event without an end)
        self.pres = kw.get("pres", "zone")     # zone | fixed | naive
        self.recurrence = kw.get("recurrence")     # list[str] | None


class _Request:
    def __init__(self, body):
        self.body = body


class _Events:
    def __init__(self, fake):
        self.fake = fake

    def insert(self, *, calendarId, body):
        self.fake._tick("insert")
        return _Request(body)


class _Batch:
    def __init__(self, fake, callback):
        self.fake, self.callback, self.reqs = fake, callback, []

    def add(self, request, request_id=None):
        self.fake._tick("batch.add")
        self.reqs.append((request_id, request))

    def execute(self):
        self.fake._tick("execute")
        for rid, req in self.reqs:
            try:
                self.fake._tick("execute.item")
                new = self.fake._store_body(req.body)
            except BackendError as ex:
                self.callback(rid, None, ex)
            else:
                self.callback(rid, {"id": new.id}, None)


class _Service:
    def __init__(self, fake):
        self.fake = fake

    def new_batch_http_request(self, callback=None):
        self.fake._tick("new_batch_http_request")
        return _Batch(self.fake, callback)

    def events(self):
        self.fake._tick("events")
        return _Events(self.fake)


class FakeGoogleCalendar:
    def __init__(self, tzname: str, store=(), fail=(), calendar_id="cal"):
        self.tzname = tzname
        self.zone = ZoneInfo(tzname)
        self.store: list[Stored] = list(store)
        self.fail = set(fail)
        self.calls = 0
        self.log = []
        self.next_id = 1 + max([int(s.id[1:]) for s in self.store if s.id], default=0)
        self.calendar_id = calendar_id

    # ---- call accounting / fault injection
    def _tick(self, name):
        k = self.calls
        self.calls += 1
        self.log.append(name)
        if k in self.fail:
            raise BackendError(f"injected failure at backend call {k} ({name})")

    @property
    def service(self):
        return _Service(self)

    # ---- instants
    def span(self, st: Stored):
        """true instants of a stored single event / of a master's first instance"""
        if st.all_day:
            s = midnight(self.zone, st.s)
            e = None if st.e is None else midnight(self.zone, st.e)
            return s, e
        return st.s, st.e

    def ev_zone(self, st):
        return ZoneInfo(st.tz) if st.tz else self.zone

    def _present(self, st: Stored, s, e, eid, rid):
        """the gcsa Event handed to the adapter; s, e instants (timed) or day numbers (all-day)"""
        if st.all_day:
            start, end = nd(s), (None if e is None else nd(e))
        else:
            def one(t):
                if t is None:
                    return None
                if st.pres == "fixed":
                    off = datetime.fromtimestamp(t, self.ev_zone(st)).utcoffset()
                    return datetime.fromtimestamp(t, timezone(off))
                if st.pres == "naive":
                    z = ZoneInfo(st.tz) if st.tz else ZoneInfo("UTC")
                    return datetime.fromtimestamp(t, z).replace(tzinfo=None)   # keeps fold
                return datetime.fromtimestamp(t, self.ev_zone(st))
            start, end = one(s), one(e)
        rems = [EmailReminder(minutes_before_start=m) if k == "email" else PopupReminder(minutes_before_start=m)
                for k, m in st.reminders]
        # gcsa fills in a default end when none is given; an event without an end is produced by
        # clearing the attribute afterwards
        g = GcsaEvent(st.summary, start, end if end is not None else start, timezone=st.tz, event_id=eid,
                      description=st.description, reminders=rems or None,
                      default_reminders=st.default_reminders, recurrence=None,
                      _recurring_event_id=rid)
        if end is None:
            g.end = None
        return g

    # ---- expansion of recurring masters
    def instances(self, st: Stored, lo, hi):
        """(start, end) of the instances of master st with end > lo and start < hi (instants for timed
        masters, and (day, day) translated to instants for the test), ascending"""
        r = parse_recurrence(st.recurrence)
        out = []
        if st.all_day:
            day0, ndays = st.s, st.e - st.s
            dur_days = ndays
        else:
            z = self.ev_zone(st)
            w0 = wall_of(datetime.fromtimestamp(st.s, z))
            day0, sod = w0 // DAY, w0 % DAY
            dur = st.e - st.s
            wdur = wall_of(datetime.fromtimestamp(st.e, z)) - w0      # duration on the wall clock
            dur_days = dur // DAY + 2
        if hi is None:
            hi = (midnight(self.zone, day0) if st.all_day else st.s) + 800 * DAY
        first = day0 if lo is None or r["count"] is not None else max(day0, lo // DAY - dur_days - 2)
        last = hi // DAY + 2
        mon0 = day0 - (day0 + 3) % 7
        byday = r["byday"] or [(day0 + 3) % 7]
        n_occ = 0                           # occurrences of the rule seen so far (meaningful from day0 on)
        for d in range(first, last + 1):
            if r["weekly"]:
                wd = (d + 3) % 7
                if wd not in byday or ((d - wd - mon0) // 7) % r["interval"] != 0:
                    continue
            elif (d - day0) % r["interval"] != 0:
                continue
            n_occ += 1
            if r["count"] is not None and n_occ > r["count"]:
                continue
            if r["until_d"] is not None and d > r["until_d"]:
                continue
            if st.all_day:
                s, e = midnight(self.zone, d), midnight(self.zone, d + ndays)
                key = (d, d + ndays)
            else:
                nv = from_wall(d * DAY + sod)
                s = int(nv.replace(tzinfo=z).timestamp())
                e = int(from_wall(d * DAY + sod + wdur).replace(tzinfo=z).timestamp())
                key = (s, e)
            if r["until_t"] is not None and s > r["until_t"]:
                continue
            if s in r["ex"]:
                continue
            if (lo is None or e > lo) and s < hi:
                out.append((s, key))
        return out

    # ---- the client API
    def get_calendar(self, calendar_id=None):
        self._tick("get_calendar")
        return GcsaCalendar("Calendar", calendar_id=calendar_id, timezone=self.tzname)

    def get_events(self, time_min=None, time_max=None, single_events=False, order_by=None,
                   calendar_id=None, **kw):
        self._tick("get_events")
        assert single_events and order_by == "startTime"
        lo = None if time_min is None else int(time_min.timestamp())
        hi = None if time_max is None else int(time_max.timestamp())
        rows = []
        for st in self.store:
            if st.recurrence:
                for s, key in self.instances(st, lo, hi):
                    rows.append((s, self._present(st, key[0], key[1], f"{st.id}_{fmt_exdate(s)}", st.id)))
            else:
                s, e = self.span(st)
                e_eff = e if e is not None else s + 3600
                if (lo is None or e_eff > lo) and (hi is None or s < hi):
                    rows.append((s, self._present(st, st.s, st.e, st.id, None)))
        rows.sort(key=lambda r: r[0])       # stable
        return iter([g for _, g in rows])

    def _new_id(self):
        i = f"e{self.next_id}"
        self.next_id += 1
        return i

    def _store(self, *, summary, start, end, tz, description, reminders, recurrence):
        if isinstance(start, datetime) != isinstance(end, datetime):
            raise BackendError("start and end must both be dates or both datetimes")
        if isinstance(start, datetime):
            if start.tzinfo is None or end.tzinfo is None:
                raise BackendError("naive datetime")
            s, e, all_day = int(start.timestamp()), int(end.timestamp()), False
            if e < s:
                raise BackendError("The specified time range is empty")
        else:
            s, e, all_day = dn(start), dn(end), True
            if e <= s:
                raise BackendError("The specified time range is empty")
        if recurrence:
            parse_recurrence(recurrence)
        st = Stored(id=self._new_id(), summary=summary, description=description, tz=tz, reminders=reminders,
                    all_day=all_day, s=s, e=e, pres="zone", recurrence=list(recurrence) if recurrence else None)
        self.store.append(st)
        return st

    def add_event(self, event, calendar_id=None, **kw):
        self._tick("add_event")
        rems = [(r.method, r.minutes_before_start) for r in event.reminders]
        st = self._store(summary=event.summary, start=event.start, end=event.end, tz=event.timezone,
                         description=event.description, reminders=rems, recurrence=event.recurrence)
        s, e = st.s, st.e
        g = self._present(st, s, e, st.id, None)
        g.recurrence = list(st.recurrence) if st.recurrence else []
        return g

    def _store_body(self, body):
        """events().insert(body=...) executed inside a batch"""
        if "date" in body["start"]:
            start, end = date.fromisoformat(body["start"]["date"]), date.fromisoformat(body["end"]["date"])
            tz = None
        else:
            start = datetime.fromisoformat(body["start"]["dateTime"])
            end = datetime.fromisoformat(body["end"]["dateTime"])
            tz = body["start"].get("timeZone")
        rems = []
        if "reminders" in body and not body["reminders"].get("useDefault", True):
            rems = [(o["method"], o["minutes"]) for o in body["reminders"].get("overrides", [])]
        return self._store(summary=body.get("summary"), start=start, end=end, tz=tz,
                           description=body.get("description"), reminders=rems, recurrence=None)

    def _find(self, event_id):
        for i, st in enumerate(self.store):
            if st.id is not None and st.id == event_id:
                return i
        raise BackendError(f"404 event {event_id} not found")

    def get_event(self, event_id, calendar_id=None, **kw):
        self._tick("get_event")
        st = self.store[self._find(event_id)]
        g = self._present(st, st.s, st.e, st.id, None)
        g.recurrence = list(st.recurrence) if st.recurrence else []
        return g

    def update_event(self, event, calendar_id=None, **kw):
        self._tick("update_event")
        st = self.store[self._find(event.event_id)]
        # only the recurrence is ever changed by the adapter
        rec = list(event.recurrence) if event.recurrence else None
        if rec:
            parse_recurrence(rec)
        st.recurrence = rec
        return event

    def delete_event(self, event, calendar_id=None, **kw):
        self._tick("delete_event")
        eid = event if isinstance(event, str) else event.event_id
        del self.store[self._find(eid)]
