"""C07 (recurring patterns expand to the RFC 5545 occurrences in local wall-clock time) and
C08 (every finite window answered, no gaps / repeats / drift, both directions).

Parts (each a Family):
  zones     Model/Civil.v + Model/Zone.v against datetime / zoneinfo on a grid around every
            transition of every zone used (the zone tables are exported from the installed
            zoneinfo on every run and handed to Coq as explicit transition lists)
  rrule     Model/Recur.v rrule_model against dateutil.rrule itself (rule x dtstart -> first N)
  forward   RecurringPattern.fetch(a, b) against fetch_forward (corr) and the bi-infinite
            reference series of Spec/RecurSpec.v (oracle)
  windows   C08: wide window + nested windows, forward and reverse, hard anchors / gaps /
            long durations
"""
from __future__ import annotations

import atexit
import bisect
import calendar
import copy
import itertools
import os
from datetime import date, datetime, timedelta, timezone
from functools import lru_cache
from zoneinfo import ZoneInfo

import shutil
import subprocess

from .common import BUILD, COQ, cbool, clist, cz, ensure_repo_import, run_coqc
from .family import Check, Family

ensure_repo_import()
from calgebra.recurrence import RecurringPattern, day_of_week, time_of_day  # noqa: E402
from dateutil import rrule as du  # noqa: E402

DAY = 86400
EPOCH_ORD = date(1970, 1, 1).toordinal()
CODES = ["MO", "TU", "WE", "TH", "FR", "SA", "SU"]
FREQS = ["daily", "weekly", "monthly", "yearly"]
COQ_FREQ = {"daily": "Daily", "weekly": "Weekly", "monthly": "Monthly", "yearly": "Yearly"}
DU_FREQ = {"daily": du.DAILY, "weekly": du.WEEKLY, "monthly": du.MONTHLY, "yearly": du.YEARLY}
PERIOD_S = {"daily": DAY, "weekly": 7 * DAY, "monthly": 30 * DAY, "yearly": 365 * DAY}
PERIOD_MIN_DAYS = {"daily": 1, "weekly": 7, "monthly": 28, "yearly": 365}
CHUNK_S = {"daily": 30 * DAY, "weekly": 84 * DAY, "monthly": 365 * DAY, "yearly": 5 * 365 * DAY}

ZONES = ["America/Los_Angeles", "Europe/London", "Australia/Lord_Howe", "Asia/Kathmandu",
         "America/St_Johns", "Africa/Cairo", "America/Havana", "Asia/Kolkata", "UTC",
         "Pacific/Chatham",
         "America/Nuuk", "Pacific/Easter"]      # clocks go forward in the evening (Saturday 22:00 / 23:00)

# share of MONTHLY/YEARLY rules of part "forward" whose BYDAY mixes plain and n-th weekdays (known
# finding KF-MIXED-BYDAY-C07: dateutil reads the list as a conjunction); only the non-empty variant
# (the n-th weekday's plain form is listed too) — the empty variant makes every fetch spin to
# year 9999
MIXED_BYDAY_SHARE = float(os.environ.get("VERIF_RECUR_MIXED", "0.06"))

WIN_LO = (date(1990, 1, 1).toordinal() - EPOCH_ORD)
WIN_HI = (date(2036, 12, 31).toordinal() - EPOCH_ORD)
SCAN_LO = -2 * 365 * DAY                       # 1968
SCAN_HI = (date(2062, 1, 1).toordinal() - EPOCH_ORD) * DAY


def dn(d: date) -> int:
    return d.toordinal() - EPOCH_ORD


def dt(n: int) -> date:
    return date.fromordinal(n + EPOCH_ORD)


# --------------------------------------------------------------------------------------------
# zones: transition tables exported from the installed zoneinfo

def _off(tz, t):
    return int(datetime.fromtimestamp(t, tz).utcoffset().total_seconds())


@lru_cache(maxsize=None)
def zone_table(name: str):
    """(off0, [(T, offset after T), ...]) for SCAN_LO <= T < SCAN_HI: every change of the UTC
    offset, located to the second by bisection."""
    tz = ZoneInfo(name)
    step = 6 * 3600
    t = SCAN_LO
    cur = _off(tz, t)
    off0 = cur
    out = []
    while t < SCAN_HI:
        nxt = t + step
        o = _off(tz, nxt)
        if o != cur:
            lo, hi = t, nxt            # offset(lo) == cur, offset(hi) != cur
            while hi - lo > 1:
                mid = (lo + hi) // 2
                if _off(tz, mid) == cur:
                    lo = mid
                else:
                    hi = mid
            o2 = _off(tz, hi)
            out.append((hi, o2))
            cur = o2
            if o2 != o:                # two changes within one step: rescan from the first
                nxt = hi
        t = nxt
    return off0, out


def zname(name: str) -> str:
    return "z_" + name.replace("/", "_").replace("-", "_")


def zone_term(name: str) -> str:
    off0, tr = zone_table(name)
    return f"(mkZone {cz(off0)} " + clist([f"({cz(T)}, {cz(o)})" for T, o in tr]) + ")"


_ZONES_BUILT = set()


def coq_header(prop: str) -> str:
    """The zone tables are large literals (coqc spends ~30 us per byte elaborating them), so they
    are written and compiled once per run into build/<prop>/RecurZones.vo, which every case file
    of the run then loads."""
    d = BUILD / prop
    if prop not in _ZONES_BUILT:
        # compiled inside this process's own directory (where eval_cases puts the case files), so
        # that concurrent runs of the same check never share a half-written file
        sub = d / f"p{os.getpid()}"
        sub.mkdir(parents=True, exist_ok=True)
        src = ["From CG Require Export Harness.RecurChk."]
        for z in ZONES:
            src.append(f"Definition {zname(z)} : zone := {zone_term(z)}.")
        f = sub / "RecurZones.v"
        f.write_text("\n".join(src) + "\n")
        subprocess.run(["flock", str(COQ / ".lock"), "true"])      # wait for a running make
        rc, out, err = run_coqc(f)
        if rc != 0:
            raise RuntimeError(f"coqc failed on {f}: {err[-2000:]}")
        # also where eval_cases used to compile (build/<prop>), replaced atomically
        tmp = d / f"RecurZones.vo.{os.getpid()}"
        shutil.copy(f.with_suffix(".vo"), tmp)
        os.replace(tmp, d / "RecurZones.vo")
        _ZONES_BUILT.add(prop)

        def _cleanup(sub=sub):
            for q in sub.glob("RecurZones.*"):
                q.unlink(missing_ok=True)
            for q in sub.glob(".RecurZones.*"):
                q.unlink(missing_ok=True)
            try:
                sub.rmdir()
            except OSError:
                pass
        atexit.register(_cleanup)
    # case files are compiled with cwd = build/<prop>, which coqc maps to the empty logical path
    return "Require Import RecurZones.\n"


def wall_of(tz, t):
    d = datetime.fromtimestamp(t, tz)
    return calendar.timegm(d.timetuple()), d.fold


def utc_of_wall(tz, w, fold):
    naive = datetime(1970, 1, 1) + timedelta(seconds=w)
    return int(naive.replace(tzinfo=tz, fold=fold).timestamp())


class _LazyHeader:
    """the zone tables are exported and compiled only when a part is really evaluated (this module
    is imported by every ./check run)"""
    @property
    def header(self):
        return coq_header(self.prop)


class ZoneFamily(_LazyHeader, Family):
    name = "zones"
    case_type = "zcase"
    corr = "corr_zone"
    oracle = "oracle_zone"
    shard = 2
    n_quick = 0
    n_thorough = 0
    rule = ("every transition 1968-2062 of every zone used: utc->wall (+fold) and wall->utc (both folds) "
            "on a grid around the transition instant and its two wall-clock images, plus random instants; "
            "day number <-> (y, m, d), weekday for random and special days; non-trivial = has a transition probe")

    def __init__(self, prop):
        super().__init__(prop)

    def gen(self, rng, tier, n):
        offs = [-86400, -3601, -3600, -1801, -1800, -1, 0, 1, 1799, 1800, 3599, 3600, 7200]
        for z in ZONES:
            off0, tr = zone_table(z)
            sel = tr if tier == "thorough" or len(tr) <= 16 else sorted(rng.sample(tr, 16))
            groups = [sel[i:i + 8] for i in range(0, len(sel), 8)] or [[]]
            for g in groups:
                ts = []
                ws = []
                for (T, o) in g:
                    i = [x[0] for x in tr].index(T)
                    before = off0 if i == 0 else tr[i - 1][1]
                    for k in offs:
                        ts.append(T + k)
                        ws.append(T + before + k)
                        ws.append(T + o + k)
                for _ in range(12):
                    t = rng.randrange(0, SCAN_HI - 400 * DAY)
                    ts.append(t)
                    ws.append(t)
                days = [rng.randrange(-700, 36000) for _ in range(10)]
                days += [dn(date(y, m, d)) for (y, m, d) in
                         [(2000, 2, 29), (1900 + 100 * rng.randrange(1, 3), 3, 1), (2024, 12, 31), (2100, 2, 28),
                          (1972, 2, 29), (2036, 1, 1)]]
                yield dict(zone=z, ts=sorted(set(t for t in ts if t >= SCAN_LO + 2 * DAY)),
                           ws=sorted(set(w for w in ws if w >= SCAN_LO + 2 * DAY)), days=days,
                           ntrans=len(g))

    def run_impl(self, case):
        tz = ZoneInfo(case["zone"])
        u2w = []
        w2u = []
        for t in case["ts"]:
            w, f = wall_of(tz, t)
            u2w.append([t, w, f, utc_of_wall(tz, w, f)])
        for w in case["ws"]:
            for f in (0, 1):
                w2u.append([w, f, utc_of_wall(tz, w, f)])
        civ = []
        for n in case["days"]:
            d = dt(n)
            civ.append([n, d.year, d.month, d.day, d.weekday()])
        return dict(u2w=u2w, w2u=w2u, civ=civ)

    def coq_case(self, case, obs):
        u2w = clist([f"({cz(t)}, {cz(w)}, {cbool(f)}, {cz(tb)})" for t, w, f, tb in obs["u2w"]])
        w2u = clist([f"({cz(w)}, {cbool(f)}, {cz(t)})" for w, f, t in obs["w2u"]])
        civ = clist([f"({cz(n)}, ({cz(y)}, {m}, {d}), {wd})" for n, y, m, d, wd in obs["civ"]])
        return f"(mkZC {zname(case['zone'])} {u2w} {w2u} {civ})"

    def describe(self, case):
        return f"zone={case['zone']} instants={len(case['ts'])} walls={len(case['ws'])}"

    def nontrivial(self, case, obs):
        return case["ntrans"] > 0 or case["zone"] in ("UTC", "Asia/Kolkata")

    def distribution(self, case, dist):
        dist[case["zone"]] += 1
        dist["transitions_probed"] += case["ntrans"]


# --------------------------------------------------------------------------------------------
# rules

def py_period_of(freq, d: date):
    if freq == "daily":
        return dn(d)
    if freq == "weekly":
        return (dn(d) + 3) // 7
    if freq == "monthly":
        return d.year * 12 + d.month - 1
    return d.year


def _is_nth(k, ln, n):
    return ((k - 1) // 7 + 1 == n) if n > 0 else ((ln - k) // 7 + 1 == -n)


def py_filters_ok(parts, base: date, d: date, union=True):
    """reference (RFC) reading of the BYxxx parts, used only to reject rules that never fire"""
    freq, days, dom, months = parts["freq"], parts["days"], parts["dom"], parts["months"]
    nodr = not days and not dom
    bymonth = [base.month] if (nodr and freq == "yearly" and not months) else months
    bymonthday = [base.day] if (nodr and freq in ("yearly", "monthly")) else dom
    byday = [[base.weekday(), None]] if (nodr and freq == "weekly") else days
    if bymonth and d.month not in bymonth:
        return False
    mlen = calendar.monthrange(d.year, d.month)[1]
    if byday:
        def ent(e):
            wd, n = e
            if d.weekday() != wd:
                return False
            if n is None or freq in ("daily", "weekly"):
                return True
            if freq == "monthly" or months:
                return _is_nth(d.day, mlen, n)
            ylen = 366 if calendar.isleap(d.year) else 365
            return _is_nth(d.timetuple().tm_yday, ylen, n)
        plain = [e for e in byday if e[1] is None or freq in ("daily", "weekly")]
        nth = [e for e in byday if e not in plain]
        if union or not plain or not nth:
            if not any(ent(e) for e in byday):
                return False
        else:   # dateutil: plain weekdays AND n-th weekdays
            if not (any(ent(e) for e in plain) and any(ent(e) for e in nth)):
                return False
    if bymonthday:
        if not any((d.day == e) if e > 0 else (d.day == mlen + 1 + e) for e in bymonthday):
            return False
    return True


def py_period_dates(freq, d: date):
    if freq == "daily":
        return [d]
    if freq == "weekly":
        s = d - timedelta(days=d.weekday())
        return [s + timedelta(days=i) for i in range(7)]
    if freq == "monthly":
        return [date(d.year, d.month, i) for i in range(1, calendar.monthrange(d.year, d.month)[1] + 1)]
    n = 366 if calendar.isleap(d.year) else 365
    return [date(d.year, 1, 1) + timedelta(days=i) for i in range(n)]


def py_matches(parts, base: date, d: date, union=True):
    f = parts["freq"]
    if (py_period_of(f, d) - py_period_of(f, base)) % parts["interval"] != 0:
        return False
    if not py_filters_ok(parts, base, d, union):
        return False
    if parts["setpos"]:
        cand = [x for x in py_period_dates(f, d) if py_filters_ok(parts, base, x, union)]
        n = len(cand)
        ok = False
        for p in parts["setpos"]:
            i = p - 1 if p > 0 else n + p
            if 0 <= i < n and cand[i] == d:
                ok = True
        return ok
    return True


def fires_within(parts, base: date, years=12):
    """does the rule have an occurrence date within `years` after base (dateutil's reading)?"""
    d = base
    end = dn(base) + years * 366
    f = parts["freq"]
    k = parts["interval"]
    while dn(d) <= end:
        if (py_period_of(f, d) - py_period_of(f, base)) % k != 0:
            # jump to the next period start
            if f == "daily":
                d += timedelta(days=1)
            elif f == "weekly":
                d += timedelta(days=7 - d.weekday())
            elif f == "monthly":
                d = date(d.year + (d.month == 12), d.month % 12 + 1, 1)
            else:
                d = date(d.year + 1, 1, 1)
            continue
        if py_matches(parts, base, d, union=False):
            return True
        d += timedelta(days=1)
    return False


def gen_parts(rng, freq=None, mixed_ok=False):
    freq = freq or rng.choice(FREQS)
    interval = rng.choice([1, 1, 1, 2, 2, 3, 4, 5])
    days = []
    if freq in ("weekly", "monthly", "yearly") or rng.random() < 0.3:
        k = rng.choice([0, 0, 1, 1, 2, 3] if freq != "weekly" else [0, 1, 1, 2, 3, 3])
        wds = rng.sample(range(7), k)
        nth = freq in ("monthly", "yearly") and rng.random() < 0.55
        for wd in wds:
            if nth:
                n = rng.choice([1, 2, 3, 4, 5, -1, -2, -3, -4, -5, 1, -1])
                days.append([wd, n])
            else:
                days.append([wd, None])
        if nth and days and rng.random() < 0.15:
            # the same weekday twice with different ordinals: the 1st and the 3rd Monday
            wd0, n0 = days[0]
            n1 = rng.choice([x for x in (1, 2, 3, -1, -2) if x != n0])
            days.append([wd0, n1])
        if mixed_ok and nth and days:
            days.append([days[0][0], None])          # e.g. [1MO, MO]
    dom = []
    p_dom = {"daily": 0.1, "weekly": 0.08, "monthly": 0.5, "yearly": 0.35}[freq]
    if rng.random() < (p_dom if not days else p_dom / 3):
        dom = rng.sample([1, 2, 15, 28, 29, 30, 31, -1, -1, -2, -30, -31, 13], rng.choice([1, 1, 2, 3]))
        dom = list(dict.fromkeys(dom))
    months = []
    p_m = {"daily": 0.1, "weekly": 0.1, "monthly": 0.15, "yearly": 0.55}[freq]
    if rng.random() < p_m:
        months = sorted(rng.sample(range(1, 13), rng.choice([1, 1, 2, 3])))
    setpos = []
    if freq != "daily" and rng.random() < 0.2:
        setpos = list(dict.fromkeys(rng.sample([1, 1, 2, 3, -1, -1, -2, 5], rng.choice([1, 1, 2]))))
    return dict(freq=freq, interval=interval, days=days, dom=dom, months=months, setpos=setpos)


def zone_transitions(name):
    return zone_table(name)[1]


def gap_times(name, rng):
    """a wall-clock (date, second-of-day) inside a DST gap of the zone, if it has one"""
    off0, tr = zone_table(name)
    gaps = []
    for i, (T, o) in enumerate(tr):
        before = off0 if i == 0 else tr[i - 1][1]
        if o > before and T > 5 * 365 * DAY and o - before <= 7200:
            gaps.append((T, before, o))
    if not gaps:
        return None
    T, before, o = rng.choice(gaps)
    w = T + before + rng.randrange(0, o - before)      # wall reading that does not exist
    return w // DAY, w % DAY


def gen_rule(rng, hard=False, mixed_ok=False):
    """a rule accepted by RecurringPattern.__init__ that fires at least once in 12 years"""
    for _ in range(200):
        parts = gen_parts(rng, freq=rng.choice(["monthly", "monthly", "yearly", None, None, None]) if hard else None,
                          mixed_ok=mixed_ok)
        freq = parts["freq"]
        tz = rng.choice(ZONES)
        anchored = rng.random() < (0.7 if hard else 0.5)
        sod = rng.choice([0, 0, 9 * 3600, 86399, 2 * 3600 + 1800, 1800, rng.randrange(DAY), rng.randrange(DAY)])
        gap = gap_times(tz, rng) if rng.random() < (0.35 if hard else 0.1) else None
        anchor = None
        if gap is not None:
            sod = gap[1]
        if anchored:
            if hard and rng.random() < 0.6:
                y = rng.randrange(1976, 2035)
                m, d = rng.choice([(1, 31), (1, 30), (1, 29), (3, 31), (5, 31), (8, 31), (10, 31), (12, 31),
                                   (2, 29), (2, 29), (4, 30), (12, 30), (7, 29)])
                if (m, d) == (2, 29):
                    y -= y % 4
                ad = date(y, m, d)
            elif gap is not None and rng.random() < 0.5:
                ad = dt(gap[0])
            else:
                ad = dt(rng.randrange(dn(date(1975, 1, 1)), dn(date(2035, 12, 31))))
            if parts["days"]:
                # __init__ wants the anchor's weekday among the listed days
                # (its validation only looks at the plain names of the list when there are any)
                wds = {e[0] for e in parts["days"] if e[1] is None} or {e[0] for e in parts["days"]}
                if hard and ad.day >= 29 and rng.random() < 0.7:
                    # keep the hard date: choose the weekdays to fit it
                    shift = (ad.weekday() - sorted(wds)[0]) % 7
                    parts["days"] = [[(e[0] + shift) % 7, e[1]] for e in parts["days"]]
                else:
                    while ad.weekday() not in wds:
                        ad += timedelta(days=1)
            anchor = [ad.year, ad.month, ad.day, sod // 3600, sod % 3600 // 60, sod % 60]
            base = ad
        else:
            base = date(1969, 12, 29) if freq == "weekly" else date(1970, 1, 1)
        if not fires_within(parts, base):
            continue
        per = PERIOD_S[freq] * parts["interval"]
        dur = rng.choice([1, 60, 1800, 3600, 8 * 3600, DAY, DAY, DAY + 3600, per, per + 1, per - 1,
                          rng.randrange(1, 3 * per + 1), rng.randrange(1, per + 1), 3 * per])
        if hard and rng.random() < 0.3:
            dur = rng.randrange(per, 3 * per + 1)
        as_int = anchored and rng.random() < 0.12
        if as_int:
            # an int start is an INSTANT: inside a DST gap that runs up to midnight (America/Nuuk) the
            # instant of Saturday 23:30 reads Sunday 00:30, and the constructor rightly checks THAT date
            # against day=...; such an anchor can only be given as a datetime
            z = ZoneInfo(tz)
            inst = datetime(*anchor, tzinfo=z).timestamp()
            if datetime.fromtimestamp(inst, z).date() != date(*anchor[:3]):
                as_int = False
        return dict(parts, tz=tz, anchor=anchor, sod=sod, dur=dur, as_int=as_int, exdates=[])
    raise RuntimeError("rule generator starved")


def gen_form(rng):
    """a rule that day_of_week() / time_of_day() stand for"""
    tz = rng.choice(ZONES)
    base = dict(interval=1, dom=[], months=[], setpos=[], tz=tz, anchor=None, as_int=False, exdates=[])
    if rng.random() < 0.5:
        wds = sorted(rng.sample(range(7), rng.choice([1, 2, 3, 5, 7])))
        return "dow", dict(base, freq="weekly", days=[[w, None] for w in wds], sod=0, dur=DAY)
    sod = rng.choice([0, 9 * 3600, rng.randrange(DAY), 2 * 3600 + 1800, 1800])
    dur = rng.choice([DAY - sod, 1, 3600, rng.randrange(1, DAY - sod + 1)])
    dur = min(dur, DAY - sod)
    return "tod", dict(base, freq="daily", days=[], sod=sod, dur=dur)


def anchor_ts(rule):
    if rule["anchor"] is None:
        return None
    y, m, d, H, M, S = rule["anchor"]
    return int(datetime(y, m, d, H, M, S, tzinfo=ZoneInfo(rule["tz"])).timestamp())


def day_arg(rule):
    if not rule["days"]:
        return None
    out = []
    for wd, n in rule["days"]:
        out.append(CODES[wd] if n is None else f"{n}{CODES[wd]}")
    return out


def build(rule):
    if rule["anchor"] is not None:
        y, m, d, H, M, S = rule["anchor"]
        if rule["as_int"]:
            start = anchor_ts(rule)
        else:
            start = datetime(y, m, d, H, M, S, tzinfo=ZoneInfo(rule["tz"]))
    else:
        start = rule["sod"]
    p = RecurringPattern(rule["freq"], interval=rule["interval"], day=day_arg(rule),
                         day_of_month=rule["dom"] or None, month=rule["months"] or None,
                         start=start, duration=rule["dur"], tz=rule["tz"],
                         # `exdates` is declared Iterable[int]: hand over a one-shot iterator
                         exdates=(iter(list(rule["exdates"])) if rule["exdates"] else None),
                         bysetpos=rule["setpos"] or None)
    return p


def eff_sod_anchor(rule):
    """(anchor_timestamp, start_seconds) as __init__ derives them; also asserted on the object"""
    a = anchor_ts(rule)
    if a is None:
        return None, rule["sod"]
    if rule["as_int"]:
        loc = datetime.fromtimestamp(a, ZoneInfo(rule["tz"]))
        return a, loc.hour * 3600 + loc.minute * 60 + loc.second
    y, m, d, H, M, S = rule["anchor"]
    return a, H * 3600 + M * 60 + S


def pairs(it):
    return [[i.start, i.end] for i in it]


def coq_rule(rule):
    a, sod = eff_sod_anchor(rule)
    days = clist([f"({wd}, " + ("None" if n is None else f"Some {cz(n)}") + ")" for wd, n in rule["days"]])
    zl = lambda l: clist([cz(x) for x in l])
    return (f"(mkRule {COQ_FREQ[rule['freq']]} {rule['interval']} {days} {zl(rule['dom'])} {zl(rule['months'])} "
            f"{zl(rule['setpos'])} {zl(rule['exdates'])} " + ("None" if a is None else f"(Some {cz(a)})") +
            f" {cz(sod)} {cz(rule['dur'])} {zname(rule['tz'])})")


def coq_pairs(l):
    return clist([f"({cz(s)}, {cz(e)})" for s, e in l])


def coq_opairs(l):
    return "None" if l is None else f"(Some {coq_pairs(l)})"


# --------------------------------------------------------------------------------------------
# windows

def special_day(rng, rule):
    k = rng.random()
    if k < 0.12:
        y = rng.choice([1992, 1996, 2000, 2004, 2008, 2012, 2016, 2020, 2024, 2028, 2032, 2036])
        return dn(date(y, 2, 29)) + rng.choice([-1, 0, 0, 1])
    if k < 0.24:
        y, m = rng.randrange(1990, 2037), rng.randrange(1, 13)
        return dn(date(y, m, calendar.monthrange(y, m)[1])) + rng.choice([0, 0, 1, -1])
    if k < 0.32:
        return dn(date(rng.randrange(1990, 2037), 12, 31)) + rng.choice([0, 1])
    if k < 0.5:
        tr = [T for T, _ in zone_transitions(rule["tz"]) if WIN_LO * DAY < T < WIN_HI * DAY]
        if tr:
            return rng.choice(tr) // DAY + rng.choice([-1, 0, 0, 0, 1])
    if k < 0.62 and rule["anchor"] is not None:
        a = anchor_ts(rule) // DAY
        per = PERIOD_MIN_DAYS[rule["freq"]] * rule["interval"]
        return a + rng.randrange(-3 * per, 3 * per + 1)
    if k < 0.72 and rule["anchor"] is not None:
        a = anchor_ts(rule) // DAY
        if a > WIN_LO + 10:
            return rng.randrange(WIN_LO, a)            # before the anchor
    return rng.randrange(WIN_LO, WIN_HI)


def gen_window(rng, rule, long_ok=True):
    d = min(max(special_day(rng, rule), WIN_LO), WIN_HI)
    a = d * DAY + rng.choice([0, 0, 3600, 43200, 86399, rng.randrange(DAY), rng.randrange(DAY)])
    tr = [T for T, _ in zone_transitions(rule["tz"]) if d * DAY - DAY <= T <= d * DAY + 2 * DAY]
    if tr and rng.random() < 0.5:
        a = rng.choice(tr) + rng.choice([-3600, -1, 0, 1, 1800, 3600, -86400])
    per = PERIOD_S[rule["freq"]] * rule["interval"]
    choices = [1, 3600, DAY, 2 * DAY, 7 * DAY, per // 2 + 1, per, per + DAY]
    if long_ok:
        choices += [2 * per, 3 * per, rng.randrange(1, 3 * per + 1)]
    ln = rng.choice(choices)
    return a, a + ln


def snap(rng, a, b, occ):
    """move window edges onto occurrence edges (the skip test is end <= a, the stop test start > b)"""
    if occ and rng.random() < 0.35:
        s, e = rng.choice(occ)
        a2 = rng.choice([e, e - 1, s, s + 1, a])
        s, e = rng.choice(occ)
        b2 = rng.choice([s, s - 1, s + 1, e, b])
        # (stay inside the range the exported zone tables cover, look-back included)
        if a2 < b2 and a2 >= WIN_LO * DAY:
            return a2, b2
    return a, b


def add_exdates(rng, rule, occ):
    """exclusions picked from real occurrence starts, plus decoys that match no start"""
    if not occ or rng.random() > 0.3:
        return
    k = rng.choice([1, 1, 2, 3])
    ex = [s for s, _ in rng.sample(occ, min(k, len(occ)))]
    s0 = rng.choice(occ)[0]
    ex.append(s0 - s0 % DAY)                 # a midnight (UTC) that is not a start (unless it is)
    ex.append(rng.choice(occ)[1])            # an end
    rule["exdates"] = sorted(set(ex))


def in_table_range(case):
    """Every instant the implementation converts for this case — the look-back before the earliest
    window start, the ends of the occurrences starting up to the latest window end — lies inside the
    years the exported zone tables cover (1968 .. 2062); UTC has no table to leave."""
    rule = case["rule"]
    if rule["tz"] == "UTC":
        return True
    wins = [(case["a"], case["b"])] + [(sa, sb) for sa, sb, _ in case.get("subs", [])] + \
           [(pa, pb) for pa, pb, _ in case.get("pre", [])]
    lo = min(w[0] for w in wins)
    hi = max(w[1] for w in wins)
    per = {"daily": DAY, "weekly": 7 * DAY, "monthly": 32 * DAY, "yearly": 366 * DAY}[rule["freq"]] * rule["interval"]
    chunk = CHUNK_S[rule["freq"]]
    return lo - rule["dur"] - per - chunk - 3 * DAY >= SCAN_LO and hi + rule["dur"] + per + 3 * DAY <= SCAN_HI


class RecurFamily(_LazyHeader, Family):
    case_type = "rcase"
    corr = "corr_recur"
    shard = 120
    dom_funcs = {}

    def __init__(self, prop, name, oracle, n_quick, n_thorough, hard):
        super().__init__(prop)
        self.name, self.oracle, self.n_quick, self.n_thorough, self.hard = name, oracle, n_quick, n_thorough, hard
        if not hard:
            self.dom_funcs = {"MIXED_BYDAY": "no_mixed_byday"}
        self.rule = (
            "rules: freq x interval 1-5 x 0-3 weekdays (n-th +-1..5 for monthly/yearly) x month-days (incl. -1, 29-31) "
            "x months x set-positions x anchored (aware datetime or int timestamp) / time-of-day x durations 1 s .. 3 periods "
            "x exdates from real starts (+decoys) x 10 zones; windows 1990-2036 on leap days, month ends, year ends, "
            "DST transition days/instants, around and before the anchor, edges snapped onto occurrence edges"
            + ("; hard anchors (29-31, 29 Feb), DST-gap start times, durations > period, nested windows, reverse "
               "(windows wider than the pager's chunk)" if hard else "")
            + "; non-trivial = the wide window returned at least one occurrence")

    # ---- generation
    def gen(self, rng, tier, n):
        made = 0
        while made < n:
            rule = gen_rule(rng, hard=self.hard, mixed_ok=(not self.hard) and rng.random() < MIXED_BYDAY_SHARE)
            form = None
            if not self.hard and rng.random() < 0.08:
                form, rule = gen_form(rng)
            a, b = gen_window(rng, rule)
            if not self.hard and form is None and rng.random() < 0.12:
                # sweep: the same rule asked at consecutive days (every phase of the window
                # relative to the rule's period)
                step = rng.choice([DAY, DAY, 7 * DAY, 3600])
                for i in range(rng.choice([5, 8, 12])):
                    c = dict(rule=copy.deepcopy(rule), a=a + i * step, b=b + i * step, rev=False, subs=[],
                             slice=False, form=None)
                    if in_table_range(c):
                        made += 1
                        yield c
                continue
            made += 1
            try:
                occ = pairs(build(rule).fetch(a, b))
            except Exception:
                occ = []
            a, b = snap(rng, a, b, occ)
            add_exdates(rng, rule, occ)
            case = dict(rule=rule, a=a, b=b, rev=False, subs=[], form=form,
                        slice=(not self.hard and rng.random() < 0.2))
            if rng.random() < 0.3:
                per = PERIOD_S[rule["freq"]] * rule["interval"]
                d = rng.choice([3600, DAY, rule["dur"], rule["dur"] + DAY, per, per + rule["dur"], 2 * per])
                case["pre"] = [[a + d, b + d, False]]
                if rng.random() < 0.3:
                    case["pre"].append([a, b, True])
            if form is not None:
                case["rule"]["exdates"] = []
            if self.hard:
                self.add_nested(rng, case)
            elif rng.random() < 0.15:
                case["rev"] = True
            if not in_table_range(case):
                made -= 1
                continue           # an occurrence the windows can see would reach outside the exported zone tables
            yield case

    def add_nested(self, rng, case):
        rule = case["rule"]
        a, b = case["a"], case["b"]
        chunk = CHUNK_S[rule["freq"]]
        mode = rng.random()
        if mode < 0.3:
            # window longer than 1-3 chunks that ends exactly on an occurrence start, so interior
            # chunk edges (end - k*chunk) can coincide with occurrence starts as well
            per = PERIOD_S[rule["freq"]] * rule["interval"]
            try:
                occ = pairs(build(rule).fetch(b, b + 2 * per + DAY))
            except Exception:
                occ = []
            if occ:
                b = rng.choice(occ)[0]
                a = b - (rng.choice([1, 1, 2, 3]) * chunk + rng.choice([0, 1, DAY, 3600, rng.randrange(chunk)]))
                a = max(a, WIN_LO * DAY)
        elif mode < 0.6:
            # wide enough for the reverse pager to cut it into 2-4 chunks
            b = a + rng.choice([chunk + 1, chunk + DAY, 2 * chunk, 2 * chunk + rng.randrange(chunk), 3 * chunk + 5])
            if b > (WIN_HI + 400) * DAY:
                a, b = a - (b - (WIN_HI + 400) * DAY), (WIN_HI + 400) * DAY
        if rng.random() < 0.05 and (rule["tz"] == "UTC" or (rule["freq"] in ("daily", "weekly") and rule["dur"] < 60 * DAY
                                                             and rule["interval"] * PERIOD_S[rule["freq"]] < 60 * DAY)):
            # a window starting exactly at timestamp 0 (finite, but falsy in Python); only where the
            # look-back stays inside the exported zone tables (they start in 1968)
            a = 0
            b = rng.choice([DAY, 7 * DAY, chunk + DAY, 2 * chunk + 5, 3 * chunk])
        if a >= b:
            a = b - 1
        case["a"], case["b"] = a, b
        case["rev"] = rng.random() < 0.8
        subs = []
        for _ in range(rng.choice([1, 2, 3])):
            k = rng.random()
            if b - a < 2:
                break
            if k < 0.3 and b - a > chunk:
                # edges on the pager's chunk boundaries
                j = rng.randrange(1, (b - a) // chunk + 1)
                e = b - j * chunk
                sa = max(a, e + rng.choice([-DAY, -1, 0, 1, -chunk]))
                sb = min(b, e + rng.choice([0, 1, DAY, chunk]))
            else:
                sa = rng.randrange(a, b)
                sb = min(b, sa + rng.choice([1, 3600, DAY, 7 * DAY, (b - sa)]))
            if sa < sb:
                subs.append([sa, sb, rng.random() < 0.4])
        case["subs"] = subs

    def corpus(self):
        # an int start outside [0, 86400) that is not a timestamp is rejected by the constructor
        # (repaired: it used to be accepted and every fetch raised)
        base = dict(freq="daily", interval=1, days=[], dom=[], months=[], setpos=[], tz="UTC", anchor=None,
                    sod=0, dur=DAY, as_int=False, exdates=[])
        return [dict(rule=base, a=1700000000, b=1700100000, rev=False, subs=[], slice=False, form=None,
                     expect_reject=st) for st in (DAY, -1)]

    # ---- the real code
    def run_impl(self, case):
        rule = case["rule"]
        if case.get("expect_reject") is not None:
            try:
                RecurringPattern(rule["freq"], start=case["expect_reject"], tz=rule["tz"])
            except ValueError:
                pass          # rejected: go on with the accepted rule of the case
            else:
                return {"err": f"constructor accepted start={case['expect_reject']} (not a time of day, not a timestamp)"}
        try:
            p = build(rule)
            a_ts, sod = eff_sod_anchor(rule)
            assert p.anchor_timestamp == a_ts and p.start_seconds == sod, "harness: anchor/start_seconds derivation"
            # the same pattern object has answered other windows before (a later one, and the same
            # one in the other direction): answers must not depend on what was asked earlier
            for (pa, pb, prev) in case.get("pre", []):
                for _ in p.fetch(pa, pb, reverse=prev):
                    pass
            fwd = pairs(p.fetch(case["a"], case["b"]))
            rev = pairs(p.fetch(case["a"], case["b"], reverse=True)) if case["rev"] else None
            subs = []
            for sa, sb, r in case["subs"]:
                subs.append([sa, sb, pairs(p.fetch(sa, sb)), pairs(p.fetch(sa, sb, reverse=True)) if r else None])
            sl = pairs(p[case["a"]:case["b"]]) if case.get("slice") else None
            flat = None
            if case.get("form") == "dow":
                flat = pairs(day_of_week([CODES[wd].lower() for wd, _ in rule["days"]], tz=rule["tz"])[case["a"]:case["b"]])
            elif case.get("form") == "tod":
                flat = pairs(time_of_day(start=rule["sod"], duration=rule["dur"], tz=rule["tz"])[case["a"]:case["b"]])
            return dict(fwd=fwd, rev=rev, subs=subs, slice=sl, flat=flat)
        except AssertionError:
            raise
        except Exception as ex:
            return {"err": type(ex).__name__ + ": " + str(ex)[:200]}

    def coq_case(self, case, obs):
        subs = clist([f"({cz(sa)}, {cz(sb)}, {coq_pairs(f)}, {coq_opairs(r)})" for sa, sb, f, r in obs["subs"]])
        return (f"(mkRC {coq_rule(case['rule'])} {cz(case['a'])} {cz(case['b'])} {coq_pairs(obs['fwd'])} "
                f"{coq_opairs(obs['rev'])} {subs} {coq_opairs(obs.get('slice'))} {coq_opairs(obs.get('flat'))})")

    # ---- reporting helpers
    def describe(self, case):
        r = case["rule"]
        return (f"RecurringPattern({r['freq']!r}, interval={r['interval']}, day={day_arg(r)}, day_of_month={r['dom'] or None}, "
                f"month={r['months'] or None}, bysetpos={r['setpos'] or None}, start="
                + (f"datetime{tuple(r['anchor'])}@{r['tz']}" + (" as int" if r["as_int"] else "") if r["anchor"] else str(r["sod"]))
                + f", duration={r['dur']}, tz={r['tz']!r}, exdates={r['exdates']}).fetch({case['a']}, {case['b']})"
                + (" + [a:b]" if case.get("slice") else "") + (f" + {case['form']} form" if case.get("form") else "")
                + (" + reverse" if case["rev"] else "") + (f" + nested {case['subs']}" if case["subs"] else "")
                + (f" [after fetching {case['pre']} on the same object]" if case.get("pre") else ""))

    def nontrivial(self, case, obs):
        return bool(obs["fwd"])

    def distribution(self, case, dist):
        r = case["rule"]
        dist[r["freq"]] += 1
        dist["zone_" + r["tz"]] += 1
        dist["anchored" if r["anchor"] else "time_of_day"] += 1
        if r["interval"] > 1:
            dist["interval_gt1"] += 1
        for k in ("days", "dom", "months", "setpos", "exdates"):
            if r[k]:
                dist["with_" + k] += 1
        if any(e[1] is not None for e in r["days"]):
            dist["nth_weekday"] += 1
        if r["dur"] > PERIOD_S[r["freq"]] * r["interval"]:
            dist["duration_gt_period"] += 1
        if case["rev"]:
            dist["reverse"] += 1
        if case.get("slice"):
            dist["slice"] += 1
        if case.get("form"):
            dist["form_" + case["form"]] += 1
        if case["subs"]:
            dist["nested"] += 1
        if r["anchor"] and r["anchor"][2] >= 29:
            dist["anchor_day_29_31"] += 1
        if r["anchor"] and anchor_ts(r) > case["b"]:
            dist["window_before_anchor"] += 1

    def shrink_candidates(self, case):
        r = case["rule"]

        def with_rule(**kw):
            c = copy.deepcopy(case)
            c["rule"].update(kw)
            return c
        if case["subs"]:
            for i in range(len(case["subs"])):
                c = copy.deepcopy(case)
                del c["subs"][i]
                yield c
        if case["rev"]:
            yield dict(copy.deepcopy(case), rev=False)
        if r["exdates"]:
            yield with_rule(exdates=[])
            for i in range(len(r["exdates"])):
                yield with_rule(exdates=r["exdates"][:i] + r["exdates"][i + 1:])
        if r["setpos"]:
            yield with_rule(setpos=[])
        if r["months"]:
            yield with_rule(months=[])
        if r["dom"] and (r["days"] or len(r["dom"]) > 1):
            yield with_rule(dom=r["dom"][1:])
        if len(r["days"]) > 1:
            for i in range(len(r["days"])):
                if r["anchor"] is None:
                    yield with_rule(days=r["days"][:i] + r["days"][i + 1:])
        if r["tz"] != "UTC":
            yield with_rule(tz="UTC")
        if r["interval"] > 1:
            yield with_rule(interval=1)
        if r["as_int"]:
            yield with_rule(as_int=False)
        for d in (1, 3600, DAY):
            if r["dur"] > d:
                yield with_rule(dur=d)
        a, b = case["a"], case["b"]
        if b - a > 1:
            yield dict(copy.deepcopy(case), b=a + (b - a) // 2, subs=[])
            yield dict(copy.deepcopy(case), a=a + (b - a) // 2, subs=[])

    def perturb(self, case, rng):
        c = copy.deepcopy(case)
        k = rng.random()
        if k < 0.5:
            sh = rng.choice([-DAY, DAY, -3600, 3600, 7 * DAY, -30 * DAY, 365 * DAY])
            c["a"] += sh
            c["b"] += sh
            c["subs"] = []
        elif k < 0.7:
            c["rule"]["dur"] = max(1, c["rule"]["dur"] + rng.choice([-1, 1, 3600, -3600]))
        elif k < 0.85:
            c["rule"]["exdates"] = []
        else:
            c["b"] = c["a"] + max(1, (c["b"] - c["a"]) // 2)
            c["subs"] = []
        if c["a"] < WIN_LO * DAY:
            return None
        return c


# --------------------------------------------------------------------------------------------
# rrule_model against dateutil.rrule

class RRuleFamily(_LazyHeader, Family):
    name = "rrule"
    case_type = "qcase"
    corr = "corr_rrule"
    oracle = "oracle_rrule"
    shard = 120
    rule = ("dateutil.rrule(freq, dtstart=date at midnight, interval, byweekday (plain / n-th), bymonthday, bymonth, "
            "bysetpos) -> first 14 occurrences (or those within 13 years), dtstart anywhere in 1975-2036 incl. "
            "29-31, 29 Feb, mid-week; non-trivial = at least 2 occurrences")

    def __init__(self, prop, n_quick, n_thorough):
        super().__init__(prop)
        self.n_quick, self.n_thorough = n_quick, n_thorough

    def gen(self, rng, tier, n):
        made = 0
        while made < n:
            parts = gen_parts(rng)
            if rng.random() < 0.3:
                y = rng.randrange(1976, 2036)
                m, d = rng.choice([(1, 31), (1, 30), (1, 29), (3, 31), (2, 29), (12, 31), (8, 31), (2, 28), (4, 30)])
                if (m, d) == (2, 29):
                    y -= y % 4
                ds = date(y, m, d)
            else:
                ds = dt(rng.randrange(dn(date(1975, 1, 1)), dn(date(2036, 12, 31))))
            if not fires_within(parts, ds):
                continue
            made += 1
            yield dict(parts, dtstart=dn(ds))

    def run_impl(self, case):
        try:
            ds = dt(case["dtstart"])
            kw = dict(freq=DU_FREQ[case["freq"]], interval=case["interval"],
                      dtstart=datetime(ds.year, ds.month, ds.day))
            if case["days"]:
                kw["byweekday"] = [du.weekday(wd, n) if n is not None else du.weekday(wd) for wd, n in case["days"]]
            if case["dom"]:
                kw["bymonthday"] = case["dom"]
            if case["months"]:
                kw["bymonth"] = case["months"]
            if case["setpos"]:
                kw["bysetpos"] = case["setpos"]
            lim = case["dtstart"] + 13 * 366
            out = []
            for o in itertools.islice(du.rrule(**kw), 14):
                out.append(dn(o.date()))
                if out[-1] > lim:
                    break
            return dict(occ=out)
        except Exception as ex:
            return {"err": type(ex).__name__ + ": " + str(ex)[:200]}

    def coq_case(self, case, obs):
        days = clist([f"({wd}, " + ("None" if n is None else f"Some {cz(n)}") + ")" for wd, n in case["days"]])
        zl = lambda l: clist([cz(x) for x in l])
        last = obs["occ"][-1] if obs["occ"] else case["dtstart"]
        periods = (last - case["dtstart"]) // (case["interval"] * PERIOD_MIN_DAYS[case["freq"]]) + 2
        return (f"(mkQC {COQ_FREQ[case['freq']]} {case['interval']} {days} {zl(case['dom'])} {zl(case['months'])} "
                f"{zl(case['setpos'])} {cz(case['dtstart'])} {periods} {zl(obs['occ'])})")

    def describe(self, case):
        return (f"rrule({case['freq']}, dtstart={dt(case['dtstart'])}, interval={case['interval']}, byweekday={case['days']}, "
                f"bymonthday={case['dom']}, bymonth={case['months']}, bysetpos={case['setpos']})")

    def nontrivial(self, case, obs):
        return len(obs["occ"]) >= 2

    def distribution(self, case, dist):
        dist[case["freq"]] += 1
        for k in ("days", "dom", "months", "setpos"):
            if case[k]:
                dist["with_" + k] += 1

    def shrink_candidates(self, case):
        for k in ("setpos", "months", "dom", "days"):
            if case[k]:
                yield dict(case, **{k: []})
                if len(case[k]) > 1:
                    yield dict(case, **{k: case[k][1:]})
        if case["interval"] > 1:
            yield dict(case, interval=1)


ASSUME = [
    "dateutil.rrule and zoneinfo are external: rrule_model / Model/Zone.v are validated against them differentially on "
    "every run (parts rrule, zones), not proved equal",
    "zones are explicit transition tables exported from the installed tzdata for 1968-2062; zones with a shift of a day "
    "or more (Pacific/Apia 2011) are outside the model",
    "rules with BYWEEKNO/BYYEARDAY/BYHOUR/BYMINUTE/BYSECOND/WKST are outside the property's rule list and the model; "
    "day=[] / day_of_month=[] (empty lists) are not generated; rules that never fire within 12 years of their base "
    "date are not generated (dateutil then spins up to year 9999)",
    "windows have a < b, both finite, 1990-2038; anchors 1975-2035",
]

CHECKS = {
    "C07": Check("C07", [ZoneFamily("C07"), RRuleFamily("C07", 700, 8000),
                         RecurFamily("C07", "forward", "oracle_C07", 1800, 25000, hard=False)], ASSUME),
    "C08": Check("C08", [ZoneFamily("C08"),
                         RecurFamily("C08", "windows", "oracle_C08", 1200, 15000, hard=True)], ASSUME),
}
