"""Shared machinery of the checks: locating the tree under test, running coqc over generated
case files, known findings, verdicts, evidence and replay files."""
from __future__ import annotations

import hashlib
import json
import os
import re
import subprocess
import sys
import time
from concurrent.futures import ThreadPoolExecutor
from pathlib import Path

VERIF = Path(__file__).resolve().parent.parent
COQ = VERIF / "coq"
BUILD = VERIF / "build"
REPO = Path(os.environ.get("CALGEBRA_REPO", "/repo")).resolve()
NCPU = int(os.environ.get("VERIF_JOBS", "16"))

COQ_ARGS = ["-Q", str(COQ), "CG", "-w",
            "-notation-overridden,-deprecated-hint-without-locality,-deprecated-syntactic-definition"]


def ensure_repo_import():
    """Import calgebra from the tree under test and make sure that is what we got (the venv
    has a development-mode install that would otherwise win silently)."""
    if str(REPO) not in sys.path or sys.path[0] != str(REPO):
        sys.path.insert(0, str(REPO))
    import calgebra  # noqa

    got = Path(calgebra.__file__).resolve()
    if REPO not in got.parents:
        raise SystemExit(f"harness error: imported calgebra from {got}, expected under {REPO}")
    return calgebra


# --------------------------------------------------------------------------------------------
# Coq terms

def cz(x):
    """Z literal."""
    return f"({x})" if x < 0 else str(x)


def coz(x):
    """option Z"""
    return "None" if x is None else f"(Some {cz(x)})"


def cbool(b):
    return "true" if b else "false"


def clist(items):
    return "[" + "; ".join(items) + "]"


def civl(t):
    s, e, pid = t
    return f"(mkI {coz(s)} {coz(e)} " + ("Plain" if pid is None else f"(Rich {pid}%N)") + ")"


# --------------------------------------------------------------------------------------------
# Building the Coq development and running case files

def make_coq(targets=None, timeout=1500):
    """Incremental full .vo build (never -vos).  Returns (ok, output, seconds).
    The Makefile is generated from the files of _CoqProject that exist, so a listed but missing
    file only breaks what depends on it."""
    t0 = time.time()
    proj = (COQ / "_CoqProject").read_text().splitlines()
    kept = [l for l in proj if not (l.strip().endswith(".v") and not l.startswith("-")
                                    and not (COQ / l.strip()).exists())]
    build_proj = COQ / "_CoqProject.build"
    text = "\n".join(kept) + "\n"
    lock = ["flock", str(COQ / ".lock")]
    if (not build_proj.exists()) or build_proj.read_text() != text or not (COQ / "Makefile").exists():
        build_proj.write_text(text)
        subprocess.run(lock + ["coq_makefile", "-f", "_CoqProject.build", "-o", "Makefile"], cwd=COQ,
                       check=True, capture_output=True)
    # -k: a file that fails to build must only affect the properties whose theorem file depends on it
    cmd = lock + ["timeout", str(timeout), "make", "-k", "-j", str(NCPU)]
    if targets:
        cmd += targets
    p = subprocess.run(cmd, cwd=COQ, capture_output=True, text=True)
    return p.returncode == 0, (p.stdout + p.stderr)[-6000:], time.time() - t0


def run_coqc(path: Path, timeout=600):
    p = subprocess.run(["timeout", str(timeout), "coqc", *COQ_ARGS, str(path)],
                       cwd=path.parent, capture_output=True, text=True)
    return p.returncode, p.stdout, p.stderr


_LIST_NAT = re.compile(r"=\s*(\[[^\]]*\])\s*:\s*list nat", re.S)


def eval_cases(prop: str, header: str, case_type: str, cases: list[str], funcs: list[str],
               shard=400, tag="cases"):
    """Write the cases into shards, evaluate `fails f cases` for every f in funcs with
    vm_compute inside coqc, and return {f: sorted list of global failing indices}.
    Raises RuntimeError if coqc rejects a shard (that is a harness/model build problem)."""
    d = BUILD / prop / f"p{os.getpid()}"     # per process: concurrent runs do not clash
    d.mkdir(parents=True, exist_ok=True)
    for old in d.glob(f"{tag}_*"):
        old.unlink()
    shards = [cases[i:i + shard] for i in range(0, len(cases), shard)] or [[]]
    paths = []
    for k, sh in enumerate(shards):
        p = d / f"{tag}_{k}.v"
        with open(p, "w") as f:
            f.write(header + "\n")
            f.write(f"Definition cases : list {case_type} := [\n")
            f.write(";\n".join(sh))
            f.write("\n].\n")
            for fn in funcs:
                f.write(f"Eval vm_compute in (fails {fn} cases).\n")
        paths.append(p)

    def one(p):
        return run_coqc(p)

    res = {fn: [] for fn in funcs}
    with ThreadPoolExecutor(max_workers=NCPU) as ex:
        outs = list(ex.map(one, paths))
    for k, (rc, out, err) in enumerate(outs):
        if rc != 0:
            raise RuntimeError(f"coqc failed on {paths[k]}:\n{err[-3000:]}")
        found = _LIST_NAT.findall(out)
        if len(found) != len(funcs):
            raise RuntimeError(f"could not parse coqc output of {paths[k]}:\n{out[-2000:]}")
        for fn, txt in zip(funcs, found):
            idx = [int(x) for x in re.findall(r"\d+", txt)]
            res[fn].extend(k * shard + i for i in idx)
    for p in paths:
        for ext in (".vo", ".vok", ".vos", ".glob"):
            q = p.with_suffix(ext)
            if q.exists():
                q.unlink()
        aux = p.parent / ("." + p.stem + ".aux")
        if aux.exists():
            aux.unlink()
        if not os.environ.get("VERIF_KEEP_CASES"):
            p.unlink()
    return res


_IVL = re.compile(r"st := (None|Some \(?-?\d+\)?);\s*en := (None|Some \(?-?\d+\)?);\s*pl := (Plain|Rich \d+)", re.S)


def _oz(s):
    return None if s == "None" else int(re.search(r"-?\d+", s).group())


def eval_term(prop: str, header: str, term: str):
    """Evaluate one term of type list ivl in Coq and parse it (used for replays)."""
    d = BUILD / prop / f"p{os.getpid()}"
    d.mkdir(parents=True, exist_ok=True)
    p = d / "term_eval.v"
    p.write_text(header + f"\nEval vm_compute in ({term}).\n")
    rc, out, err = run_coqc(p)
    if rc != 0:
        return None
    res = []
    for a, b, c in _IVL.findall(out):
        res.append([_oz(a), _oz(b), None if c == "Plain" else int(c.split()[1])])
    return res


# --------------------------------------------------------------------------------------------
# Property theorem files: re-check and collect Print Assumptions

def check_props_file(prop: str):
    """Re-run coqc on Props/<prop>.v (its dependencies were just built by make) and collect
    the theorems it states and the axioms Print Assumptions reports.
    Returns dict(ok, theorems=[...], axioms={thm: [...]}, output)."""
    src = COQ / "Props" / f"{prop}.v"
    if not src.exists():
        return dict(ok=False, theorems=[], axioms={}, output=f"{src} missing", closed=0)
    rc, out, err = run_coqc(src, timeout=900)
    text = src.read_text()
    thms = re.findall(r"^\s*(?:Theorem|Example|Lemma|Corollary)\s+([A-Za-z0-9_']+)", text, re.M)
    printed = re.findall(r"Print Assumptions\s+([A-Za-z0-9_'.]+)\s*\.", text)
    # Split output per Print Assumptions answer
    chunks = re.split(r"(?=Closed under the global context|Axioms:)", out)
    answers = [c for c in chunks if c.startswith("Closed under") or c.startswith("Axioms:")]
    axioms = {}
    for name, ans in zip(printed, answers):
        if ans.startswith("Closed under"):
            axioms[name] = []
        else:
            axioms[name] = re.findall(r"^([A-Za-z0-9_'.]+)\s*:", ans, re.M)
    return dict(ok=(rc == 0), theorems=thms, axioms=axioms, printed=printed,
                output=(out + err)[-4000:], n_answers=len(answers))


def run_coqchk(prop: str, timeout=4200):
    """thorough tier: re-check the property's compiled theorem file and everything it depends on
    with the independent checker coqchk, and collect the axioms it reports (-o).
    Returns dict(ok, axioms=[...], type_in_type, unsafe_fix, assumed_positive, seconds, output)."""
    t0 = time.time()
    p = subprocess.run(["timeout", str(timeout), "coqchk", "-silent", "-Q", str(COQ), "CG", "-o", f"CG.Props.{prop}"],
                       cwd=COQ, capture_output=True, text=True)
    out = p.stdout + p.stderr
    timed_out = p.returncode == 124

    def section(title):
        m = re.search(r"\* " + re.escape(title) + r":(.*?)(?=\n\* |\Z)", out, re.S)
        if not m:
            return None
        body = m.group(1).strip()
        return [] if body == "<none>" else [l.strip() for l in body.splitlines() if l.strip()]
    if timed_out:
        # coqchk re-checks the whole dependency cone single-threaded; for the largest cones (C07 / C08: the
        # 400-year calendar enumeration, the recurrence exactness proofs and their source-equivalence proofs)
        # it can exceed the budget on a loaded machine.  Everything was accepted by coqc's kernel in this run;
        # an unfinished re-check is recorded as such, it is not a failed one.
        return dict(ok=None, timed_out=True, axioms=None, type_in_type=None, unsafe_fix=None, assumed_positive=None,
                    seconds=round(time.time() - t0, 1), output=f"coqchk did not finish within {timeout} s")
    return dict(ok=(p.returncode == 0), timed_out=False, axioms=section("Axioms"),
                type_in_type=section("Constants/Inductives relying on type-in-type"),
                unsafe_fix=section("Constants/Inductives relying on unsafe (co)fixpoints"),
                assumed_positive=section("Inductives whose positivity is assumed"),
                seconds=round(time.time() - t0, 1), output=out[-1500:])


FORBIDDEN = re.compile(r"\b(Admitted|admit|Axiom|Parameter|Conjecture|Unset Guard|bypass_check|"
                       r"type-in-type|impredicative-set|Admit Obligations)\b")


def project_files():
    """The .v files of the development: exactly those listed in coq/_CoqProject."""
    out = []
    for line in (COQ / "_CoqProject").read_text().splitlines():
        line = line.strip()
        if line.endswith(".v") and not line.startswith("-"):
            out.append(COQ / line)
    return out


def scan_forbidden():
    """No Admitted/admit/Axiom/Parameter/... anywhere in the development, and no .v file under
    coq/ that escapes the build (every file there must be listed in _CoqProject, except
    work-in-progress files, which are reported separately and are not part of any claim)."""
    bad = []
    for p in project_files():
        if not p.exists():
            continue      # a missing file fails the build of whatever depends on it; not a forbidden construct
        text = re.sub(r"\(\*.*?\*\)", "", p.read_text(), flags=re.S)
        for n, line in enumerate(text.splitlines(), 1):
            if FORBIDDEN.search(line):
                bad.append(f"{p.relative_to(COQ)}:{n}: {line.strip()}")
    return bad


# --------------------------------------------------------------------------------------------
# Known findings

def load_known(prop: str):
    """Entries of known-findings.txt for this property: list of dict(kind, id, witness, text)."""
    out = []
    f = VERIF / "known-findings.txt"
    if not f.exists():
        return out
    for line in f.read_text().splitlines():
        line = line.strip()
        if not line or line.startswith("#"):
            continue
        m = re.match(r"known:\s+property=(\S+)\s+id=(\S+)\s+sig=(\S+)\s+witness=(\S+)\s+::\s+(.*)", line)
        if m and m.group(1) == prop:
            out.append(dict(kind="known", id=m.group(2), sig=m.group(3), witness=m.group(4), text=m.group(5)))
    return out


# --------------------------------------------------------------------------------------------
# Reporting

class Report:
    def __init__(self, prop, tier, seed):
        self.prop, self.tier, self.seed = prop, tier, seed
        self.t0 = time.time()
        self.violations = []       # list of (replay_path, suffix)
        self.known_lines = []
        self.coverage = {}
        self.assumptions = []
        self.level = "proof"

    def violation(self, payload: dict, no_input=False):
        (VERIF / "replays").mkdir(exist_ok=True)
        h = hashlib.sha1(json.dumps(payload, sort_keys=True, default=str).encode()).hexdigest()[:10]
        path = VERIF / "replays" / f"{self.prop}-{h}.json"
        payload = dict(payload, property=self.prop, seed=self.seed, tier=self.tier)
        path.write_text(json.dumps(payload, indent=1, default=str))
        self.violations.append((path, " no-failing-input-found" if no_input else ""))

    def known(self, text):
        if text not in self.known_lines:
            self.known_lines.append(text)

    def finish(self):
        ev = dict(property_id=self.prop, tier=self.tier, seed=self.seed, level=self.level,
                  coverage=self.coverage, assumptions=self.assumptions,
                  wall_s=round(time.time() - self.t0, 2), violations=len(self.violations))
        (VERIF / "evidence").mkdir(exist_ok=True)
        (VERIF / "evidence" / f"{self.prop}.json").write_text(json.dumps(ev, indent=1, default=str))
        for k in self.known_lines:
            print(f"KNOWN-FINDING: property={self.prop} {k}")
        for path, suffix in self.violations:
            print(f"VIOLATION property={self.prop} replay={path}{suffix}")
        sys.stdout.flush()
        return 1 if self.violations else 0


TRUSTED_BASE = [
    "Coq 8.16.1 kernel (coqc); vm_compute used to evaluate models/oracles on cases and to close finite facts; native_compute not used",
    "hand-written Gallina model of the code, tied to /repo by the differential correspondence of this run (Python harness, generators, canonicalisers)",
    "CPython semantics of generators, dataclasses.replace, tuple comparison; heapq.merge and sortedcontainers.SortedList are modelled, not verified",
    "tie C: the Python-subset-to-Gallina translator harness/translate/pysrc.py (fail-closed) for the functions listed under source_translation; its output is proved equal to the model in Proofs/GenEq*.v; the TRUSTED readings of each extension are listed at the top of harness/translate/srcspecs_*.py",
]
