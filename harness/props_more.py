"""C16 overlapping(point), C17 buffer / merge_within, C18 filters."""
from __future__ import annotations

from . import exprs as X
from .props_core import depth_for, tree_with_leaf_filters
from .common import cbool, civl
from .family import Check, Family
from .props_core import ASSUME
from .slicefam import ExprFamily

FLAT_OPS = ["or", "and", "filt_leaf", "buf"]


def ov_tree(g, rng, depth, mode):
    """The expression class C16 quantifies over: stored timelines (and unions, intersections,
    leaf filters, buffers of them), with difference and complement applied on top, nested in
    any way.  (A complement or difference *below* a union/intersection/buffer is outside the
    class: those operators answer overlapping() from a fetch clipped to [p, p+1).)"""
    if depth <= 0 or rng.random() < 0.3:
        return tree_with_leaf_filters(g, rng, rng.choice([0, 0, 1]), FLAT_OPS, mode)
    if rng.random() < 0.5:
        return {"op": "inv", "s": g.tree(rng.choice([0, 1, 2]), ["or", "and", "sub", "inv"], mode)
                if rng.random() < 0.5 else ov_tree(g, rng, depth - 1, mode)}
    # subtractors may be arbitrary whatever the source is: nested / overlapping / duplicated holes,
    # from one timeline or a union of them
    smode = rng.choice([None, "nested", "nested", "dup", mode])
    return {"op": "sub", "l": ov_tree(g, rng, depth - 1, mode),
            "r": g.with_empty_event(g.tree(rng.choice([0, 0, 1]), ["or", "or", "and", "sub", "inv"], smode), 0.2)}


def gen_overlapping(g, rng, tier, n):
    """Points inside, on either edge of, and outside every interval."""
    for k in range(n):
        g.next_id = 1
        mode = None if k % 3 == 0 else rng.choice(["disjoint", "touch"])
        t = ov_tree(g, rng, rng.choice([0, 1, 1, 2, 2]), mode)
        if rng.random() < 0.06:
            # a union / intersection / filter / buffer ABOVE a complement or difference: the recorded
            # finding KF-OVCLIP-C16 (signature OVC) — kept in the stream so that it stays visible
            other = ov_tree(g, rng, rng.choice([0, 1]), mode)
            j = rng.random()
            if j < 0.4:
                t = {"op": "or", "l": t, "r": other}
            elif j < 0.7:
                t = {"op": "and", "l": t, "r": other}
            elif j < 0.85:
                t = {"op": "filt", "s": t, "f": g.filt(1, fields=False)}
            else:
                t = {"op": "buf", "s": t, "before": rng.choice([0, 1, 2]), "after": rng.choice([0, 1, 2])}
        pts = sorted({x for ev in X.all_events(t) for x in ev[:2] if x is not None} | {0})
        cand = set()
        for x in pts:
            cand |= {x - 1, x, x + 1}
        p = rng.choice(sorted(cand))
        yield dict(tree=t, q=[(p,)])


def gen_transforms(g, rng, tier, n):
    """Slices of buffer(...) over stored timelines and set expressions, incl. events that lie
    outside the window and reach in only after extension."""
    for k in range(n):
        g.next_id = 1
        mode = None if k % 2 == 0 else rng.choice(["disjoint", "touch", "nested"])
        inner = g.tree(rng.choice([0, 0, 1]), ["or"], mode)
        t = {"op": "buf", "s": inner, "before": rng.choice([0, 1, 2, 5]), "after": rng.choice([0, 1, 2, 5])}
        if rng.random() < 0.2:
            t = {"op": "or", "l": t, "r": g.leaf(mode)}
        a, b = g.window()
        rev = rng.random() < 0.3 and b is not None
        yield dict(tree=t, q=[(a, b, rev)])


def gen_mw(g, rng, tier, n):
    for k in range(n):
        g.next_id = 1
        mode = rng.choice([None, None, "disjoint", "touch", "nested", "dup"])
        inner = g.leaf(mode) if rng.random() < 0.7 else g.tree(1, ["or"], mode)
        t = {"op": "mw", "s": inner, "gap": rng.choice([0, 1, 2, 5])}
        a, b = g.window()
        if rng.random() < 0.25:
            a, b = None, None     # a window containing all events: the exact global merge
        rev = rng.random() < 0.3 and b is not None
        yield dict(tree=t, q=[(a, b, rev)])


def gen_filters(g, rng, tier, n):
    """Filter trees on stored events; durations straddle k*scale by +-1."""
    for k in range(n):
        g.next_id = 1
        scale = rng.choice([1, 60, 3600, 86400])
        evs = []
        for _ in range(rng.choice([1, 2, 3, 4])):
            s = rng.choice([None, 0, 1, 7, 100])
            kk = rng.choice([0, 1, 2, 3])
            d = max(1, kk * scale + rng.choice([-1, 0, 1]))
            e = None if (s is None and rng.random() < 0.3) or rng.random() < 0.1 else (0 if s is None else s) + d
            evs.append([s, e, g.fresh()])
        f = filt_scaled(g, rng, 2, scale)
        t = {"op": "filt", "s": {"op": "stored", "evs": evs}, "f": f}
        if f["k"] == "and" and rng.random() < 0.5:
            t["chain"] = True          # written tl & f1 & f2 ... instead of tl & (f1 & f2 ...)
        if rng.random() < 0.12:
            # a guarded chain  tl & (prio != None) & (prio >= k): the second predicate is only defined
            # on the events the first lets through (ordering a None would raise TypeError), so the
            # filters must be applied in the order written
            fp = ["field", "prio"] + (["callable"] if rng.random() < 0.5 else [])
            guard = {"k": "cmp", "p": fp, "c": "ne", "v": ["none"]}
            second = {"k": "cmp", "p": fp, "c": rng.choice(["ge", "le", "gt", "lt"]),
                      "v": ["int", rng.choice([0, 1, 2, 5])]}
            if all(e[2] % 5 for e in evs):
                evs[0][2] = 5 * (max(e[2] for e in evs) // 5 + 1)      # an event whose prio is None (ids = 0 mod 5)
            t = {"op": "filt", "s": {"op": "filt", "s": {"op": "stored", "evs": evs}, "f": guard}, "f": second}
        if rng.random() < 0.15:
            t = {"op": "or", "l": t, "r": g.leaf("disjoint")}
        yield dict(tree=t, q=[(None, None, False) if rng.random() < 0.5 else (rng.choice([-1, 0, 50]), rng.choice([None, 200, 10 ** 6]), False)])


def gen_filters_derived(g, rng, tier, n):
    """A filter applied to an intersection of stored timelines, sliced with a window that cuts through
    events: the predicate must see the intersection's fragment (computed from the full stored events),
    not its clip to the window.  (A filter on a DIFFERENCE judges a window-dependent fragment — the
    subtractors are only fetched inside the window — which the properties exclude by design.)"""
    for k in range(n):
        g.next_id = 1
        l, r = g.leaf("disjoint", rich=True), g.leaf("disjoint", rich=rng.random() < 0.7)
        inner = {"op": "and", "l": l, "r": r}
        p = rng.choice([["dur", 1], ["dur", 1], ["start"], ["end"]])
        f = {"k": "cmp", "p": p, "c": rng.choice(["ge", "le", "gt", "lt", "eq", "ne"]), "v": ["int", rng.randrange(0, 8)]}
        if rng.random() < 0.35 and all(e[2] is not None for e in r["evs"]):
            # a custom field read through an accessor function, on the temporaries an intersection yields
            f = {"k": "cmp", "p": ["field", "prio", "callable"], "c": rng.choice(["eq", "ne"]),
                 "v": rng.choice([["int", rng.choice([0, 1, 2, 5])], ["none"]])}
        masked_operand = rng.random() < 0.35
        if masked_operand:
            # rich & <mask>: the other operand only constrains time (its own events are never emitted)
            inner = {"op": "and", "l": l, "r": {"op": rng.choice(["flatten", "flatten", "inv"]), "s": r}}
            if rng.random() < 0.5:
                inner["l"], inner["r"] = inner["r"], inner["l"]
            if all(e[0] is not None and e[1] is not None for e in l["evs"]) and rng.random() < 0.6:
                # a custom span-reading property (field(lambda e: e.end - e.start) / field("duration")): it must
                # be judged on the trimmed fragment, like the built-in duration properties
                f = {"k": "cmp", "p": ["dur", 1, "field"], "c": rng.choice(["ge", "le", "gt", "lt", "eq", "ne"]),
                     "v": ["int", rng.randrange(0, 6)]}
        t = {"op": "filt", "s": inner, "f": f}
        a = rng.randrange(-1, 7)
        b = rng.randrange(a + 1, 9)
        if masked_operand:
            # (the fragments a complement-built mask cuts are window-dependent at the window's edges — outside
            #  C05 / C18 by design — so these cases are asked over the whole line)
            yield dict(tree=t, q=[(None, None, rng.random() < 0.2)])
            continue
        yield dict(tree=t, q=[(a, b, rng.random() < 0.2)])


class ApplyFamily(Family):
    """filter.apply(event) on single events, including zero-length and unbounded ones"""
    name = "filter_apply"
    header = "From CG Require Import Harness.MoreChk.\n"
    case_type = "acase"
    corr = "corr_apply"
    oracle = "corr_apply"        # the model of feval IS the Boolean reading of the filter tree (Proofs/Filter.v)
    n_quick, n_thorough = 2500, 30000
    rule = ("random filter trees x single events (zero-length, unbounded, durations at k*scale-1, k*scale, k*scale+1); "
            "non-trivial = the filter tree has at least one combinator or the event is zero-length/unbounded")

    def gen(self, rng, tier, n):
        g = X.Gen(rng)
        for _ in range(n):
            scale = rng.choice([1, 60, 3600, 86400])
            s = rng.choice([None, 0, 1, 7, 100])
            kk = rng.choice([0, 0, 1, 2, 3])
            d = max(0, kk * scale + rng.choice([-1, 0, 0, 1]))
            e = None if rng.random() < 0.12 else (0 if s is None else s) + d
            pid = rng.randrange(1, 40)
            yield dict(ev=[s, e, pid], f=filt_scaled(g, rng, rng.choice([0, 1, 2]), scale))

    def run_impl(self, case):
        try:
            ev = X.mk_event(case["ev"])
            flt = X.build_filter(case["f"])
            X.poison()
            return [bool(flt.apply(ev))]
        except (TypeError, ValueError) as ex:
            return {"err": type(ex).__name__}

    def coq_case(self, case, obs):
        t = {"op": "stored", "evs": [case["ev"]]}
        return f"(mkAC {X.coq_env(t)} {X.coq_filter(case['f'])} {civl(case['ev'])} {cbool(obs[0])})"

    def describe(self, case):
        return f"event={case['ev']} filter={case['f']}"

    def nontrivial(self, case, obs):
        s, e, _ = case["ev"]
        return case["f"]["k"] in ("and", "or") or s is None or e is None or s == e


class BufChainFamily(Family):
    """buffer(buffer(...buffer(T, b1, a1)..., b2, a2)...) with amounts of either sign: a negative
    amount at ANY level must be rejected with ValueError when that buffer is built; accepted chains
    behave as one buffer by the summed amounts."""
    name = "buffer_chains"
    header = "From CG Require Import Harness.PureChk.\n"
    case_type = "bcase"
    corr = "corr_bufchain"
    oracle = "oracle_bufchain"
    n_quick, n_thorough = 600, 6000
    rule = ("stored timelines (plain and rich events, nested, unbounded) under 1-3 nested buffer() calls with "
            "amounts in {-50,-2,-1,0,1,2,5,100}; non-trivial = at least two levels or a negative amount")

    def gen(self, rng, tier, n):
        g = X.Gen(rng)
        for k in range(n):
            g.next_id = 1
            lf = g._leaf(rng.choice([None, "disjoint", "nested"]))
            depth = rng.choice([1, 2, 2, 2, 3])
            amts = []
            for _ in range(depth):
                neg = rng.random() < 0.25
                pick = lambda: rng.choice([-50, -2, -1]) if neg and rng.random() < 0.6 else rng.choice([0, 0, 1, 2, 5, 100])
                amts.append([pick(), pick()])
            a, b = g.window()
            yield dict(evs=lf["evs"], amts=amts, a=a, b=b)

    def run_impl(self, case):
        from calgebra import buffer
        tl = X.build({"op": "stored", "evs": case["evs"]})
        sm = X.srcmap_of({"op": "stored", "evs": case["evs"]})
        try:
            for (bf, af) in case["amts"]:
                tl = buffer(tl, before=bf, after=af)
        except ValueError:
            return {"rejected": True}
        return {"rejected": False, "out": [X.obs_event(r, sm) for r in tl[case["a"]:case["b"]]]}

    def coq_case(self, case, obs):
        from .common import clist, coz, cz
        amts = clist([f"({cz(bf)}, {cz(af)})" for bf, af in case["amts"]])
        o = "None" if obs["rejected"] else f"(Some {X.coq_out(obs['out'])})"
        return f"(mkBC {clist([civl(e) for e in case['evs']])} {amts} {coz(case['a'])} {coz(case['b'])} {o})"

    def describe(self, case):
        return f"T{case['evs']} buffers(innermost first)={case['amts']} window=({case['a']},{case['b']})"

    def shrink_candidates(self, case):
        for i in range(len(case["evs"])):
            yield dict(case, evs=case["evs"][:i] + case["evs"][i + 1:])
        for i in range(len(case["amts"])):
            if len(case["amts"]) > 1:
                yield dict(case, amts=case["amts"][:i] + case["amts"][i + 1:])

    def nontrivial(self, case, obs):
        return len(case["amts"]) >= 2 or any(x < 0 for p in case["amts"] for x in p)

    def distribution(self, case, dist):
        dist[f"levels_{len(case['amts'])}"] += 1
        if any(x < 0 for p in case["amts"] for x in p):
            dist["has_negative_amount"] += 1


def filt_scaled(g, rng, depth, scale):
    if depth > 0 and rng.random() < 0.35:
        fs = [filt_scaled(g, rng, depth - 1, scale) for _ in range(rng.choice([2, 3]))]
        if fs[0]["k"] == "cmp" and fs[0]["v"][0] == "int" and fs[0]["p"][0] in ("dur", "start", "end") and rng.random() < 0.3:
            # look-alike parts: the same comparison with the same constant on another property
            others = [q for q in (["dur", 1], ["dur", 60], ["dur", 3600], ["start"], ["end"]) if q != fs[0]["p"]]
            fs[1] = dict(fs[0], p=rng.choice(others))
        return {"k": rng.choice(["and", "or"]), "fs": fs}
    if rng.random() < 0.5:
        return {"k": "cmp", "p": ["dur", scale], "c": rng.choice(["ge", "le", "gt", "lt", "eq", "ne"]),
                "v": ["int", rng.choice([0, 1, 2, 3])]}
    return g.filt(0)


def _kind_family():
    # operator typing (filter | timeline is rejected) over operand shapes: shared with C15
    from .props_pure import KindFamily
    return KindFamily("C18")


CHECKS = {
    "C16": Check("C16", [ExprFamily("C16", "o", "oracle_C16", {"D1": "o_noD1", "D2": "o_noD2", "D3": "o_noD3", "OVC": "o_noOVC"}, gen_overlapping, 6000, 40000)], ASSUME),
    "C17": Check("C17", [
        ExprFamily("C17", "s", "oracle_events_strong", {"D1": "c_noD1", "D2": "c_noD2", "D3": "c_noD3"}, gen_transforms, 4000, 30000, name="buffer-slices"),
        ExprFamily("C17", "f", "oracle_mw", {}, gen_mw, 4000, 30000, name="merge_within-fetches"),
        BufChainFamily("C17")], ASSUME),
    "C18": Check("C18", [
        ExprFamily("C18", "s", "oracle_events_strong", {"D1": "c_noD1", "D2": "c_noD2"}, gen_filters, 5000, 40000, name="filtered_slices"),
        ExprFamily("C18", "s", "oracle_events_strong", {"D1": "c_noD1", "D2": "c_noD2"}, gen_filters_derived, 2000, 10000, name="filtered_derived"),
        ApplyFamily("C18"), _kind_family()], ASSUME),
}
