"""Generic machinery of a property check.

A check (class Check) = the property's theorem file + one or more *parts*.  A part (class
Family) generates cases from the seeded PRNG, runs the implementation in /repo on them, writes
them out as Coq terms and lets coqc evaluate, with vm_compute,
  corr     model output = implementation output                    (tie to the source)
  oracle   the property's executable spec applied to the implementation's output
  sig_*    signatures of listed known findings
then classifies, shrinks and reports.
"""
from __future__ import annotations

import json
import random
import time
from collections import Counter

from .common import (COQ, REPO, Report, TRUSTED_BASE, VERIF, check_props_file, eval_cases, load_known,
                     make_coq, run_coqchk, scan_forbidden)
from .translate import srcspecs
from .translate.srcspecs import SPECS as SRC_SPECS


def regen_source():
    """tie C: rewrite coq/Gen/Source.v from the Python sources of the tree under test (only when
    its content changes, so the build stays incremental).  Returns {function: why not translated}."""
    errors, _ = srcspecs.regenerate(REPO, COQ)
    return errors


class Family:
    name = "part"
    header = "From CG Require Import Harness.MoreChk.\n"
    case_type = "scase"
    corr = "corr_slice"
    oracle = "oracle"
    dom_funcs: dict = {}
    n_quick = 1000
    n_thorough = 10000
    shard = 400
    rule = ""

    def __init__(self, prop):
        self.prop = prop

    # ---- to be provided by subclasses
    def gen(self, rng, tier, n):
        raise NotImplementedError

    def run_impl(self, case):
        """-> observation (JSON-able) or {'err': kind}"""
        raise NotImplementedError

    def coq_case(self, case, obs):
        raise NotImplementedError

    def shrink_candidates(self, case):
        return []

    def describe(self, case):
        return json.dumps(case, default=str)[:400]

    def model_output(self, case):
        return None

    def nontrivial(self, case, obs):
        return True

    def distribution(self, case, dist):
        pass

    def perturb(self, case, rng):
        return None

    def corpus(self):
        return []

    def is_err(self, obs):
        return isinstance(obs, dict) and "err" in obs

    # ---- evaluation
    def evaluate(self, cases, tag="cases"):
        obs_all = []
        for c in cases:
            try:
                obs_all.append(self.run_impl(c))
            except Exception as ex:      # any exception escaping the implementation is an observation
                obs_all.append({"err": type(ex).__name__ + ": " + str(ex)[:200]})
        good, terms = [], []
        for i, o in enumerate(obs_all):
            if self.is_err(o):
                continue
            try:
                # an observation the harness cannot even write down (an internal function of the tree
                # under test returned something of another shape) is a failure of that case
                terms.append(self.coq_case(cases[i], o))
                good.append(i)
            except Exception as ex:
                obs_all[i] = {"err": "observation not expressible: " + type(ex).__name__ + ": " + str(ex)[:200]}
        funcs = [self.corr, self.oracle] + list(self.dom_funcs.values())
        funcs = list(dict.fromkeys(funcs))
        res = (eval_cases(self.prop, self.header, self.case_type, terms, funcs,
                          shard=self.shard, tag=f"{self.name}_{tag}".replace("-", "_"))
               if terms else {f: [] for f in funcs})
        fail = {f: set(res[f]) for f in funcs}
        pos = {gi: k for k, gi in enumerate(good)}
        out = []
        for i in range(len(cases)):
            if i not in pos:
                out.append(dict(obs=obs_all[i], err=True, corr_ok=False, oracle_ok=False, in_dom=True, sigs=[]))
                continue
            k = pos[i]
            out.append(dict(obs=obs_all[i], err=False, corr_ok=k not in fail[self.corr],
                            oracle_ok=k not in fail[self.oracle],
                            in_dom=all(k not in fail[d] for d in self.dom_funcs.values()),
                            sigs=[sg for sg, d in self.dom_funcs.items() if k in fail[d]]))
        return out

    def is_new_violation(self, r, have_known):
        """An oracle failure is attributed to a listed known finding only when the model
        reproduces the implementation's output on the case (so the model's refuted-theorem
        explains it) and the case carries that finding's signature."""
        if r["err"]:
            return True
        if r["oracle_ok"]:
            return False
        if r["corr_ok"] and any(sg in have_known for sg in r["sigs"]):
            return False
        return True

    def shrink(self, case, have_known, rounds=30, width=60):
        cur = case
        for _ in range(rounds):
            cands = []
            for c in self.shrink_candidates(cur):
                cands.append(c)
                if len(cands) >= width:
                    break
            if not cands:
                break
            rs = self.evaluate(cands, tag="shrink")
            nxt = next((c for c, r in zip(cands, rs) if self.is_new_violation(r, have_known)), None)
            if nxt is None:
                break
            cur = nxt
        return cur

    def replay_payload(self, case, r, why):
        return dict(part=self.name, why=why, description=self.describe(case), case=case,
                    impl_output=r["obs"], model_output=self.model_output(case), oracle=self.oracle,
                    correspondence=self.corr, correspondence_agrees=r["corr_ok"],
                    in_known_finding_free_domain=r["in_dom"], signatures=r["sigs"],
                    how_to_replay=f"./check {self.prop} --replay <this file>")

    def targeted_search(self, cases, corr_bad, rng, have_known, budget=1200):
        pool = []
        per = max(1, budget // max(1, min(20, len(corr_bad))))
        for i in corr_bad[:20]:
            for _ in range(per):
                c = self.perturb(cases[i], rng)
                if c is not None:
                    pool.append(c)
        if not pool:
            return None
        rs = self.evaluate(pool, tag="search")
        for c, r in zip(pool, rs):
            if self.is_new_violation(r, have_known):
                return c, r
        return None


class Check:
    def __init__(self, prop, parts, assumptions=(), pre_build=None):
        self.prop = prop
        self.parts = parts
        self.assumptions = list(assumptions)
        self.pre_build = pre_build       # tie B: regenerate Coq facts from the source before building

    def run(self, tier, seed, replay=None):
        rep = Report(self.prop, tier, seed)
        known = load_known(self.prop)
        have_known = {k["sig"] for k in known}

        pre_note = self.pre_build() if self.pre_build else None
        # tie C: re-translate the source text of the tree under test into coq/Gen/Source.v
        src_errors = regen_source()
        ok, out, build_s = make_coq()
        # the property's theorem file is re-checked by coqc against the freshly built dependencies;
        # it fails if anything it depends on failed to build
        pf = check_props_file(self.prop)
        if not pf["ok"] and not ok:
            pf["output"] = (pf.get("output", "") + "\n--- make output ---\n" + out)[-4000:]
        forb = scan_forbidden()
        obligations = len(pf.get("printed", []))
        proof_broken = (not pf["ok"]) or bool(forb) or obligations == 0
        discharged = len(pf.get("axioms", {})) if not proof_broken else 0

        if replay:
            d = json.loads(open(replay).read())
            part = next((p for p in self.parts if p.name == d.get("part")), self.parts[0])
            if "case" not in d:
                print("replay file names a broken theorem/correspondence and carries no input")
                return 1
            r = part.evaluate([d["case"]], tag="replay")[0]
            print(json.dumps(dict(impl=r["obs"], corr_ok=r["corr_ok"], oracle_ok=r["oracle_ok"],
                                  in_dom=r["in_dom"], model=part.model_output(d["case"])), default=str))
            return 0 if (r["oracle_ok"] and r["corr_ok"] and not r["err"]) else 1

        # known findings: replay each listed witness on the implementation
        for kf in known:
            wpath = VERIF / kf["witness"]
            if not wpath.exists():
                # a listed finding without its witness cannot be replayed: it suppresses nothing
                have_known.discard(kf["sig"])
                continue
            w = json.loads(wpath.read_text())
            part = next((p for p in self.parts if p.name == w.get("part")), self.parts[0])
            r = part.evaluate([w["case"]], tag="kf")[0]
            if r["err"] or not r["oracle_ok"]:
                rep.known(f"{kf['id']} {kf['text']}")

        rng = random.Random(seed)
        cov_parts = {}
        tot = Counter()
        samples = []
        any_corr_bad = False
        reported = 0
        for part in self.parts:
            n = part.n_thorough if tier == "thorough" else part.n_quick
            corpus = list(part.corpus())
            cases = corpus + list(part.gen(rng, tier, n))
            t0 = time.time()
            try:
                rs = part.evaluate(cases)
            except RuntimeError as ex:
                rep.violation(dict(kind="broken-correspondence-build", part=part.name, detail=str(ex)[-3000:],
                                   theorem_or_correspondence=f"{part.corr} over generated cases of part {part.name}"),
                              no_input=True)
                cov_parts[part.name] = dict(error=str(ex)[-500:])
                continue
            eval_s = time.time() - t0
            bad = [i for i, r in enumerate(rs) if part.is_new_violation(r, have_known)]
            corr_bad = [i for i, r in enumerate(rs) if not r["corr_ok"]]
            attributed = [i for i, r in enumerate(rs)
                          if (not r["err"]) and (not r["oracle_ok"]) and i not in set(bad)]
            any_corr_bad = any_corr_bad or bool(corr_bad)

            if bad:
                seen = set()
                for i in bad[:6]:
                    small = part.shrink(cases[i], have_known)
                    key = json.dumps(small, sort_keys=True, default=str)
                    if key in seen:
                        continue
                    seen.add(key)
                    r = part.evaluate([small], tag="final")[0]
                    rep.violation(part.replay_payload(small, r, "the property's oracle fails on the implementation's output"))
                    reported += 1
                    if reported >= 2:
                        break
            elif corr_bad:
                found = part.targeted_search(cases, corr_bad, rng, have_known)
                if found is not None:
                    case, r = found
                    small = part.shrink(case, have_known)
                    r = part.evaluate([small], tag="final")[0]
                    rep.violation(part.replay_payload(small, r, "found by targeted search around a model/implementation disagreement"))
                else:
                    i = corr_bad[0]
                    rep.violation(dict(kind="no-failing-input", part=part.name,
                                       theorem_or_correspondence=f"correspondence {part.corr} (Coq model vs implementation), part {part.name}",
                                       disagreements=len(corr_bad),
                                       first_disagreement=part.replay_payload(cases[i], rs[i], "model and implementation disagree"),
                                       case=cases[i]), no_input=True)

            dist = Counter()
            nontriv = set()
            for c, r in zip(cases, rs):
                part.distribution(c, dist)
                if r["in_dom"]:
                    dist["free_of_known_finding_signatures"] += 1
                if not r["err"] and part.nontrivial(c, r["obs"]):
                    nontriv.add(json.dumps(c, sort_keys=True, default=str))
            tot["evaluations"] += len(cases)
            tot["distinct_nontrivial"] += len(nontriv)
            tot["corr_bad"] += len(corr_bad)
            tot["attributed"] += len(attributed)
            for c, r in list(zip(cases, rs))[len(corpus):len(corpus) + 2]:
                samples.append(dict(part=part.name, case=part.describe(c), impl_output=r["obs"]))
            cov_parts[part.name] = dict(evaluations=len(cases), distinct_nontrivial=len(nontriv),
                                        correspondence=part.corr, oracle=part.oracle, rule=part.rule,
                                        correspondence_disagreements=len(corr_bad),
                                        oracle_failures_attributed_to_known_findings=len(attributed),
                                        corpus_cases=len(corpus), distribution=dict(dist),
                                        eval_s=round(eval_s, 1))

        # thorough tier: the independent checker re-checks the compiled theorem file and all it depends on
        chk = None
        if tier == "thorough" and not proof_broken and not replay:
            chk = run_coqchk(self.prop)
            bad = (not chk.get("timed_out")) and ((not chk["ok"]) or chk["axioms"] is None or
                                                  any(chk.get(k) for k in ("type_in_type", "unsafe_fix", "assumed_positive")))
            if bad:
                proof_broken = True
                pf["output"] = "coqchk: " + chk["output"]

        if proof_broken and not rep.violations:
            rep.violation(dict(kind="no-failing-input",
                               theorem_or_correspondence=f"proof obligations of coq/Props/{self.prop}.v (build ok={ok}, file ok={pf['ok']}, theorems with Print Assumptions={obligations})",
                               forbidden=forb, build_output=(out if not ok else pf.get("output", ""))[-3000:]),
                          no_input=True)

        rep.coverage = dict(
            obligations=max(obligations, 1), discharged=discharged,
            checker_cmd=f"make -C /verif/coq (full .vo build) ; coqc Props/{self.prop}.v (Print Assumptions) ; "
                        f"coqc build/{self.prop}/*_cases_*.v (vm_compute over the cases of this run)",
            trusted_base=TRUSTED_BASE, theorems=pf.get("theorems", []), axioms=pf.get("axioms", {}),
            evaluations=tot["evaluations"], distinct_nontrivial=tot["distinct_nontrivial"],
            rule="cases from one seeded PRNG plus a fixed corpus; distinct = distinct case (JSON); "
                 "non-trivial as stated per part",
            samples=samples, traces_validated_against_impl=tot["evaluations"],
            disagreements_checked=tot["corr_bad"], correspondence_disagreements=tot["corr_bad"],
            oracle_failures_attributed_to_known_findings=tot["attributed"],
            parts=cov_parts, build_s=round(build_s, 1), regenerated_facts=pre_note,
            coqchk=(dict(cmd=f"coqchk -silent -Q coq CG -o CG.Props.{self.prop}", ok=chk["ok"],
                         timed_out=chk.get("timed_out", False), axioms=chk["axioms"],
                         type_in_type=chk["type_in_type"], unsafe_fixpoints=chk["unsafe_fix"],
                         assumed_positive=chk["assumed_positive"], seconds=chk["seconds"]) if chk else
                    "thorough tier only"),
            source_translation=dict(file="coq/Gen/Source.v", translator="harness/translate/pysrc.py",
                                    functions=[sp["name"] for sp in SRC_SPECS],
                                    untranslatable=src_errors,
                                    equivalence_proofs="coq/Proofs/GenEq.v, GenEq2.v (recurrence), GenEq3.v (cache), GenEq4.v (memory), GenEq5.v (Difference._sweep), GenEq6.v (Intersection._sweep + _SourceState), GenEq7.v (__getitem__, _coerce_bound), GenEq8.v (CachedTimeline.fetch, _fill_gap, _stitch_at), GenEq9.v (Union/Difference fetch, overlapping), GenEq10.v (_occurrence_to_interval, metrics period windows), GenEq_small_*.v (constructors, operator dispatch, _is_mask, buffer / merge_within, Interval, CachedTimeline.__init__ / _get_key), GenEq_mem.v (MemoryTimeline write paths and fetch, MutableTimeline dispatch), GenEq_met.v (metrics.py), GenEq_gcsa*.v (gcsa.py), GenEq_filt*.v (properties.py, Filter classes), GenEq_rec*.v (RecurringPattern.__init__, RRULE text, fetch dispatcher): generated definition = model, for all inputs"),
            explanation=f"theorems of Props/{self.prop}.v re-checked by coqc on this run; the Gallina model is tied to "
                        f"/repo by evaluating it (vm_compute) on the same cases the implementation ran; the oracle is the "
                        f"executable spec applied to the implementation's output")
        rep.assumptions = self.assumptions
        return rep.finish()
