"""C14: queries stream lazily; open-ended queries deliver results on demand.

Every leaf timeline of a generated expression is wrapped in a counting Timeline whose fetch()
returns a generator that counts the next() calls it receives (the call that ends in
StopIteration included) and logs the items it hands downstream.  Per case the real code runs
  e[a:b]               to StopIteration      (items, per-leaf pull counts right after each item)
  islice(e[a:], n)     n <= number of items of e[a:b] that end before b
and Coq (Harness/PullChk.v) checks that the pull machines of Model/Pull.v reproduce items and
counts exactly (corr_pull) and that the observations satisfy the property (oracle_C14).

tree ::= {"op":"per","freq":"daily"|"weekly","interval":I,"dow":0..6,"start":s,"dur":d}
       | {"op":"stored","evs":[[s,e,id],...]}
       | {"op":"or"|"and"|"sub","l":tree,"r":tree} | {"op":"inv"|"flatten","s":tree}
       | {"op":"filt","s":tree,"f":filter} | {"op":"buf","s":tree,"before":int,"after":int}
"""
from __future__ import annotations

import copy
import math
from dataclasses import dataclass

from . import exprs as X
from .common import cbool, civl, clist, cz, ensure_repo_import
from .family import Check, Family

ensure_repo_import()
from calgebra import Interval, buffer, flatten, recurring, timeline  # noqa: E402
from calgebra.core import Timeline  # noqa: E402

DAY, HOUR, WEEK = 86400, 3600, 7 * 86400
DAYS = ["monday", "tuesday", "wednesday", "thursday", "friday", "saturday", "sunday"]
CAP = 5000      # pulls (all leaves together) after which a run is declared non-terminating


@dataclass(frozen=True, kw_only=True)
class LEv(Interval):
    id: int


class PullCap(Exception):
    pass


class Meter:
    def __init__(self, n):
        self.n = n
        self.fetches = [0] * n
        self.reset()

    def reset(self):
        self.pulls = [0] * self.n
        self.logs = [[] for _ in range(self.n)]
        self.total = 0


class CountingLeaf(Timeline):
    """A leaf timeline whose iterators count the next() calls they receive."""

    def __init__(self, inner, idx, meter):
        self.inner, self.idx, self.meter = inner, idx, meter

    @property
    def _is_mask(self):
        return self.inner._is_mask

    def fetch(self, start, end, *, reverse=False):
        self.meter.fetches[self.idx] += 1
        return self._gen(self.inner.fetch(start, end, reverse=reverse))

    def _gen(self, stream):
        it = iter(stream)
        m, i = self.meter, self.idx
        while True:
            m.pulls[i] += 1
            m.total += 1
            if m.total > CAP:
                raise PullCap()
            try:
                x = next(it)
            except StopIteration:
                return
            m.logs[i].append(x)
            yield x


# --------------------------------------------------------------------------------------------
# trees

def per_params(t):
    """(phase, period) of the arithmetic progression of occurrence starts."""
    if t["freq"] == "daily":
        return t["start"], t["interval"] * DAY
    return (-3 + t["dow"]) * DAY + t["start"], t["interval"] * WEEK


def leaves(t):
    if t["op"] in ("per", "stored"):
        yield t
    else:
        for k in ("l", "r", "s"):
            if k in t:
                yield from leaves(t[k])


def number(t):
    for i, lf in enumerate(leaves(t)):
        lf["id"] = i
    return t


def is_mask(t):
    op = t["op"]
    if op == "per":
        return True
    if op == "stored":
        return False
    if op == "or":
        return is_mask(t["l"]) and is_mask(t["r"])
    if op == "and":
        return is_mask(t["l"]) and is_mask(t["r"])
    if op in ("sub", "filt"):
        return is_mask(t["l"] if op == "sub" else t["s"])
    if op in ("inv", "flatten"):
        return True
    return False       # buf


def build(t, meter):
    op = t["op"]
    if op == "per":
        if t["freq"] == "daily":
            tl = recurring("daily", interval=t["interval"], start=t["start"], duration=t["dur"], tz="UTC")
        else:
            tl = recurring("weekly", interval=t["interval"], day=DAYS[t["dow"]], start=t["start"],
                           duration=t["dur"], tz="UTC")
        return CountingLeaf(tl, t["id"], meter) if meter else tl
    if op == "stored":
        tl = timeline(*[LEv(start=s, end=e, id=i) for (s, e, i) in t["evs"]])
        return CountingLeaf(tl, t["id"], meter) if meter else tl
    if op == "or":
        return build(t["l"], meter) | build(t["r"], meter)
    if op == "and":
        return build(t["l"], meter) & build(t["r"], meter)
    if op == "sub":
        return build(t["l"], meter) - build(t["r"], meter)
    if op == "inv":
        return ~build(t["s"], meter)
    if op == "flatten":
        return flatten(build(t["s"], meter))
    if op == "filt":
        return build(t["s"], meter) & X.build_filter(t["f"])
    if op == "buf":
        return buffer(build(t["s"], meter), before=t["before"], after=t["after"])
    raise ValueError(op)


def coq_pexpr(t):
    op = t["op"]
    if op == "per":
        ph, pe = per_params(t)
        return f"(PPer {t['id']} {cz(ph)} {cz(pe)} {cz(t['dur'])})"
    if op == "stored":
        return f"(PSto {t['id']} {clist([civl(e) for e in t['evs']])})"
    if op in ("or", "and", "sub"):
        return f"(p{op} {coq_pexpr(t['l'])} {coq_pexpr(t['r'])})"
    if op == "inv":
        return f"(PCompl {coq_pexpr(t['s'])})"
    if op == "flatten":
        return f"(pflatten {coq_pexpr(t['s'])})"
    if op == "filt":
        return f"(PFilt {coq_pexpr(t['s'])} {X.coq_filter(t['f'])})"
    if op == "buf":
        return f"(PBuf {coq_pexpr(t['s'])} {cz(t['before'])} {cz(t['after'])})"
    raise ValueError(op)


def describe(t):
    op = t["op"]
    if op == "per":
        ph, pe = per_params(t)
        return f"P{t.get('id', '')}({t['freq']}/{t['interval']},phase={ph},dur={t['dur']})"
    if op == "stored":
        return f"T{t.get('id', '')}{[tuple(e[:2]) for e in t['evs']]}"
    if op in ("or", "and", "sub"):
        return f"({describe(t['l'])} {dict(or_='|', and_='&', sub_='-')[op + '_']} {describe(t['r'])})"
    if op == "inv":
        return f"~{describe(t['s'])}"
    if op == "flatten":
        return f"flatten({describe(t['s'])})"
    if op == "filt":
        return f"({describe(t['s'])} & {t['f']})"
    return f"buffer({describe(t['s'])},before={t['before']},after={t['after']})"


# --------------------------------------------------------------------------------------------
# generation.  "D" trees yield an internally non-overlapping stream (what the operands of
# & and the source of - must be to stay clear of the known defects D1/D2); "any" trees may
# overlap (unions, wide buffers): they appear at the top and under ~ / flatten only.

def window_dependent(t):
    """does the tree yield fragments whose extent depends on the query window (gaps of a complement,
    remainders of a difference)?"""
    if t["op"] in ("inv", "flatten", "sub"):
        return True
    return any(window_dependent(t[k]) for k in ("l", "r", "s") if k in t)


class LGen:
    def __init__(self, rng, a):
        self.rng, self.a = rng, a
        self.next_ev = 1

    def per(self):
        r = self.rng
        if r.random() < 0.6:
            iv = r.choice([1, 1, 1, 2, 3])
            period = iv * DAY
            t = dict(op="per", freq="daily", interval=iv, dow=0)
        else:
            iv = r.choice([1, 1, 2])
            period = iv * WEEK
            t = dict(op="per", freq="weekly", interval=iv, dow=r.randrange(7))
        t["start"] = r.choice([0, 0, 9 * HOUR, 1800 * r.randrange(0, 48), 1800 * r.randrange(0, 48)])
        t["dur"] = min(period, r.choice([1800, HOUR, 3 * HOUR, 8 * HOUR, 12 * HOUR, 20 * HOUR, period // 2,
                                         period - HOUR, DAY, 2 * DAY, period]))
        return t

    def stored(self):
        r = self.rng
        n = r.choice([0, 1, 2, 3, 4, 6])
        lo, hi = self.a - 2 * DAY, self.a + 24 * DAY
        step = r.choice([1800, HOUR, HOUR, 6 * HOUR])
        pts = sorted(r.sample(range(lo // step, hi // step), min(2 * n, (hi - lo) // step)))
        if r.random() < 0.3 and len(pts) >= 3:          # touching events
            spans = [(pts[i], pts[i + 1]) for i in range(len(pts) - 1)][:n]
        else:
            spans = [(pts[i], pts[i + 1]) for i in range(0, len(pts) - 1, 2)]
        evs = []
        for (s, e) in spans:
            evs.append([s * step, e * step, self.next_ev])
            self.next_ev += 1
        if r.random() < 0.15:
            # an instantaneous event (start == end: a marker): it covers no instant, so no bounded and
            # no open-ended slice may report it
            x = r.randrange(lo // step, hi // step) * step
            evs.append([x, x, self.next_ev])
            self.next_ev += 1
        r.shuffle(evs)
        return dict(op="stored", evs=evs)

    def leaf(self, p_per=0.72):
        return self.per() if self.rng.random() < p_per else self.stored()

    def filt(self):
        r = self.rng
        k = r.random()
        if k < 0.45:
            f = {"k": "cmp", "p": ["dur", r.choice([1, 3600, 3600, 86400])], "c": r.choice(["ge", "le", "gt", "lt", "eq", "ne"]),
                 "v": ["int", r.choice([0, 1, 2, 3, 8, 12, 24])]}
            if f["p"][1] == 1:
                f["v"] = ["int", r.choice([1800, 3600, 7200, 86400])]
            return f
        if k < 0.85:
            return {"k": "cmp", "p": [r.choice(["start", "end"])], "c": r.choice(["ge", "le", "gt", "lt", "ne"]),
                    "v": ["int", self.a + r.randrange(-2, 20) * DAY + r.choice([0, 0, 9 * HOUR, 1800])]}
        return {"k": r.choice(["and", "or"]), "fs": [self.filt(), self.filt()]}

    def dtree(self, depth):
        r = self.rng
        if depth <= 0 or r.random() < 0.1:
            return self.leaf()
        op = r.choice(["and", "and", "sub", "sub", "inv", "flatten", "filt", "buf"])
        if op == "and":
            l, rr = self.dtree(depth - 1), self.dtree(depth - 1)
            if not is_mask(l) and not is_mask(rr):      # rich & rich emits from both: overlapping
                rr = self.per() if r.random() < 0.7 else {"op": "flatten", "s": rr}
            return {"op": "and", "l": l, "r": rr}
        if op == "sub":
            return {"op": "sub", "l": self.dtree(depth - 1), "r": self.anytree(depth - 1)}
        if op in ("inv", "flatten"):
            return {"op": op, "s": self.anytree(depth - 1)}
        if op == "filt":
            sub = self.dtree(depth - 1)
            if window_dependent(sub):
                # a filter over a complement / difference judges fragments cut at the query bounds (C05 and
                # C18 leave them out by design): an open-ended and a bounded query then see different
                # fragments, and "the first n of a long bounded query" has no fixed meaning
                return sub
            return {"op": "filt", "s": sub, "f": self.filt()}
        p = self.per()                                  # buffer with slack: stays non-overlapping
        _, period = per_params(p)
        slack = period - p["dur"]
        before = r.choice([0, 0, HOUR, slack // 2, slack]) if slack else 0
        before = min(before, slack)
        after = min(r.choice([0, 0, 1800, slack]), slack - before)
        return {"op": "buf", "s": p, "before": before, "after": after}

    def anytree(self, depth):
        r = self.rng
        k = r.random()
        if depth <= 0 or k < 0.55:
            return self.dtree(depth)
        if k < 0.85:
            return {"op": "or", "l": self.anytree(depth - 1), "r": self.anytree(depth - 1)}
        return {"op": "buf", "s": self.anytree(depth - 1), "before": r.choice([0, HOUR, 5 * HOUR, DAY]),
                "after": r.choice([0, 1800, 3 * HOUR, DAY])}


# Streams that never deliver another item although their sources are infinite (a filter that
# rejects every later occurrence, an intersection/difference/complement that stays empty, the
# flatten of a gap-free cover) make whatever waits for their next item wait forever: a k-way
# merge needs the head of each stream, a difference its current subtractor.  That is inherent
# to streaming and outside the property ("...yields the first n results of a sufficiently long
# bounded query" presupposes that every operand keeps answering).  The generator therefore
# keeps every proper sub-expression TERMinating or PRODuctive on the open window:
#   stored: TERM   recurring: PROD   (TERMU: TERM with a last event unbounded to the right, i.e.
#   the complement of a finite stream; against infinite operands it behaves like a PROD stream)
#   union: all TERM -> TERM, else PROD        intersection: some TERM -> TERM
#   difference/complement/filter/buffer: TERM if the source is
#   all-PROD intersection, and difference/complement/filter of a PROD source: PROD iff the
#   sub-expression still has results in a 90-day window lying after every stored event and
#   filter constant (there the results repeat with the lcm of the periods, 42 days)
TERM, TERMU, PROD, BAD = "term", "termu", "prod", "bad"


def regime_nonempty(t, a):
    T = a + 45 * DAY
    tl = build(t, None)
    for x in tl[T:T + 90 * DAY]:
        if x.start is not None and x.end is not None and x.start >= T + DAY and x.end <= T + 89 * DAY:
            return True
    return False


def classify(t, a):
    """TERM: ends by itself; TERMU: ends, possibly with an event that is unbounded to the right
    (the complement of a finite stream over an open window); PROD: keeps delivering; BAD."""
    op = t["op"]
    if op == "per":
        return PROD
    if op == "stored":
        return TERM
    if op == "flatten":
        inner = {"op": "inv", "s": t["s"]}
        return classify({"op": "inv", "s": inner}, a)
    kids = [classify(t[k], a) for k in ("l", "r", "s") if k in t]
    if BAD in kids:
        return BAD
    fin = (TERM, TERMU)
    if op == "or":
        if all(k in fin for k in kids):
            return TERMU if TERMU in kids else TERM
        return PROD
    if op == "and":
        if TERM in kids:
            return TERM
        if all(k == TERMU for k in kids):
            return TERMU
    elif op == "sub":
        if kids[0] == TERM:
            return TERM
        if kids[0] == TERMU and kids[1] in fin:
            return TERMU
    elif op == "inv":
        if kids[0] in fin:
            return TERMU if kids[0] == TERM else TERM
    elif kids[0] in fin:            # filt, buf
        return kids[0]
    if op == "buf":
        return kids[0]
    return PROD if regime_nonempty(t, a) else BAD


def admissible(t, a):
    """every proper sub-expression keeps answering on the open window"""
    subs = [t[k] for k in ("l", "r", "s") if k in t]
    if t["op"] == "flatten":
        subs = [{"op": "inv", "s": t["s"]}]
    return all(classify(s, a) != BAD for s in subs)


def no_empty_under_buffer(t, under=False):
    """an instantaneous event extended by a buffer covers time: the reference semantics of the oracle
    (defined on positive-length events) does not apply there, so such leaves lose their markers"""
    if t["op"] == "stored":
        if under:
            t["evs"] = [e for e in t["evs"] if e[0] != e[1]]
        return
    for k in ("l", "r", "s"):
        if k in t:
            no_empty_under_buffer(t[k], under or t["op"] == "buf")


def gen_cases(rng, tier, n):
    k = 0
    while k < n:
        c = gen_one(rng)
        no_empty_under_buffer(c["tree"])
        if not admissible(c["tree"], c["a"]):
            continue
        if rng.random() < 0.85:      # mostly cases in which the open-ended slice has something to deliver
            b = c["a"] + c["spans"][-1]
            if inside_count([(obs_item(x), None) for x in build(c["tree"], None)[c["a"]:b]], b) == 0:
                continue
        k += 1
        yield c


def gen_one(rng):
    if rng.random() < 0.05:
        # a sparse source: the n-th result lies many years after the start of the open-ended slice
        a = rng.randrange(0, 400 * DAY, 600) + rng.choice([0, 1_700_000_000 // DAY * DAY])
        g = LGen(rng, a)
        iv = rng.choice([400, 450, 731])
        t = dict(op="per", freq="daily", interval=iv, dow=0, start=rng.choice([0, 9 * HOUR, 1800 * rng.randrange(0, 48)]),
                 dur=rng.choice([1800, HOUR, 20 * HOUR, DAY, 3 * DAY]))
        if rng.random() < 0.4:
            t = {"op": rng.choice(["or", "sub"]), "l": t, "r": g.stored()}
        return dict(tree=number(t), a=a, spans=[d * DAY for d in (3000, 6000, 9000)], n=rng.choice([2, 8, 10, 11, 12]))
    if True:
        a = rng.randrange(0, 400 * DAY, 600) + rng.choice([0, 0, 0, 1_700_000_000 // DAY * DAY])
        g = LGen(rng, a)
        depth = rng.choice([0, 1, 1, 2, 2, 2, 3, 3, 3])
        t = g.anytree(depth) if rng.random() < 0.5 else g.dtree(depth)
        if not any(lf["op"] == "per" for lf in leaves(t)) and rng.random() < 0.9:
            t = {"op": rng.choice(["or", "and", "sub"]), "l": t if is_d(t) else g.per(), "r": g.per()}
        if sum(lf["op"] == "per" for lf in leaves(t)) < 2 and rng.random() < 0.5:
            other = g.dtree(rng.choice([0, 0, 1]))        # streams with different periods/phases interleave
            op = rng.choice(["or", "and", "sub", "sub"])
            l, r_ = (t, other) if rng.random() < 0.5 else (other, t)
            if op == "or" or (is_d(l) and (op == "sub" or (is_d(r_) and (is_mask(l) or is_mask(r_))))):
                t = {"op": op, "l": l, "r": r_}
        pers = [lf for lf in leaves(t) if lf["op"] == "per"]
        if pers and rng.random() < 0.3:                 # start exactly on an occurrence boundary
            ph, pe = per_params(rng.choice(pers))
            j = (a - ph) // pe
            a = ph + j * pe + rng.choice([0, pers[0]["dur"], -1, 1])
        grid = [1, 2, 3, 5, 8, 13, 21, 30, 45]
        jit = rng.choice([0, 0, 1800 * rng.randrange(0, 48)])
        spans = [d * DAY + jit for d in grid[rng.randrange(0, len(grid) - 1):]]
        return dict(tree=number(t), a=a, spans=spans, n=rng.choice([1, 2, 3, 5, 8, 13, 20]))


def is_d(t):
    """internally non-overlapping by construction (conservative)"""
    op = t["op"]
    if op in ("per", "stored", "inv", "flatten", "sub"):
        return True
    if op == "filt":
        return is_d(t["s"])
    if op == "and":
        return is_mask(t["l"]) or is_mask(t["r"])
    if op == "buf":
        s = t["s"]
        return s["op"] == "per" and s["dur"] + t["before"] + t["after"] <= per_params(s)[1]
    return False


# --------------------------------------------------------------------------------------------
# running the real code

def obs_item(x):
    return [x.start, x.end, getattr(x, "id", None)]


def drive(it, meter, limit):
    """Pull up to limit items; -> (list of (item, counts after it), ended, final counts)."""
    out = []
    ended = False
    while limit is None or len(out) < limit:
        try:
            x = next(it)
        except StopIteration:
            ended = True
            break
        out.append([obs_item(x), list(meter.pulls)])
    return out, ended, list(meter.pulls)


def tree_depth(t):
    d = 2 if t["op"] == "flatten" else 1
    return d + max([tree_depth(t[k]) for k in ("l", "r", "s") if k in t] or [0])


def filt_consts(f):
    if f["k"] in ("and", "or"):
        for g in f["fs"]:
            yield from filt_consts(g)
    elif f["k"] == "cmp" and f["p"][0] in ("start", "end"):
        yield f["v"][1]


def horizon(t, a, end_n):
    """A time no leaf item read by islice(e[a:], n) may start after.  Every stream of the
    generated class is either exhausted once the stored events and filter constants are
    passed, or repeats with period L = lcm of the periods from there on with at least one
    item per period; an operator holds one look-ahead item per operand, so every level of the
    expression adds at most one such gap (plus the longest event and buffer)."""
    L, maxdur, maxbuf = 1, 0, 0
    base = max(a, end_n if end_n is not None else a)
    for s in subtrees(t):
        if s["op"] == "per":
            pd = per_params(s)[1] // DAY
            L = L * pd // math.gcd(L, pd)
            maxdur = max(maxdur, s["dur"])
        elif s["op"] == "stored":
            for (st, en, _) in s["evs"]:
                base = max(base, en)
                maxdur = max(maxdur, en - st)
        elif s["op"] == "buf":
            maxbuf += s["before"] + s["after"]
        elif s["op"] == "filt":
            for v in filt_consts(s["f"]):
                base = max(base, v)
    slack = maxdur + maxbuf + DAY
    hor = base + (tree_depth(t) + 2) * (L * DAY + slack)
    return hor, hor + slack


def bounded_run(tl, meter, a, b, limit=None):
    meter.reset()
    it = iter(tl[a:b])
    pre = sum(meter.pulls)
    out, ended, final = drive(it, meter, limit)
    logs = [[obs_item(x) for x in lg] for lg in meter.logs]
    return out, ended, final, logs, pre


def inside_count(bnd, b):
    k = 0
    for (item, _) in bnd:
        if item[1] is not None and item[1] < b:
            k += 1
        else:
            break
    return k


def run_case(case):
    t, a = case["tree"], case["a"]
    nleaf = sum(1 for _ in leaves(t))
    meter = Meter(nleaf)
    try:
        tl = build(t, meter)
        compose_fetches = sum(meter.fetches)
        # bounded query, to StopIteration; the window is lengthened until it holds the n items
        # asked for ("a sufficiently long bounded query"), up to the case's longest span
        try:
            for span in case["spans"]:
                b = a + span
                bnd, bdone, bfinal, blogs, pre = bounded_run(tl, meter, a, b)
                if inside_count(bnd, b) >= case["n"]:
                    break
        except PullCap:
            return {"err": "bounded-query-exceeded-pull-cap"}
        n = min(case["n"], inside_count(bnd, b))
        # open-ended query, first n items
        meter.reset()
        ito = iter(tl[a:])
        pre += sum(meter.pulls)
        try:
            opn, _, _ = drive(ito, meter, n)
        except PullCap:
            return {"err": "open-ended-query-exceeded-pull-cap", "n": n}
        ologs = [[obs_item(x) for x in lg] for lg in meter.logs]
        # a bounded query reaching past everything the open-ended one may read
        hor, b2 = horizon(t, a, opn[-1][0][1] if opn else None)
        b2 = max(b2, b)
        try:
            lng, _, _, llogs, pre2 = bounded_run(tl, meter, a, b2, n)
        except PullCap:
            return {"err": "bounded-query-exceeded-pull-cap"}
    except PullCap:
        return {"err": "pull-cap-exceeded-while-creating-an-iterator"}
    except (ValueError, TypeError) as ex:
        return {"err": type(ex).__name__ + ": " + str(ex)[:80]}
    return dict(n=n, b=b, nleaf=nleaf, open=opn, ologs=ologs, bnd=bnd, bfinal=bfinal, blogs=blogs,
                hor=hor, b2=b2, long=lng, compose_fetches=compose_fetches, pre_pulls=pre + pre2, bdone=bdone)


def cnat_list(l):
    return clist([str(x) for x in l]) + "%nat"


def ctrace(tr):
    return clist([f"({civl(it)}, {cnat_list(c)})" for it, c in tr])


class LazyFamily(Family):
    name = "lazy-slices"
    header = "From CG Require Import Harness.PullChk.\n"
    case_type = "lcase"
    corr = "corr_pull"
    oracle = "oracle_C14"
    dom_funcs: dict = {}
    n_quick = 2000
    n_thorough = 30000
    shard = 60
    rule = ("expression trees (depth <= 3) over 1-3 recurring daily/weekly UTC leaves and stored timelines, "
            "operators | & - ~ flatten filter buffer, n <= 20, start positions incl. occurrence boundaries; "
            "non-trivial = at least one recurring leaf and n >= 1 items requested from the open-ended slice")

    def gen(self, rng, tier, n):
        return gen_cases(rng, tier, n)

    def run_impl(self, case):
        return run_case(case)

    def coq_case(self, case, obs):
        t = case["tree"]
        return (f"(mkLC [] {coq_pexpr(t)} {obs['nleaf']} {cz(case['a'])} {cz(obs['b'])} {obs['n']} "
                f"{ctrace(obs['open'])} {clist([clist([civl(x) for x in lg]) for lg in obs['ologs']])} "
                f"{ctrace(obs['bnd'])} {cnat_list(obs['bfinal'])} "
                f"{clist([clist([civl(x) for x in lg]) for lg in obs['blogs']])} "
                f"{cz(obs['b2'])} {ctrace(obs['long'])} {cz(obs['hor'])} "
                f"{obs['compose_fetches']} {obs['pre_pulls']} {cbool(obs['bdone'])})")

    def shrink_candidates(self, case):
        t = case["tree"]
        for sub in subtrees(t):
            if sub is not t:
                yield dict(case, tree=number(copy.deepcopy(sub)))
        for t2 in shrink_leaves(t):
            yield dict(case, tree=number(t2))
        if case["n"] > 1:
            yield dict(case, n=case["n"] - 1)
            yield dict(case, n=1)
        if len(case["spans"]) > 1:
            yield dict(case, spans=case["spans"][:-1])
            yield dict(case, spans=case["spans"][1:])

    def describe(self, case):
        return f"islice({describe(case['tree'])}[{case['a']}:], {case['n']}) vs [{case['a']}:{case['a']}+{case['spans']}]"

    def nontrivial(self, case, obs):
        return obs["n"] >= 1 and any(lf["op"] == "per" for lf in leaves(case["tree"]))

    def distribution(self, case, dist):
        t = case["tree"]
        dist[f"recurring_leaves={sum(1 for lf in leaves(t) if lf['op'] == 'per')}"] += 1
        for op in ops_of(t):
            dist["op_" + op] += 1

    def corpus(self):
        return copy.deepcopy(CORPUS)


def subtrees(t):
    yield t
    for k in ("l", "r", "s"):
        if k in t:
            yield from subtrees(t[k])


def ops_of(t):
    return {s["op"] for s in subtrees(t)}


def shrink_leaves(t):
    """drop one stored event somewhere"""
    def rec(node):
        if node["op"] == "stored":
            for i in range(len(node["evs"])):
                yield dict(node, evs=node["evs"][:i] + node["evs"][i + 1:])
            return
        for k in ("l", "r", "s"):
            if k in node:
                for sub in rec(node[k]):
                    n2 = copy.copy(node)
                    n2[k] = sub
                    yield copy.deepcopy(n2)
    yield from rec(t)


def _per(freq="daily", interval=1, dow=0, start=0, dur=DAY):
    return dict(op="per", freq=freq, interval=interval, dow=dow, start=start, dur=dur)


A0 = 1_700_000_000
CORPUS = [
    # the two shapes the repository's own tests cover, and the anchors' questions:
    dict(tree=number(_per("weekly", dur=DAY)), a=A0, spans=[60 * DAY], n=5),
    # finite operand exhausted first: the infinite one must not be drained
    dict(tree=number({"op": "and", "l": {"op": "stored", "evs": [[A0 + HOUR, A0 + 30 * HOUR, 1]]},
                      "r": _per(start=9 * HOUR, dur=8 * HOUR)}), a=A0, spans=[10 * DAY], n=2),
    dict(tree=number({"op": "sub", "l": _per(start=9 * HOUR, dur=8 * HOUR),
                      "r": {"op": "stored", "evs": [[A0 + 10 * HOUR, A0 + 11 * HOUR, 1]]}}), a=A0, spans=[10 * DAY], n=8),
    dict(tree=number({"op": "sub", "l": {"op": "stored", "evs": [[A0, A0 + 3 * DAY, 1]]},
                      "r": _per(start=12 * HOUR, dur=HOUR)}), a=A0, spans=[10 * DAY], n=3),
    dict(tree=number({"op": "or", "l": _per("weekly", dow=2, dur=2 * DAY), "r": _per(interval=3, start=1800, dur=5 * HOUR)}),
         a=A0, spans=[30 * DAY], n=13),
    dict(tree=number({"op": "flatten", "s": {"op": "or", "l": _per(start=9 * HOUR, dur=8 * HOUR), "r": _per(start=16 * HOUR, dur=4 * HOUR)}}),
         a=A0, spans=[10 * DAY], n=8),
    dict(tree=number({"op": "inv", "s": {"op": "and", "l": _per("weekly", dow=0, dur=5 * DAY), "r": _per(start=9 * HOUR, dur=8 * HOUR)}}),
         a=A0, spans=[21 * DAY], n=13),
]

ASSUME = [
    "RecurringPattern leaves are daily/weekly single-weekday UTC patterns without exdates: their occurrences are the "
    "arithmetic progression phase + j*period (checked on every run: the items each counting wrapper handed downstream "
    "equal the model's oracle); what dateutil reads internally before the first yielded occurrence is not counted",
    "pull counts are next() calls on the leaf iterators returned by fetch() (the call ending in StopIteration included); "
    "stored leaves are counted item by item the same way although _fetch_static collects its matches at the first pull",
    "forward slices tl[a:] and tl[a:b] with a finite, a <= b; reverse iteration and merge_within are outside C14's statement",
]

CHECKS = {"C14": Check("C14", [LazyFamily("C14")], ASSUME)}
