"""C09 (cached timeline observationally identical to its source) and C10 (TTL honoured):
histories of queries, clock advances and source mutations run against the real
CachedTimeline with a fake integer clock, compared with Model/Cache.v."""
from __future__ import annotations

import copy
from dataclasses import dataclass

from .common import cbool, civl, clist, coz, cz, ensure_repo_import
from .family import Check, Family

ensure_repo_import()
import calgebra.cache as cache_mod  # noqa: E402
from calgebra import Interval, cached, flatten, timeline  # noqa: E402

KEYMOD = 1000


@dataclass(frozen=True, kw_only=True)
class KEv(Interval):
    id: int            # the cache key
    ver: int = 0       # mutable non-time content
    # events of real sources (Google Calendar occurrences) carry a recurring_event_id; the cache
    # must treat them like any other event (odd keys carry one here)
    recurring_event_id: str | None = None


@dataclass(frozen=True, kw_only=True)
class KEv2(Interval):
    """compound key (cal, uid); one component may be None for every event (an iCalendar
    RECURRENCE-ID of ordinary events): the keys are still unique"""
    cal: str | None
    uid: int
    ver: int = 0
    recurring_event_id: str | None = None


class FakeClock:
    def __init__(self, t0, tick):
        self.t, self.tick = t0, tick
        self.readings = []

    def __call__(self):
        v = self.t
        self.readings.append(v)
        self.t += self.tick
        return v


class VersionedSource:
    """A static event set whose non-time content can change (version counter); logs every
    fetch with the clock value at which it happened."""

    def __init__(self, evs, clock, compound, masked):
        self.evs, self.clock, self.compound, self.masked = evs, clock, compound, masked
        self.ver = 0
        self.log = []

    @property
    def _is_mask(self):
        return self.masked

    def _tl(self):
        out = []
        for (s, e, key) in self.evs:
            if self.masked:
                out.append(Interval(start=s, end=e))
            elif self.compound:
                out.append(KEv2(start=s, end=e, cal=(None if self.compound == "none" else "c"), uid=key, ver=self.ver,
                                recurring_event_id=f"series-{key}" if key % 2 else None))
            else:
                out.append(KEv(start=s, end=e, id=key, ver=self.ver,
                               recurring_event_id=f"series-{key}" if key % 2 else None))
        return timeline(*out)

    def fetch(self, start, end, *, reverse=False):
        self.log.append((self.clock.t, start, end))
        it = self._tl().fetch(start, end, reverse=reverse)
        if self.fail_after is None:
            return it
        if self.fail_skip > 0:
            self.fail_skip -= 1          # (a window with several gaps: the fault hits a LATER gap's fetch)
            return it
        k, self.fail_after = self.fail_after, None
        return self._failing(it, k)

    fail_after = None          # k: the armed fetch raises after having yielded k events
    fail_skip = 0              # fetches answered normally before the armed one

    @staticmethod
    def _failing(it, k):
        for i, ev in enumerate(it):
            if i >= k:
                break
            yield ev
        raise SourceFault("transient failure of the source")


class SourceFault(Exception):
    pass


def obs_iv(r, masked):
    if masked:
        return [r.start, r.end, None]
    key = getattr(r, "id", None)
    if key is None:
        key = getattr(r, "uid", None)
    if key is None:
        return [r.start, r.end, -1]
    return [r.start, r.end, key * KEYMOD + r.ver]


@dataclass(frozen=True, kw_only=True)
class NoKeyEv(Interval):
    """a rich event WITHOUT the field the cache is keyed on"""
    label: str = ""


def run_keyless(case):
    """A cache keyed on a field its source's events do not have refuses every query that has to store
    such an event (TypeError: missing key field) — the first time and every time after: a failed
    evaluation must leave nothing behind that makes the next one answer."""
    clock = FakeClock(case["t0"], case["tick"])
    saved = cache_mod.monotonic
    cache_mod.monotonic = clock
    try:
        evs = [NoKeyEv(start=s, end=e, label=f"e{k}") for (s, e, k) in case["evs"]]
        c = cached(timeline(*evs), ttl=case["ttl"], key="id")
        kinds = []
        for op in case["keyless_ops"]:
            _, a, b, rev = op[:4]
            hit = any((s is None or s <= b) and (e is None or e > a) for (s, e, _) in case["evs"])
            for attempt in (1, 2):
                try:
                    got = [[x.start, x.end] for x in c.fetch(a, b, reverse=rev)]
                    kinds.append(("ok", got))
                    if hit:
                        return {"err": f"attempt {attempt} of cached(keyless source)[{a}:{b}] returned {got}; the events "
                                       f"have no key field: TypeError expected (what earlier attempts did: {kinds[:-1]})"}
                except TypeError:
                    kinds.append(("TypeError", None))
        return dict(outs=[], logs=[], evt=[], failed=[])
    except Exception as ex:
        return {"err": type(ex).__name__ + ": " + str(ex)[:200]}
    finally:
        cache_mod.monotonic = saved


def run_history(case):
    if case.get("keyless_ops"):
        return run_keyless(case)
    clock = FakeClock(case["t0"], case["tick"])
    saved = cache_mod.monotonic
    cache_mod.monotonic = clock
    try:
        src = VersionedSource(case["evs"], clock, case.get("compound", False), case["masked"])
        c = cached(src, ttl=case["ttl"], key=("cal", "uid") if case.get("compound") else "id")
        outs, logs, evt, failed = [], [], [], []
        for op in case["ops"]:
            if op[0] == "fault":
                src.fail_after = op[1]           # the next source fetch (after op[2] good ones) fails after op[1] events
                src.fail_skip = op[2] if len(op) > 2 else 0
            elif op[0] == "q":
                _, a, b, rev = op[:4]
                n0 = len(src.log)
                t_ev = clock.t
                try:
                    if len(op) > 4 and op[4] == "ov" and b == a + 1 and not rev:
                        # a POINT query on the cached timeline: overlapping(a) is defined through
                        # fetch(a, a + 1), so it evicts, fills and answers like the slice does; what the slice
                        # would have returned is read back from the sink (no clock reading, no eviction)
                        pt = list(c.overlapping(a))
                        res = list(c._fetch_sink(a, b, reverse=False))
                        want = [x for x in res if x.finite_start <= a < x.finite_end]
                        if [obs_iv(x, case["masked"]) for x in pt] != [obs_iv(x, case["masked"]) for x in want]:
                            return {"err": f"overlapping({a}) on the cached timeline = {[obs_iv(x, case['masked']) for x in pt]}, "
                                           f"the cached slice [{a}:{b}] holds {[obs_iv(x, case['masked']) for x in res]}"}
                    else:
                        res = list(c.fetch(a, b, reverse=rev))
                except SourceFault:
                    failed.append(len(outs) + len(failed))
                    continue                     # the source's own exception reaches the caller: fine
                evt.append(t_ev)
                outs.append([obs_iv(r, case["masked"]) for r in res])
                logs.append([list(x) for x in src.log[n0:]])
            elif op[0] == "adv":
                clock.t += op[1]
            elif op[0] == "mut":
                src.ver += 1
        return dict(outs=outs, logs=logs, evt=evt, failed=failed)
    except Exception as ex:  # any exception escaping a query is part of the observation
        return {"err": type(ex).__name__ + ": " + str(ex)[:200]}
    finally:
        cache_mod.monotonic = saved


def coq_op(op):
    if op[0] == "q":
        return f"(CQuery {cz(op[1])} {cz(op[2])} {cbool(op[3])})"
    if op[0] == "adv":
        return f"(CAdvance {cz(op[1])})"
    return "CMutate"


class CacheFamily(Family):
    header = "From CG Require Import Harness.CacheChk.\n"
    case_type = "kcase"
    corr = "corr_cache"
    shard = 150
    rule = ("histories of 1-10 queries / clock advances / source mutations over window edges "
            "{0,5,10,15,20,30} and sources of <=4 keyed events (overlapping, nested, touching segment "
            "edges, unbounded); non-trivial = some query returned an interval and some query hit a cached segment")

    def __init__(self, prop, oracle, mutations, n_quick, n_thorough, name):
        super().__init__(prop)
        self.oracle, self.mutations = oracle, mutations
        self.n_quick, self.n_thorough, self.name = n_quick, n_thorough, name

    def gen(self, rng, tier, n):
        # segment and window edges on, below and above timestamp 0 (a legitimate instant: 1970-01-01)
        base_edges = [0, 5, 10, 15, 20, 30]
        for _ in range(n):
            edges = base_edges if rng.random() < 0.7 else [-10, -5, 0, 5, 10, 20]
            ttl = rng.choice([1, 2, 5, 10])
            tick = rng.choice([0, 0, 1])
            masked = rng.random() < 0.2
            k = rng.choice([0, 1, 2, 2, 3, 4])
            evs = []
            for key in range(1, k + 1):
                mode = rng.random()
                if mode < 0.12:
                    s, e = None, rng.choice([3, 5, 12, 20, 33])
                elif mode < 0.24:
                    s, e = rng.choice([0, 4, 5, 18, 25]), None
                elif mode < 0.5:
                    s = rng.choice(edges[:-1])
                    e = rng.choice([x for x in edges if x > s])
                else:
                    s = rng.randrange(-2, 30)
                    e = s + rng.choice([1, 2, 3, 7, 12, 25])
                evs.append([s, e, key])
            if masked:
                # a mask source yields disjoint, non-touching plain intervals
                keep, hi = [], None
                for (s, e, key) in sorted(evs, key=lambda x: (-10 ** 9 if x[0] is None else x[0])):
                    lo = -10 ** 9 if s is None else s
                    if hi is None or lo > hi:
                        keep.append([s, e, key])
                        hi = 10 ** 9 if e is None else e
                evs = keep
            ops = []
            for _ in range(rng.choice([1, 2, 3, 4, 5, 6, 8, 10] if tier == "quick" else [2, 4, 6, 8, 10, 12])):
                r = rng.random()
                if r < 0.6:
                    a = rng.choice(edges[:-1] + [rng.randrange(edges[0], 29)])
                    b = rng.choice([x for x in edges + [a + 1, a + 3] if x > a])
                    if rng.random() < 0.1:
                        ops.append(["q", a, a + 1, False, "ov"])       # overlapping(a): a point query between slices
                    else:
                        ops.append(["q", a, b, rng.random() < 0.3])
                elif r < 0.9 or not self.mutations:
                    ops.append(["adv", rng.choice([0, 1, max(0, ttl - 1), ttl, ttl + 1])])
                else:
                    ops.append(["mut"])
            if not any(o[0] == "q" for o in ops):
                ops.append(["q", 0, 10, False])
            if not masked and rng.random() < 0.04:
                # the same history on a source whose events lack the key field (the model sees an empty history)
                yield dict(masked=False, ttl=ttl, tick=tick, t0=0, evs=evs, ops=[], compound=False,
                           keyless_ops=[o for o in ops if o[0] == "q"])
                continue
            yield dict(masked=masked, ttl=ttl, tick=tick, t0=rng.choice([0, 100]), evs=evs, ops=ops,
                       compound=((rng.choice([True, "none"]) if rng.random() < 0.25 else False) if not masked else False))

    def run_impl(self, case):
        return run_history(case)

    def coq_case(self, case, obs):
        evs = clist([civl([s, e, None if case["masked"] else key * KEYMOD]) for (s, e, key) in case["evs"]])
        # queries on which the source failed are not shown to the Coq side (the faults part judges the
        # ANSWERED queries only, each against the source — its check functions are stateless)
        nq, kept = 0, []
        for o in case["ops"]:
            if o[0] == "fault":
                continue
            if o[0] == "q":
                if nq in obs.get("failed", []):
                    nq += 1
                    continue
                nq += 1
            kept.append(o)
        ops = clist([coq_op(o) for o in kept])
        outs = clist([clist([civl(o) for o in out]) for out in obs["outs"]])
        logs = clist([clist([f"({cz(t)}, {cz(a)}, {cz(b)})" for (t, a, b) in lg]) for lg in obs["logs"]])
        evt = clist([cz(t) for t in obs["evt"]])
        return (f"(mkK {cbool(case['masked'])} {cz(case['ttl'])} {cz(case['tick'])} {cz(case['t0'])} "
                f"{evs} {ops} {outs} {logs} {evt})")

    def shrink_candidates(self, case):
        ops, evs = case["ops"], case["evs"]
        for i in range(len(ops)):
            yield dict(case, ops=ops[:i] + ops[i + 1:])
        for i in range(len(evs)):
            yield dict(case, evs=evs[:i] + evs[i + 1:])
        if case.get("compound"):
            yield dict(case, compound=False)
        if case["tick"]:
            yield dict(case, tick=0)
        for i, (s, e, k) in enumerate(evs):
            for (s2, e2) in ((s + 1 if s is not None else None, e), (s, e - 1 if e is not None else None),
                             (0 if s is None else s, e), (s, 30 if e is None else e)):
                if (s2, e2) != (s, e) and (s2 is None or e2 is None or s2 < e2):
                    yield dict(case, evs=evs[:i] + [[s2, e2, k]] + evs[i + 1:])

    def describe(self, case):
        return (f"source={case['evs']} masked={case['masked']} ttl={case['ttl']} tick={case['tick']} "
                f"t0={case['t0']} compound_key={case.get('compound', False)} ops={case['ops']}")

    def nontrivial(self, case, obs):
        return any(obs["outs"]) and any(len(lg) == 0 for lg in obs["logs"][1:] or [[1]])

    def distribution(self, case, dist):
        dist["masked" if case["masked"] else "keyed"] += 1
        dist[f"tick{case['tick']}"] += 1
        dist[f"queries_{sum(1 for o in case['ops'] if o[0] == 'q')}"] += 1
        if any(o[0] == "mut" for o in case["ops"]):
            dist["with_mutation"] += 1
        if any(e[0] is None or e[1] is None for e in case["evs"]):
            dist["has_unbounded_event"] += 1

    def perturb(self, case, rng):
        c = copy.deepcopy(case)
        k = rng.random()
        if k < 0.4:
            a = rng.randrange(0, 29)
            c["ops"].insert(rng.randrange(len(c["ops"]) + 1), ["q", a, a + rng.choice([1, 5, 10]), rng.random() < 0.3])
        elif k < 0.7:
            c["ops"].insert(rng.randrange(len(c["ops"]) + 1), ["adv", rng.choice([0, 1, c["ttl"] - 1, c["ttl"], c["ttl"] + 1])])
        elif c["evs"]:
            j = rng.randrange(len(c["evs"]))
            s, e, key = c["evs"][j]
            if s is not None and rng.random() < 0.5:
                s += rng.choice([-1, 1])
            elif e is not None:
                e += rng.choice([-1, 1])
            if s is None or e is None or s < e:
                c["evs"][j] = [s, e, key]
        return c


class FaultFamily(CacheFamily):
    """Histories in which the source sometimes fails part-way through a fetch (a paginated backend
    failing on a later page).  The failure itself reaches the caller; what the property demands is
    that every query that IS answered afterwards equals the source's slice, each event whole and
    once.  The state of a cache after a failed fill is not modelled, so this part judges the
    answered queries with the stateless per-query oracle (the model plays no role in it)."""
    corr = "oracle_C09"

    def __init__(self, prop, n_quick, n_thorough):
        super().__init__(prop, "oracle_C09", False, n_quick, n_thorough, "source_faults")
        self.rule = ("histories as in part histories, with the source armed to raise after yielding 0-2 events of "
                     "its next, second or third fetch before 1-3 of the queries; the answered queries are judged against the source; "
                     "non-trivial = some query failed and a later one returned an interval")

    def gen(self, rng, tier, n):
        for case in super().gen(rng, tier, n):
            ops = []
            for o in case["ops"]:
                if o[0] == "q" and rng.random() < 0.35:
                    ops.append(["fault", rng.choice([0, 0, 1, 1, 2]), rng.choice([0, 0, 0, 1, 1, 2])])
                    ops.append(o)
                    if rng.random() < 0.7:
                        ops.append(list(o))            # the caller retries at once
                else:
                    ops.append(o)
            yield dict(case, ops=ops)

    def nontrivial(self, case, obs):
        return bool(obs.get("failed")) and any(obs["outs"])

    def distribution(self, case, dist):
        super().distribution(case, dist)
        dist[f"faults_{sum(1 for o in case['ops'] if o[0] == 'fault')}"] += 1


ASSUME_CACHE = ["time.monotonic is replaced by an integer-valued fake clock (float rounding of created+ttl not modelled)",
                "source events have unique keys (the property's domain); the source is static apart from version changes of non-time fields"]

CHECKS = {
    "C09": Check("C09", [CacheFamily("C09", "oracle_C09", False, 1500, 20000, "histories"),
                         FaultFamily("C09", 500, 6000)], ASSUME_CACHE),
    "C10": Check("C10", [CacheFamily("C10", "oracle_C10", True, 1500, 20000, "histories_with_mutations")], ASSUME_CACHE),
}
