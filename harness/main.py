import argparse
import importlib
import os
import sys

# every module that defines CHECKS = {"Cxx": Check(...)}; modules are picked up when present
MODULES = ["props_core", "props_more", "props_cache", "props_recur", "props_metrics", "props_mem",
           "props_conc", "props_lazy", "props_pure", "props_ical", "props_gcsa"]


def all_checks():
    fams = {}
    for m in MODULES:
        path = os.path.join(os.path.dirname(__file__), m + ".py")
        if not os.path.exists(path):
            continue
        mod = importlib.import_module("harness." + m)
        fams.update(mod.CHECKS)
    return fams


def main():
    ap = argparse.ArgumentParser()
    ap.add_argument("prop")
    ap.add_argument("--tier", default=os.environ.get("VERIF_TIER", "quick"))
    ap.add_argument("--replay")
    args = ap.parse_args()
    seed = int(os.environ.get("VERIF_SEED", "20260929"))
    if args.prop == "setup":
        # build the whole Coq development (full .vo build); used by MANIFEST.setup_cmd
        from .common import make_coq
        # tie B: regenerate every Gen/*.v from the sources of the tree under test first
        from .family import regen_source
        print(f"source translation (tie C): untranslatable = {regen_source()}")
        for name, chk in sorted(all_checks().items()):
            if getattr(chk, "pre_build", None):
                print(f"regenerating facts for {name}: {chk.pre_build()}")
        ok, out, secs = make_coq(timeout=3000)
        print(out[-3000:])
        print(f"coq build ok={ok} in {secs:.0f}s")
        return 0 if ok else 1
    fams = all_checks()
    if args.prop not in fams:
        print(f"unknown property {args.prop}")
        return 2
    try:
        return fams[args.prop].run(args.tier, seed, replay=args.replay)
    except Exception as ex:          # the check itself could not be completed against this tree
        import traceback
        from .common import Report
        rep = Report(args.prop, args.tier, seed)
        rep.violation(dict(kind="check-could-not-complete",
                           theorem_or_correspondence=f"the correspondence run of {args.prop} (harness exception while "
                                                     f"driving the tree under test)",
                           exception=type(ex).__name__ + ": " + str(ex)[:500],
                           traceback=traceback.format_exc()[-3000:]), no_input=True)
        rep.coverage = dict(obligations=1, discharged=0, checker_cmd="(not reached)", trusted_base=[],
                            explanation="the harness raised while driving the tree under test; nothing is shown to hold")
        return rep.finish()


if __name__ == "__main__":
    sys.exit(main())
