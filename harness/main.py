import argparse
import os
import sys


def main():
    ap = argparse.ArgumentParser()
    ap.add_argument("prop")
    ap.add_argument("--tier", default=os.environ.get("VERIF_TIER", "quick"))
    ap.add_argument("--replay")
    args = ap.parse_args()
    seed = int(os.environ.get("VERIF_SEED", "20260929"))
    from . import props_core, props_more, props_cache
    fams = dict(props_core.CHECKS)
    fams.update(props_more.CHECKS)
    fams.update(props_cache.CHECKS)
    if args.prop not in fams:
        print(f"unknown property {args.prop}")
        return 2
    return fams[args.prop].run(args.tier, seed, replay=args.replay)


if __name__ == "__main__":
    sys.exit(main())
