"""Timeline expressions as JSON trees: random/enumerated generation, construction of the real
calgebra objects, emission of the Coq term, shrinking.

tree ::= {"op":"stored","evs":[[s,e,id|None],...]}
       | {"op":"or"|"and"|"sub","l":tree,"r":tree}
       | {"op":"inv"|"flatten","s":tree}
       | {"op":"filt","s":tree,"f":filter}
       | {"op":"buf","s":tree,"before":int,"after":int}
       | {"op":"mw","s":tree,"gap":int}
filter ::= {"k":"cmp","p":prop,"c":"ge|le|gt|lt|eq|ne","v":val} | {"k":"oneof","p":prop,"vs":[val]}
         | {"k":"hasany"|"hasall","vs":[int]} | {"k":"and"|"or","fs":[filter]}
prop ::= ["dur",scale] | ["start"] | ["end"] | ["field","prio"|"name"]
val ::= ["int",z] | ["str",n] | ["none"]
"""
from __future__ import annotations

import copy
import itertools
import json
from dataclasses import dataclass, replace

from .common import cbool, civl, clist, coz, cz, ensure_repo_import

calgebra = ensure_repo_import()
from calgebra import Interval, Timeline, buffer, flatten, merge_within, timeline  # noqa: E402
from calgebra import properties as P  # noqa: E402


@dataclass(frozen=True, kw_only=True)
class Ev(Interval):
    id: int
    prio: int | None = None
    name: str | None = None
    tags: tuple = ()


FIELD_NO = {"prio": 0, "name": 1, "tags": 2}


# --------------------------------------------------------------------------------------------
# environment: fields of the rich events (deterministic function of the id unless given)

def default_fields(pid: int):
    prio = [None, 0, 1, 2, 5][pid % 5]
    name = [None, 0, 1, 2][(pid // 2) % 4]
    tags = [(), (0,), (1,), (0, 1), (2,), (0, 2)][(pid // 3) % 6]
    return dict(prio=prio, name=name, tags=tags)


def mk_event(t, env=None):
    s, e, pid = t
    if pid is None:
        return Interval(start=s, end=e)
    f = (env or {}).get(pid) or default_fields(pid)
    return Ev(start=s, end=e, id=pid, prio=f["prio"],
              name=None if f["name"] is None else f"s{f['name']}", tags=tuple(f["tags"]))


def obs_event(r, srcmap):
    """Observation of one result interval: [start, end, id|None]; id = -1 when a non-time field
    of a rich event differs from the source event with that id (metadata altered)."""
    pid = getattr(r, "id", None)
    if pid is None:
        if type(r) is not Interval:
            return [r.start, r.end, -2]
        return [r.start, r.end, None]
    src = srcmap.get(pid)
    if src is None or type(r) is not type(src):
        return [r.start, r.end, -1]
    try:
        same = replace(r, start=src.start, end=src.end) == src
    except Exception:
        same = False
    return [r.start, r.end, pid if same else -1]


# --------------------------------------------------------------------------------------------
# walking

def leaves_of(t):
    if t["op"] == "stored":
        yield t
    else:
        for k in ("l", "r", "s"):
            if k in t:
                yield from leaves_of(t[k])


def all_events(t):
    for lf in leaves_of(t):
        yield from lf["evs"]


def ids_of(t):
    return sorted({e[2] for e in all_events(t) if e[2] is not None})


def size_of(t):
    return 1 + sum(size_of(t[k]) for k in ("l", "r", "s") if k in t)


# --------------------------------------------------------------------------------------------
# real objects

def _prop(p):
    if p[0] == "dur":
        return {1: P.seconds, 60: P.minutes, 3600: P.hours, 86400: P.days}[p[1]]
    if p[0] in ("start", "end"):
        return {"start": P.start, "end": P.end}[p[0]]
    if len(p) > 2 and p[2] == "callable":
        # field(<accessor function>) instead of field(<name>): the same property
        return P.field(lambda e, _n=p[1]: getattr(e, _n))
    return P.field(p[1])


# containers handed to one_of / has_any / has_all that the CALLER keeps: they are emptied and refilled
# with junk once the expression is built (poison()), which must not change the filter
_CALLER_OWNED = []


def poison():
    for c in _CALLER_OWNED:
        c.clear()
        c.update({"junk", -12345})
    _CALLER_OWNED.clear()


def _values(vs):
    """the `values` argument of one_of / has_any / has_all: alternately a one-shot iterator (the
    filter must have consumed it when it was built) and a set the caller goes on using"""
    vs = list(vs)
    if len(vs) % 2:
        s_ = set(vs)
        _CALLER_OWNED.append(s_)
        return s_
    return iter(vs)


def build_filter(f):
    k = f["k"]
    if k == "cmpp":
        # a property compared with another property (both sides are resolved per event)
        l, r = _prop(f["p"]), _prop(f["q"])
        return {"ge": l >= r, "le": l <= r, "gt": l > r, "lt": l < r, "eq": l == r, "ne": l != r}[f["c"]]
    if k in ("cmp", "oneof"):
        p = f["p"]
        if p[0] == "dur" and len(p) > 2 and p[2] == "field":
            # the user's own spelling of "length in seconds": a custom property that reads the span (only
            # generated over bounded events, where it IS P.seconds; the model knows it as PDur 1)
            prop = P.field(lambda e: e.end - e.start) if f.get("c") in ("ge", "lt", "eq") else P.field("duration")
        elif p[0] == "dur":
            prop = {1: P.seconds, 60: P.minutes, 3600: P.hours, 86400: P.days}[p[1]]
        elif p[0] == "start":
            prop = P.start
        elif p[0] == "end":
            prop = P.end
        else:
            prop = _prop(p)
        if k == "cmp":
            v = pyval(f["v"])
            return {"ge": prop >= v, "le": prop <= v, "gt": prop > v, "lt": prop < v,
                    "eq": prop == v, "ne": prop != v}[f["c"]]
        # `values` is declared Iterable: hand over a one-shot iterator (a generator), which the
        # filter must have consumed when it was built — evaluating it later must not depend on it
        return P.one_of(prop, _values(pyval(v) for v in f["vs"]))
    if k == "hasany":
        return P.has_any(P.field("tags"), _values(f["vs"]))
    if k == "hasall":
        return P.has_all(P.field("tags"), _values(f["vs"]))
    subs = [build_filter(g) for g in f["fs"]]
    acc = subs[0]
    for g in subs[1:]:
        acc = (acc & g) if k == "and" else (acc | g)
        _derive_from(acc)
    return acc


def _derive_from(flt):
    """Users keep a filter and derive others from it (`base = f & g; urgent = base & h`): building
    the derived ones must leave the kept one as it was."""
    extra = P.seconds >= 0
    for other in (flt & extra, flt | extra, extra & flt, extra | flt):
        del other


def pyval(v):
    if v[0] == "int":
        return v[1]
    if v[0] == "str":
        return f"s{v[1]}"
    return None


def build(t, env=None, leaf_hook=None, _memo=None):
    obj = _build_top(t, env, leaf_hook, _memo)
    poison()
    return obj


class _UserTimeline(Timeline):
    """A timeline written by a user (the public ABC): fetch() is declared to return an Iterable, so it
    may hand back a list, a tuple or a one-shot iterator as well as a generator."""

    def __init__(self, inner, kind):
        self._inner, self._kind = inner, kind

    def fetch(self, start, end, *, reverse=False):
        res = list(self._inner.fetch(start, end, reverse=reverse))
        return res if self._kind == "list" else tuple(res) if self._kind == "tuple" else iter(res)


def _build_top(t, env=None, leaf_hook=None, _memo=None):
    """Build the real calgebra object.  Equal sub-expressions (in particular equal stored leaves) are
    ONE Python object — users reuse timeline objects: `(a & b) & (a & c)`, `free = work - busy;
    (free & x) | (free & y)` — so aliasing inside a tree, and two live evaluations of one node, are
    exercised."""
    if _memo is None:
        _memo = {}
    return _build(t, env, leaf_hook, _memo)


def _build(t, env, leaf_hook, memo):
    key = json.dumps(t, sort_keys=True)
    if key in memo and not (t["op"] == "stored" and not t["evs"]):
        return memo[key]
    obj = _build1(t, env, leaf_hook, memo)
    memo[key] = obj
    return obj


def _build1(t, env, leaf_hook, memo):
    build = lambda x, e, h: _build(x, e, h, memo)      # noqa: E731
    op = t["op"]
    if op == "stored":
        tl = timeline(*[mk_event(e, env) for e in t["evs"]])
        if t.get("impl"):
            tl = _UserTimeline(tl, t["impl"])
        return leaf_hook(tl, t) if leaf_hook else tl
    if op == "or":
        return build(t["l"], env, leaf_hook) | build(t["r"], env, leaf_hook)
    if op == "and":
        return build(t["l"], env, leaf_hook) & build(t["r"], env, leaf_hook)
    if op == "sub":
        return build(t["l"], env, leaf_hook) - build(t["r"], env, leaf_hook)
    if op == "inv":
        return ~build(t["s"], env, leaf_hook)
    if op == "flatten":
        return flatten(build(t["s"], env, leaf_hook))
    if op == "filt":
        if t.get("chain") and t["f"]["k"] == "and":
            # the conjunction written as a chain: tl & f1 & f2 (the same events as tl & (f1 & f2))
            acc = build(t["s"], env, leaf_hook)
            for g in t["f"]["fs"]:
                acc = acc & build_filter(g)
            return acc
        return build(t["s"], env, leaf_hook) & build_filter(t["f"])
    if op == "buf":
        return buffer(build(t["s"], env, leaf_hook), before=t["before"], after=t["after"])
    if op == "mw":
        return merge_within(build(t["s"], env, leaf_hook), gap=t["gap"])
    raise ValueError(op)


def srcmap_of(t, env=None):
    return {e[2]: mk_event(e, env) for e in all_events(t) if e[2] is not None}


def _focus(t, env, ctx, warm):
    """The object of expression t.  With a context tree ctx (which contains t as a sub-expression):
    t's object is the very object embedded in ctx's, built first; the warm-up queries are then run to
    completion on the context's root — evaluating or composing an expression must not change what
    its sub-expressions answer afterwards."""
    memo = {}
    if ctx is not None:
        root = _build(ctx, env, None, memo)
        poison()
        for (a, b, rev) in (warm or []):
            for _ in root[slice(a, b, -1 if rev else None)]:
                pass
    obj = _build(t, env, None, memo)
    poison()
    return obj


def run_slice(t, a, b, rev, env=None, ctx=None, warm=None):
    """Slice the real expression; returns the observation list or {"err": kind}."""
    try:
        tl = _focus(t, env, ctx, warm)
        sm = srcmap_of(t, env)
        sl = slice(a, b, -1 if rev else None)
        return [obs_event(r, sm) for r in tl[sl]]
    except (ValueError, TypeError) as ex:
        return {"err": type(ex).__name__}


def run_fetch(t, a, b, rev, env=None, ctx=None, warm=None):
    """Raw fetch (no clipping by the window)."""
    try:
        tl = _focus(t, env, ctx, warm)
        sm = srcmap_of(t, env)
        return [obs_event(r, sm) for r in tl.fetch(a, b, reverse=rev)]
    except (ValueError, TypeError) as ex:
        return {"err": type(ex).__name__}


def run_overlapping(t, p, env=None, ctx=None, warm=None):
    try:
        tl = _focus(t, env, ctx, warm)
        sm = srcmap_of(t, env)
        return [obs_event(r, sm) for r in tl.overlapping(p)]
    except (ValueError, TypeError) as ex:
        return {"err": type(ex).__name__}


# --------------------------------------------------------------------------------------------
# Coq terms

def coq_val(v):
    if v[0] == "int":
        return f"(VInt {cz(v[1])})"
    if v[0] == "str":
        return f"(VStr {v[1]}%N)"
    return "VNone"


def coq_prop(p):
    if p[0] == "dur":
        return f"(PDur {p[1]})"
    if p[0] == "start":
        return "PStart"
    if p[0] == "end":
        return "PEnd"
    return f"(PField {FIELD_NO[p[1]]}%N)"


def coq_filter(f):
    k = f["k"]
    if k == "cmp":
        return f"(FCmp {coq_prop(f['p'])} {f['c'].capitalize()} {coq_val(f['v'])})"
    if k == "cmpp":
        return f"(FCmpP {coq_prop(f['p'])} {f['c'].capitalize()} {coq_prop(f['q'])})"
    if k == "oneof":
        return f"(FOneOf {coq_prop(f['p'])} {clist([coq_val(v) for v in f['vs']])})"
    if k == "hasany":
        return f"(FHasAny 2%N {clist([f'{v}%N' for v in f['vs']])})"
    if k == "hasall":
        return f"(FHasAll 2%N {clist([f'{v}%N' for v in f['vs']])})"
    subs = [coq_filter(g) for g in f["fs"]]
    # f & g builds And(f, g): binary and nested to the left, as the operators do
    acc = subs[0]
    ctor = "FAnd" if k == "and" else "FOr"
    for g in subs[1:]:
        acc = f"({ctor} [{acc}; {g}])"
    return acc


def coq_expr(t):
    op = t["op"]
    if op == "stored":
        return f"(Stored {clist([civl(e) for e in t['evs']])})"
    if op in ("or", "and", "sub"):
        return f"({op}_ {coq_expr(t['l'])} {coq_expr(t['r'])})"
    if op == "inv":
        return f"(inv_ {coq_expr(t['s'])})"
    if op == "flatten":
        return f"(flatten_ {coq_expr(t['s'])})"
    if op == "filt":
        return f"(Filt {coq_expr(t['s'])} {coq_filter(t['f'])})"
    if op == "buf":
        return f"(Buf {coq_expr(t['s'])} {cz(t['before'])} {cz(t['after'])})"
    if op == "mw":
        return f"(MergeW {coq_expr(t['s'])} {cz(t['gap'])})"
    raise ValueError(op)


def coq_env(t, env=None):
    rows = []
    for pid in ids_of(t):
        f = (env or {}).get(pid) or default_fields(pid)
        fs = [f"(0%N, {'VNone' if f['prio'] is None else '(VInt ' + cz(f['prio']) + ')'})",
              f"(1%N, {'VNone' if f['name'] is None else '(VStr ' + str(f['name']) + '%N)'})",
              f"(2%N, (VSet {clist([str(x) + '%N' for x in f['tags']])}))"]
        rows.append(f"({pid}%N, {clist(fs)})")
    return clist(rows)


def coq_out(obs):
    return clist([civl(o) for o in obs])


def coq_scase(t, a, b, rev, obs, env=None):
    return f"(mkSC {coq_env(t, env)} {coq_expr(t)} {coz(a)} {coz(b)} {cbool(rev)} {coq_out(obs)})"


def coq_pcase(t, q1, o1, q2, o2, env=None):
    (a1, b1, r1), (a2, b2, r2) = q1, q2
    return (f"(mkPC {coq_env(t, env)} {coq_expr(t)} {coz(a1)} {coz(b1)} {cbool(r1)} {coq_out(o1)} "
            f"{coz(a2)} {coz(b2)} {cbool(r2)} {coq_out(o2)})")


# --------------------------------------------------------------------------------------------
# generation

class Gen:
    """All random choices come from one random.Random so cases replay from the seed."""

    def __init__(self, rng, m=7, max_ev=4):
        self.rng = rng
        self.m = m
        self.max_ev = max_ev
        self.next_id = 1
        self.off = 0          # the universe of a case is off .. off+m (chosen per case in leaf())
        self.big_ok = False   # set by the families whose cases need not be datetimes

    def fresh(self):
        i = self.next_id
        self.next_id += 1
        return i

    def span(self, unb=0.12):
        r = self.rng
        o = self.off
        s = None if r.random() < unb else r.randrange(o, o + self.m)
        e = None if r.random() < unb else r.randrange((s if s is not None else o) + 1, o + self.m + 1)
        return s, e

    def leaf(self, mode=None, rich=None):
        r = self.rng
        if self.next_id == 1:
            self.made = []
            # a universe straddling or below zero: 0 and -1 are the values code is tempted to use as
            # 'nothing yet' markers, and no test places an event or a window edge there
            self.off = 0 if r.random() < 0.65 else r.randrange(-self.m - 1, 0)
            if self.big_ok and r.random() < 0.06:
                # very large but finite instants (millisecond timestamps, years past 9999): finite is
                # finite, however close to the implementation's idea of infinity
                self.off = r.choice([1, -1]) * r.choice([4 * 10 ** 12, 2 ** 40, 2 ** 61])
        made = getattr(self, "made", [])
        if made and r.random() < 0.07:
            # the same timeline object used twice in one expression (same events, same ids)
            return copy.deepcopy(r.choice(made))
        lf = self._leaf(mode, rich)
        if lf["evs"]:
            self.made = made + [copy.deepcopy(lf)]      # (a copy: the leaf itself may be edited later)
        return lf

    def _leaf(self, mode=None, rich=None):
        r = self.rng
        mode = mode or r.choice(["any", "any", "disjoint", "disjoint", "nested", "dup", "touch"])
        n = r.choice([0, 1, 1, 2, 2, 3, 3, self.max_ev])
        spans = []
        if mode == "disjoint" or mode == "touch":
            pts = sorted(r.sample(range(self.off, self.off + self.m + 1), min(self.m + 1, 2 * n))) if n else []
            if mode == "touch" and len(pts) >= 3:
                spans = [(pts[i], pts[i + 1]) for i in range(0, len(pts) - 1)][:n]
            else:
                spans = [(pts[i], pts[i + 1]) for i in range(0, len(pts) - 1, 2)]
            if spans and r.random() < 0.15:
                spans[0] = (None, spans[0][1])
            if spans and r.random() < 0.15:
                spans[-1] = (spans[-1][0], None)
        elif mode == "nested":
            for _ in range(n):
                spans.append(self.span())
            if spans:
                s, e = spans[0]
                lo = s if s is not None else self.off
                hi = e if e is not None else self.off + self.m
                if hi - lo >= 2:
                    spans.append((lo + 1, hi - 1) if hi - lo > 2 else (lo, hi - 1))
        elif mode == "dup":
            for _ in range(max(1, n // 2)):
                sp = self.span()
                spans += [sp, sp]
        else:
            spans = [self.span() for _ in range(n)]
        r.shuffle(spans)
        if rich is None:
            rich = r.random() < 0.75
        evs = []
        for (s, e) in spans:
            evs.append([s, e, self.fresh() if rich else None])
        lf = {"op": "stored", "evs": evs}
        if r.random() < 0.12:
            lf["impl"] = r.choice(["list", "list", "tuple", "iter"])     # a user-written Timeline class
        return lf

    def tree(self, depth, ops, leaf_mode=None, rich=None):
        t = self._tree(depth, ops, leaf_mode, rich)
        if t["op"] != "stored":
            self.subtrees = (getattr(self, "subtrees", []) if self.next_id > 1 else []) + [copy.deepcopy(t)]
        return t

    def _tree(self, depth, ops, leaf_mode=None, rich=None):
        r = self.rng
        if depth <= 0 or r.random() < 0.25:
            return self.leaf(leaf_mode, rich)
        subs = getattr(self, "subtrees", []) if self.next_id > 1 else []
        if subs and r.random() < 0.06:
            # the same composite object used twice in one expression: free = work - busy;
            # (free & x) | (free & y)
            return copy.deepcopy(r.choice(subs))
        op = r.choice(ops)
        if op == "sub":
            return {"op": op, "l": self.tree(depth - 1, ops, leaf_mode, rich),
                    "r": self.with_empty_event(self.tree(depth - 1, ops, leaf_mode, rich))}
        if op in ("or", "and"):
            return {"op": op, "l": self.tree(depth - 1, ops, leaf_mode, rich),
                    "r": self.tree(depth - 1, ops, leaf_mode, rich)}
        if op in ("inv", "flatten"):
            return {"op": op, "s": self.tree(depth - 1, ops, leaf_mode, rich)}
        if op == "filt":
            sub = self.tree(depth - 1, ops, leaf_mode, rich)
            if sub["op"] == "stored":
                # field filters need the fields: only on all-rich stored leaves
                allrich = all(e[2] is not None for e in sub["evs"])
                return self._chain({"op": "filt", "s": sub, "f": self.filt(2, fields=allrich)})
            return self._chain({"op": "filt", "s": sub, "f": self.filt(2, fields=False)})
        if op == "buf":
            return {"op": "buf", "s": self.tree(depth - 1, ops, leaf_mode, rich),
                    "before": r.choice([0, 0, 1, 2, 5]), "after": r.choice([0, 0, 1, 2, 5])}
        if op == "mw":
            return {"op": "mw", "s": self.tree(depth - 1, ops, leaf_mode, rich),
                    "gap": r.choice([0, 1, 2, 5])}
        raise ValueError(op)

    def _chain(self, node):
        if node["f"]["k"] == "and" and self.rng.random() < 0.4:
            node["chain"] = True
        return node

    def with_empty_event(self, t, p=0.12):
        """A subtractor may hold a zero-length interval (start == end): it covers no instant and must
        not change the difference."""
        if self.rng.random() < p:
            # (not below a buffer: extended by it a zero-length event covers time, while the reference
            #  semantics of the oracles is defined on positive-length events)
            def plain_leaves(x, under_buf=False):
                if x["op"] == "stored":
                    if not under_buf:
                        yield x
                else:
                    for k in ("l", "r", "s"):
                        if k in x:
                            yield from plain_leaves(x[k], under_buf or x["op"] in ("buf", "mw"))
            lvs = list(plain_leaves(t))
            if lvs:
                lf = self.rng.choice(lvs)
                x = self.rng.randrange(self.off, self.off + self.m + 1)
                rich = not any(e[2] is None for e in lf["evs"])      # (an empty leaf may sit under a field filter)
                lf["evs"].insert(self.rng.randrange(len(lf["evs"]) + 1), [x, x, self.fresh() if rich else None])
        return t

    def window(self):
        r = self.rng
        k = r.random()
        if k < 0.08:
            return None, None
        o = self.off
        if k < 0.18:
            return None, r.randrange(o, o + self.m + 2)
        if k < 0.28:
            return r.randrange(o - 1, o + self.m + 1), None
        a = r.randrange(o - 1, o + self.m + 1)
        b = r.randrange(a + 1, o + self.m + 3)
        return a, b

    def value(self, kind):
        r = self.rng
        if kind == "int":
            return ["int", r.choice([0, 1, 2, 3, 5])]
        if kind == "str":
            return ["str", r.randrange(0, 4)]
        return ["none"]

    def filt(self, depth, fields=True):
        r = self.rng
        k = r.random()
        if depth > 0 and k < 0.3:
            fs = [self.filt(depth - 1, fields) for _ in range(r.choice([2, 2, 3]))]
            if fs[0]["k"] == "cmp" and fs[0]["v"][0] == "int" and r.random() < 0.25:
                # look-alike conjuncts: the same comparison with the same constant on another property
                others = [q for q in (["dur", 1], ["dur", 60], ["start"], ["end"]) if q != fs[0]["p"]]
                fs[1] = dict(fs[0], p=r.choice(others))
            return {"k": r.choice(["and", "or"]), "fs": fs}
        k = r.random()
        if r.random() < 0.08:
            props = [["dur", 1], ["dur", 60], ["start"], ["end"]]
            return {"k": "cmpp", "p": r.choice(props), "c": r.choice(["ge", "le", "gt", "lt", "eq", "ne"]),
                    "q": r.choice(props)}
        if k < 0.35 or not fields:
            p = r.choice([["dur", 1], ["dur", 1], ["dur", 60], ["start"], ["end"]])
            if p[0] == "dur" and p[1] == 60:
                v = ["int", r.choice([0, 1])]
            else:
                v = ["int", r.randrange(-1, self.m + 2) + (self.off if p[0] != "dur" else 0)]
            return {"k": "cmp", "p": p, "c": r.choice(["ge", "le", "gt", "lt", "eq", "ne"]), "v": v}
        if k < 0.5:
            return {"k": "cmp", "p": ["field", "prio"] + (["callable"] if r.random() < 0.4 else []), "c": r.choice(["eq", "ne"]),
                    "v": r.choice([self.value("int"), ["none"]])}
        if k < 0.6:
            return {"k": "cmp", "p": ["field", "name"], "c": r.choice(["eq", "ne"]),
                    "v": r.choice([self.value("str"), ["none"]])}
        if k < 0.75:
            which = r.choice(["prio", "name", "dur", "start"])
            if which == "prio":
                return {"k": "oneof", "p": ["field", "prio"],
                        "vs": [self.value("int") for _ in range(r.choice([0, 1, 2, 3]))]}
            if which == "name":
                return {"k": "oneof", "p": ["field", "name"],
                        "vs": [self.value("str") for _ in range(r.choice([0, 1, 2]))]}
            if which == "dur":
                return {"k": "oneof", "p": ["dur", 1], "vs": [self.value("int") for _ in range(r.choice([1, 2]))]}
            return {"k": "oneof", "p": ["start"], "vs": [self.value("int") for _ in range(r.choice([1, 2, 3]))]}
        return {"k": r.choice(["hasany", "hasall"]),
                "vs": r.sample([0, 1, 2, 3], r.choice([0, 1, 2]))}


# --------------------------------------------------------------------------------------------
# shrinking

def shrink_tree(t):
    """Yield strictly smaller variants of a tree."""
    op = t["op"]
    if op == "stored":
        evs = t["evs"]
        for i in range(len(evs)):
            yield {"op": "stored", "evs": evs[:i] + evs[i + 1:]}
        for i, (s, e, pid) in enumerate(evs):
            for (s2, e2) in ((s + 1 if s is not None else None, e), (s, e - 1 if e is not None else None),
                             (0 if s is None else s, e), (s, (s or 0) + 1 if e is None else e)):
                if (s2, e2) != (s, e) and (s2 is None or e2 is None or s2 < e2):
                    yield {"op": "stored", "evs": evs[:i] + [[s2, e2, pid]] + evs[i + 1:]}
        return
    for k in ("l", "r", "s"):
        if k in t:
            yield t[k]
    for k in ("l", "r", "s"):
        if k in t:
            for sub in shrink_tree(t[k]):
                t2 = copy.copy(t)
                t2[k] = sub
                yield t2
    if op == "flatten":
        yield {"op": "inv", "s": t["s"]}


def describe(t):
    op = t["op"]
    if op == "stored":
        return "T" + str([tuple(e) for e in t["evs"]])
    if op in ("or", "and", "sub"):
        return f"({describe(t['l'])} {dict(or_='|', and_='&', sub_='-')[op + '_']} {describe(t['r'])})"
    if op == "inv":
        return f"~{describe(t['s'])}"
    if op == "flatten":
        return f"flatten({describe(t['s'])})"
    if op == "filt":
        return f"({describe(t['s'])} & {t['f']})"
    if op == "buf":
        return f"buffer({describe(t['s'])},before={t['before']},after={t['after']})"
    if op == "mw":
        return f"merge_within({describe(t['s'])},gap={t['gap']})"
    return "?"


def enumerate_leaves(k, m, rich=True):
    """All multisets of <= k intervals with endpoints in {None,0..m} (as sorted tuples)."""
    spans = [(s, e) for s in [None] + list(range(0, m)) for e in list(range(1, m + 1)) + [None]
             if s is None or e is None or s < e]
    for n in range(0, k + 1):
        for combo in itertools.combinations_with_replacement(spans, n):
            yield list(combo)
