"""Deterministic thread scheduler for C11.

Real threads run the real CachedTimeline, but only one at a time: control changes hands only at
*scheduling points* — every traced line of calgebra/cache.py and calgebra/mutable/memory.py
(statement granularity inside the cache and its storage), every source fetch, and every attempt
to take the cache's lock (the instance's `_lock` is replaced by a cooperative lock, so a blocked
thread reports to the scheduler instead of hanging; an all-blocked state is a deadlock verdict).

A schedule is a list of preemptions [(tid, k), ...]: "when thread tid reaches its k-th scheduling
point, switch to the next runnable thread".  Without preemptions the running thread keeps the
processor until it finishes or blocks; then the lowest-numbered runnable thread runs.
"""
from __future__ import annotations

import sys
import threading


class Deadlock(Exception):
    pass


class Scheduler:
    def __init__(self, nthreads, preemptions, start_order, trace_files):
        self.n = nthreads
        self.preempt = {(t, k) for (t, k) in preemptions}
        self.order = list(start_order)
        self.trace_files = tuple(trace_files)
        self.events = [threading.Event() for _ in range(nthreads)]
        self.points = [0] * nthreads
        self.state = ["ready"] * nthreads          # ready | blocked | done
        self.current = None
        self.mutex = threading.Lock()
        self.error = None
        self.switches = 0
        self.acq_log = []                           # (tid, query index) in lock acquisition order
        self.main_event = threading.Event()

    # ---- choosing who runs
    def _next_runnable(self, after=None):
        cand = [t for t in self.order if self.state[t] == "ready"]
        if not cand:
            return None
        if after is not None and len(cand) > 1:
            # round robin from the thread after `after`
            idx = self.order.index(after)
            rot = self.order[idx + 1:] + self.order[:idx + 1]
            for t in rot:
                if self.state[t] == "ready":
                    return t
        return cand[0]

    def _hand_over(self, me, to):
        self.switches += 1
        self.current = to
        self.events[to].set()
        if me is not None and self.state[me] != "done":
            self.events[me].wait()
            self.events[me].clear()

    # ---- called from worker threads
    def point(self, me):
        """a scheduling point of the running thread"""
        self.points[me] += 1
        if (me, self.points[me]) in self.preempt:
            to = self._next_runnable(after=me)
            if to is not None and to != me:
                self._hand_over(me, to)

    def block(self, me):
        """the running thread cannot proceed (lock held by another thread)"""
        self.state[me] = "blocked"
        to = self._next_runnable()
        if to is None:
            self.error = Deadlock(f"all threads blocked: {self.state}")
            self.main_event.set()
            raise self.error
        self._hand_over(me, to)

    def unblock_all(self):
        for t in range(self.n):
            if self.state[t] == "blocked":
                self.state[t] = "ready"

    def finish(self, me):
        self.state[me] = "done"
        to = self._next_runnable()
        if to is None:
            if any(s == "blocked" for s in self.state):
                self.error = Deadlock(f"threads left blocked: {self.state}")
            self.main_event.set()
        else:
            self.switches += 1
            self.current = to
            self.events[to].set()

    # ---- tracing
    def make_tracer(self, me):
        files = self.trace_files
        sched = self

        def local(frame, event, arg):
            if event == "line":
                sched.point(me)
            return local

        def tracer(frame, event, arg):
            if event == "call" and frame.f_code.co_filename.endswith(files):
                return local
            return None
        return tracer


class CoopLock:
    """Replacement for threading.Lock inside the cache: mutual exclusion among the scheduled
    threads, reporting blocking to the scheduler."""

    def __init__(self, sched, tid_of):
        self.sched, self.tid_of = sched, tid_of
        self.holder = None

    def acquire(self, blocking=True, timeout=-1):
        me = self.tid_of()
        self.sched.point(me)
        while self.holder is not None:
            if self.holder == me:
                self.sched.error = Deadlock("re-entrant acquisition of the cache lock")
                raise self.sched.error
            self.sched.block(me)
        self.holder = me
        self.sched.acq_log.append(me)
        return True

    def release(self):
        self.holder = None
        self.sched.unblock_all()
        self.sched.point(self.tid_of())

    def __enter__(self):
        self.acquire()
        return self

    def __exit__(self, *a):
        self.release()
        return False

    def locked(self):
        return self.holder is not None


def run_threads(programs, preemptions, start_order, trace_files, setup_lock):
    """programs: list of callables(tid) -> result.  Returns dict(results, errors, acq, points,
    deadlock)."""
    n = len(programs)
    sched = Scheduler(n, preemptions, start_order, trace_files)
    tls = threading.local()
    setup_lock(sched, lambda: tls.tid)
    results = [None] * n
    errors = [None] * n

    def worker(tid):
        tls.tid = tid
        sched.events[tid].wait()
        sched.events[tid].clear()
        sys.settrace(sched.make_tracer(tid))
        try:
            results[tid] = programs[tid](tid, sched)
        except Deadlock as ex:
            errors[tid] = "Deadlock: " + str(ex)
        except BaseException as ex:  # noqa
            errors[tid] = type(ex).__name__ + ": " + str(ex)[:200]
        finally:
            sys.settrace(None)
            try:
                sched.finish(tid)
            except Deadlock:
                pass

    ths = [threading.Thread(target=worker, args=(t,), daemon=True) for t in range(n)]
    for t in ths:
        t.start()
    first = sched.order[0]
    sched.current = first
    sched.events[first].set()
    ok = sched.main_event.wait(timeout=10)
    deadlock = None
    if sched.error is not None:
        deadlock = str(sched.error)
    elif not ok:
        deadlock = "timeout: threads did not finish (lost wake-up or livelock)"
    if deadlock:
        # release everybody so the daemon threads can die
        for e in sched.events:
            e.set()
    for t in ths:
        t.join(timeout=2)
    return dict(results=results, errors=errors, acq=list(sched.acq_log), points=list(sched.points),
                deadlock=deadlock, switches=sched.switches)
