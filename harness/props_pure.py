"""C15: slicing is pure, repeatable and independent of how bounds are written."""
from __future__ import annotations

import copy
from datetime import datetime, timedelta, timezone
from zoneinfo import ZoneInfo

from . import exprs as X
from .common import cbool, civl, clist, coz, cz, ensure_repo_import, COQ, REPO
from .family import Check, Family
from .props_core import ALL_OPS, depth_for

ensure_repo_import()
from calgebra import Interval, hours, timeline  # noqa: E402

ZONES = ["UTC", "America/Los_Angeles", "Asia/Kathmandu", "Australia/Lord_Howe", "Europe/London"]
T0 = 1710000000    # events are placed around a real instant so that zones matter (2024-03-09, before a US DST change)


class IterFamily(Family):
    """Two iterators over one slice of one expression object consumed alternately, then a third
    evaluation: all three must be the slice."""
    name = "interleaved_iterators"
    header = "From CG Require Import Harness.PureChk.\n"
    case_type = "icase"
    corr = "corr_iter"
    oracle = "oracle_iter"
    n_quick, n_thorough = 1500, 20000
    rule = ("random expression trees over stored leaves; the same expression object is sliced three times; two of the "
            "iterators are advanced alternately following a random 0/1 schedule (all interleavings for short results "
            "in the thorough tier); non-trivial = the slice has at least two elements")

    def gen(self, rng, tier, n):
        g = X.Gen(rng)
        for k in range(n):
            g.next_id = 1
            mode = None if k % 2 == 0 else rng.choice(["disjoint", "touch"])
            t = g.tree(depth_for(rng, tier), ALL_OPS, mode)
            a, b = g.window()
            rev = rng.random() < 0.3 and b is not None
            sched = [rng.random() < 0.5 for _ in range(40)]
            case = dict(tree=t, q=[(a, b, rev)], sched=sched)
            if rng.random() < 0.15:
                from .slicefam import with_context
                case = with_context(g, rng, case)      # ... after having been composed further and evaluated there
            yield case

    def run_impl(self, case):
        (a, b, rev), = case["q"]
        try:
            tl = X._focus(case["tree"], None, case.get("ctx"), case.get("warm"))
            sm = X.srcmap_of(case["tree"])
            sl = slice(a, b, -1 if rev else None)
            itA, itB = iter(tl[sl]), iter(tl[sl])
            A, B = [], []
            doneA = doneB = False
            sched = list(case["sched"])
            i = 0
            while not (doneA and doneB):
                pickA = sched[i % len(sched)] if sched else True
                i += 1
                if (pickA and not doneA) or doneB:
                    try:
                        A.append(X.obs_event(next(itA), sm))
                    except StopIteration:
                        doneA = True
                else:
                    try:
                        B.append(X.obs_event(next(itB), sm))
                    except StopIteration:
                        doneB = True
            C = [X.obs_event(r, sm) for r in tl[sl]]
            return [A, B, C]
        except (ValueError, TypeError) as ex:
            return {"err": type(ex).__name__}

    def coq_case(self, case, obs):
        (a, b, rev), = case["q"]
        t = case["tree"]
        return (f"(mkIC {X.coq_env(t)} {X.coq_expr(t)} {coz(a)} {coz(b)} {cbool(rev)} "
                f"{X.coq_out(obs[0])} {X.coq_out(obs[1])} {X.coq_out(obs[2])})")

    def shrink_candidates(self, case):
        if case.get("ctx") is not None:
            yield {k: v for k, v in case.items() if k not in ("ctx", "warm")}
            return
        for t2 in X.shrink_tree(case["tree"]):
            yield dict(case, tree=t2)

    def describe(self, case):
        if case.get("ctx") is not None:
            return (f"{X.describe(case['tree'])} slice={case['q'][0]} [after evaluating, with shared objects, "
                    f"{X.describe(case['ctx'])} over {case['warm']}]")
        return f"{X.describe(case['tree'])} slice={case['q'][0]} schedule={''.join('A' if s else 'B' for s in case['sched'][:12])}..."

    def nontrivial(self, case, obs):
        return len(obs[2]) >= 2


def mk_bound(kind, t):
    """the Python object for one spelling of instant t"""
    if kind[0] == "none":
        return None
    if kind[0] == "int":
        return t
    if kind[0] == "aware":
        return datetime.fromtimestamp(t, tz=ZoneInfo(kind[1]))
    if kind[0] == "frac":
        # an aware datetime with a sub-second part: it is cut to its whole second, whichever bound it is
        return datetime.fromtimestamp(t, tz=ZoneInfo(kind[1])) + timedelta(microseconds=kind[2])
    if kind[0] == "fixed":
        return datetime.fromtimestamp(t, tz=timezone(timedelta(minutes=kind[1])))
    if kind[0] == "naive":
        return datetime.utcfromtimestamp(t)
    if kind[0] == "float":
        return float(t)
    if kind[0] == "str":
        return str(t)
    if kind[0] == "date":
        return datetime.utcfromtimestamp(t).date()
    raise ValueError(kind)


def coq_bound(kind, t):
    if kind[0] == "none":
        return "BNone"
    if kind[0] == "int":
        return f"(BInt {cz(t)})"
    if kind[0] in ("aware", "fixed", "frac"):
        zid = ZONES.index(kind[1]) if kind[0] in ("aware", "frac") else 100
        return f"(BAware {cz(t)} {zid}%N)"
    if kind[0] == "naive":
        return "BNaive"
    return "BOther"


class SpellFamily(Family):
    name = "bound_spellings"
    header = "From CG Require Import Harness.PureChk.\n"
    case_type = "gcase"
    corr = "corr_getitem"
    oracle = "oracle_getitem"
    n_quick, n_thorough = 1500, 15000
    rule = ("one expression, one window, the bounds written as ints, as aware datetimes of 5 IANA zones and fixed "
            "offsets, as naive datetimes, floats, strings, dates; steps None, 1, -1, 0, 2, -2, 'x'; "
            "non-trivial = the reference slice is non-empty or the spelling must be rejected")

    def gen(self, rng, tier, n):
        g = X.Gen(rng)
        for _ in range(n):
            g.next_id = 1
            t = g.tree(rng.choice([0, 1, 2]), ["or", "and", "sub", "inv"], rng.choice([None, "disjoint"]))
            # move the events to real timestamps, hour granularity
            t = retime(t)
            a = T0 + 3600 * rng.randrange(-2, 6)
            b = a + 3600 * rng.randrange(1, 8)
            good = [["int"], ["aware", rng.choice(ZONES)], ["aware", rng.choice(ZONES)], ["fixed", rng.choice([-570, 0, 345, 765])],
                    ["frac", rng.choice(ZONES), rng.choice([1, 250000, 500000, 999999])]]
            bad = [["naive"], ["float"], ["str"], ["date"]]
            ka = rng.choice(good + good + bad + [["none"]])
            kb = rng.choice(good + good + bad + [["none"]])
            step = rng.choice([None, None, 1, -1, -1, 0, 2, -2, "x"])
            if rng.random() < 0.25:
                a, b, ka, kb = b, a, kb, ka             # the two bounds written in descending order
            yield dict(tree=t, a=a, b=b, ka=ka, kb=kb, step=step)

    def run_impl(self, case):
        tl = X.build(case["tree"])
        sm = X.srcmap_of(case["tree"])
        a = None if case["ka"][0] == "none" else case["a"]
        b = None if case["kb"][0] == "none" else case["b"]
        step = case["step"]
        ref_step = step if step in (None, 1, -1) else None
        try:
            ref = [X.obs_event(r, sm) for r in tl[a:b:ref_step]]
        except Exception as ex:
            return {"err": "reference slice raised " + type(ex).__name__}
        try:
            res = [X.obs_event(r, sm) for r in tl[mk_bound(case["ka"], case["a"]):mk_bound(case["kb"], case["b"]):step]]
            return dict(ok=res, ref=ref)
        except TypeError:
            return dict(err_kind="TypeError", ref=ref)
        except ValueError:
            return dict(err_kind="ValueError", ref=ref)

    def coq_case(self, case, obs):
        t = case["tree"]
        st = case["step"]
        s = "SNone" if st is None else (f"(SInt {cz(st)})" if isinstance(st, int) else "SOther")
        o = f"(GOk {X.coq_out(obs['ok'])})" if "ok" in obs else f"(GErr {obs['err_kind']})"
        return (f"(mkGC {X.coq_env(t)} {X.coq_expr(t)} {coq_bound(case['ka'], case['a'])} {coq_bound(case['kb'], case['b'])} "
                f"{s} {o} {X.coq_out(obs['ref'])})")

    def describe(self, case):
        return (f"{X.describe(case['tree'])} start={case['ka']}@{case['a']} end={case['kb']}@{case['b']} step={case['step']!r}")

    def shrink_candidates(self, case):
        for t2 in X.shrink_tree(case["tree"]):
            yield dict(case, tree=t2)

    def nontrivial(self, case, obs):
        return bool(obs.get("ref")) or "err_kind" in obs


def retime(t):
    t = copy.deepcopy(t)
    for lf in X.leaves_of(t):
        lf["evs"] = [[None if s is None else T0 + 3600 * s, None if e is None else T0 + 3600 * e, pid] for (s, e, pid) in lf["evs"]]
    return t


class KindFamily(Family):
    name = "operator_typing"
    header = "From CG Require Import Harness.PureChk.\n"
    case_type = "kcase2"
    corr = "corr_kind"
    oracle = "oracle_kind"
    n_quick = n_thorough = 1
    rule = ("exhaustive: {|,&} x operand shapes^2; timelines: stored, union, intersection, complement, filtered, "
            "buffered; filters: comparison, one_of, Or / And of filters built left- and right-nested")

    SHAPES = ["t", "t_or", "t_and", "t_inv", "t_filt", "t_buf",
              "f", "f_oneof", "f_or", "f_and", "f_or_l", "f_or_r", "f_and_or"]

    def gen(self, rng, tier, n):
        for op in ("or", "and"):
            for l in self.SHAPES:
                for r in self.SHAPES:
                    yield dict(op=op, l=l, r=r)

    def run_impl(self, case):
        from calgebra import buffer, one_of, field
        from calgebra.core import Filter, Timeline
        from calgebra.properties import end as p_end, start as p_start
        tl0 = lambda: timeline(Interval(start=0, end=10))          # noqa: E731
        f0 = lambda: hours >= 1                                     # noqa: E731
        f1 = lambda: p_start >= 0                                   # noqa: E731
        f2 = lambda: p_end <= 5                                     # noqa: E731
        mk = {"t": tl0, "t_or": lambda: tl0() | tl0(), "t_and": lambda: tl0() & tl0(), "t_inv": lambda: ~tl0(),
              "t_filt": lambda: tl0() & f0(), "t_buf": lambda: buffer(tl0(), before=1),
              "f": f0, "f_oneof": lambda: one_of(field("x"), [1, 2]),
              "f_or": lambda: f1() | f2(), "f_and": lambda: f1() & f2(),
              "f_or_l": lambda: (f1() | f2()) | f0(), "f_or_r": lambda: f0() | (f1() | f2()),
              "f_and_or": lambda: (f1() & f2()) | f0()}
        from calgebra import intersection, union
        kind = lambda x: "timeline" if isinstance(x, Timeline) else "filter" if isinstance(x, Filter) else "other"  # noqa: E731

        def attempt(f):
            try:
                return kind(f())
            except TypeError:
                return "TypeError"
        l, r = mk[case["l"]](), mk[case["r"]]()
        out = attempt(lambda: (l | r) if case["op"] == "or" else (l & r))
        # the documented helpers union(a, b) / intersection(a, b) are "equivalent to chaining | / &": the same
        # operands must meet the same fate through them (also as the last of three operands)
        helper = union if case["op"] == "or" else intersection
        l2, r2 = mk[case["l"]](), mk[case["r"]]()
        via = attempt(lambda: helper(l2, r2))
        if via != out:
            return {"err": f"{case['l']} {case['op']} {case['r']}: the operator gives {out}, the helper {helper.__name__}(a, b) gives {via}"}
        if case["l"].startswith("t"):
            l3, r3 = mk[case["l"]](), mk[case["r"]]()
            via3 = attempt(lambda: helper(tl0(), l3, r3))
            want3 = attempt(lambda: ((tl0() | mk[case["l"]]()) | mk[case["r"]]()) if case["op"] == "or"
                            else ((tl0() & mk[case["l"]]()) & mk[case["r"]]()))
            if via3 != want3:
                return {"err": f"{helper.__name__}(t, {case['l']}, {case['r']}) gives {via3}, chaining the operator gives {want3}"}
        return [out]

    def coq_case(self, case, obs):
        k = {sh: ("KTimeline" if sh.startswith("t") else "KFilter") for sh in self.SHAPES}
        o = {"TypeError": "None", "timeline": "(Some KTimeline)", "filter": "(Some KFilter)"}.get(obs[0], "(Some KFilter)")
        return f"(mkKC {cbool(case['op'] == 'or')} {k[case['l']]} {k[case['r']]} {o})"

    def describe(self, case):
        return f"{case['l']} {case['op']} {case['r']}"


def regen_purity_facts():
    from .translate.purityfacts import regenerate
    fs, err = regenerate(REPO, COQ)
    if err:
        return {"error": err}
    return {"read_path_methods": len(fs), "with_stores": [f"{f['cls']}.{f['method']}" for f in fs if f["stores"] or f["mutating"] or f["globals"]]}


ASSUME_PURE = ["int(dt.timestamp()) goes through a float: exact for whole-second datetimes below 2^53 s",
               "the cache is the stated exception to purity (C09/C11)",
               "purity is established structurally from the source (tie B) and exercised dynamically; a store hidden behind "
               "setattr/exec makes the extractor fail closed"]

CHECKS = {"C15": Check("C15", [IterFamily("C15"), SpellFamily("C15"), KindFamily("C15")], ASSUME_PURE,
                       pre_build=regen_purity_facts)}
