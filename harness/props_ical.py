"""C19: iCalendar and RRULE serialisation preserve the occurrence set.

Parts (each a Family):
  text    RecurringPattern.to_rrule_string() against Model/Ical.v rrule_text (corr); the emitted text
          parsed back gives the parameters, and dateutil.rrule.rrulestr(text, dtstart=anchor or the
          phase base) starts an occurrence exactly where pattern.fetch does (oracle)
  files   MemoryTimeline -> timeline_to_file (a real .ics under /tmp) -> file_to_timeline: the stored
          item, the VEVENT found in the file and the reloaded item against readd / to_vevent /
          load_vevent (corr); reloaded item denotes the same thing and the slices are identical (oracle)
  load    file_to_timeline on VEVENT texts (generated, and written by timeline_to_file) against a
          reference RFC 5545 expansion (rrulestr on the same text + DTEND-DTSTART / DURATION) and
          Spec/IcalSpec.v rfc_occurrences (oracle); load_vevent + fetch_forward (corr)
The text layer (icalendar) and dateutil are exercised for real on every case.
"""
from __future__ import annotations

import calendar
import contextlib
from dataclasses import dataclass
import copy
import io
import json
import os
import re
import shutil
import subprocess
import time
from datetime import date, datetime, timedelta, timezone
from pathlib import Path
from zoneinfo import ZoneInfo

from . import props_recur as PR
from .common import BUILD, COQ, cbool, clist, cz, ensure_repo_import, run_coqc
from .family import Check, Family

ensure_repo_import()
import icalendar  # noqa: E402
from calgebra import ical as IC  # noqa: E402
from calgebra.ical import ICalEvent, file_to_timeline, timeline_to_file  # noqa: E402
from calgebra.interval import Interval  # noqa: E402
from calgebra.mutable.memory import MemoryTimeline  # noqa: E402
from calgebra.recurrence import RecurringPattern  # noqa: E402
from dateutil.rrule import rrulestr  # noqa: E402

DAY = 86400
H = 3600
CODES = PR.CODES
FULL = ["monday", "tuesday", "wednesday", "thursday", "friday", "saturday", "sunday"]
ZONES = PR.ZONES
FREQ_TXT = {"daily": "DAILY", "weekly": "WEEKLY", "monthly": "MONTHLY", "yearly": "YEARLY"}
TXT_FREQ = {v: k for k, v in FREQ_TXT.items()}
PERIOD_S = PR.PERIOD_S
HI_TS = PR.dn(date(2057, 1, 1)) * DAY          # the zone tables end in 2062
TMP = Path(f"/tmp/verif_ical_{os.getpid()}")

# sub-domains of the recorded findings (KF-*-C19); generated unless switched off
EXOTIC = os.environ.get("VERIF_ICAL_EXOTIC", "1") == "1"

# floating times are read in the process's zone: the model reads them in UTC
if time.timezone != 0 or time.daylight:
    os.environ["TZ"] = "UTC"
    time.tzset()


# --------------------------------------------------------------------------------------------
# Coq side: zones + header (built lazily: the development must have been made first)

_BUILT = set()


def ical_header(prop: str) -> str:
    d = BUILD / prop
    if prop not in _BUILT:
        d.mkdir(parents=True, exist_ok=True)
        src = ["From CG Require Export Harness.IcalChk."]
        for z in ZONES:
            src.append(f"Definition {PR.zname(z)} : zone := {PR.zone_term(z)}.")
        f = d / "IcalZones.v"
        f.write_text("\n".join(src) + "\n")
        subprocess.run(["flock", str(COQ / ".lock"), "true"])      # wait for a running make
        rc, out, err = run_coqc(f)
        if rc != 0:
            raise RuntimeError(f"coqc failed on {f}: {err[-2000:]}")
        sub = d / f"p{os.getpid()}"
        sub.mkdir(parents=True, exist_ok=True)
        shutil.copy(f.with_suffix(".vo"), sub / "IcalZones.vo")
        _BUILT.add(prop)
    return "Require Import IcalZones.\n"


class IcalFamily(Family):
    shard = 60

    def evaluate(self, cases, tag="cases"):
        self.header = ical_header(self.prop)
        return super().evaluate(cases, tag)


def zl(l):
    return clist([cz(x) for x in l])


def coq_days(days):
    return clist([f"({wd}, " + ("None" if n is None else f"Some {cz(n)}") + ")" for wd, n in days])


def coq_oz(x):
    return "None" if x is None else f"(Some {cz(x)})"


def coq_zone(name):
    """name: an IANA key of ZONES, or ['fixed', seconds]"""
    if isinstance(name, (list, tuple)):
        return f"(mkZone {cz(name[1])} [])"
    return PR.zname(name)


class Ids:
    """texts -> numbers, 0 = the empty string"""

    def __init__(self):
        self.m = {"": 0}

    def __call__(self, s):
        if s is None:
            return "None"
        if s not in self.m:
            self.m[s] = len(self.m)
        return f"(Some {self.m[s]}%N)"


def coq_meta(meta, ids):
    return (f"(mkMeta {ids(meta['summary'])} {ids(meta['description'])} {ids(meta['uid'])} "
            f"{ids(meta['location'])} {cbool(bool(meta['allday']))})")


NO_META = dict(summary=None, description=None, uid=None, location=None, allday=False)
NO_EXTRAS = dict(weekno=[], yearday=[], hour=[], minute=[], second=[], wkst=None)


def coq_xrule(p):
    """p: pattern parameters dict (freq, interval, days, dom, months, setpos, extras, exdates, anchor,
    sod, dur, zone)"""
    x = p.get("extras") or NO_EXTRAS
    rule = (f"(mkRule {PR.COQ_FREQ[p['freq']]} {cz(p['interval'])} {coq_days(p['days'])} {zl(p['dom'])} "
            f"{zl(p['months'])} {zl(p['setpos'])} {zl(p['exdates'])} {coq_oz(p['anchor'])} {cz(p['sod'])} "
            f"{cz(p['dur'])} {coq_zone(p['zone'])})")
    return (f"(mkX {rule} {zl(x['weekno'])} {zl(x['yearday'])} {zl(x['hour'])} {zl(x['minute'])} "
            f"{zl(x['second'])} {coq_oz(x['wkst'])})")


def coq_item(it, ids):
    if it is None:
        return "None"
    if it["kind"] == "static":
        return f"(Some (Static {coq_oz(it['s'])} {coq_oz(it['e'])} {coq_meta(it['meta'], ids)}))"
    return f"(Some (Pattern {coq_xrule(it)} {coq_meta(it['meta'], ids)}))"


def coq_dtval(v):
    k = v[0]
    if k == "date":
        return f"(DDate {cz(v[1])})"
    if k == "utc":
        return f"(DUtc {cz(v[1])})"
    if k == "tz":
        return f"(DTz {coq_zone(v[1])} {cz(v[2])})"
    return f"(DFloat {cz(v[1])})"


def coq_vrecur(r):
    f = "None" if r.get("freq") is None else f"(Some {PR.COQ_FREQ[r['freq']]})"
    return (f"(mkVR {f} {coq_oz(r.get('interval'))} {coq_days(r['days'])} {zl(r['months'])} {zl(r['dom'])} "
            f"{zl(r['weekno'])} {zl(r['yearday'])} {zl(r['setpos'])} {zl(r['hour'])} {zl(r['minute'])} "
            f"{zl(r['second'])} {coq_oz(r['wkst'])})")


def coq_vevent(v, ids):
    if v is None:
        return "None"
    e = v["end"]
    end = "ENone" if e is None else (f"(EDtend {coq_dtval(e[1])})" if e[0] == "dtend" else f"(EDuration {cz(e[1])})")
    rr = "None" if v["rrule"] is None else f"(Some {coq_vrecur(v['rrule'])})"
    return (f"(Some (mkVE {coq_dtval(v['dtstart'])} {end} {rr} {clist([coq_dtval(x) for x in v['exdates']])} "
            f"{ids(v['summary'])} {ids(v['description'])} {ids(v['uid'])} {ids(v['location'])}))")


def coq_ev(e, ids):
    s, en, ad, su, uid, loc = e
    return f"(mkEv {coq_oz(s)} {coq_oz(en)} {cbool(ad)} {ids(su)} {ids(uid)} {ids(loc)})"


# --------------------------------------------------------------------------------------------
# the text layer, by hand: content lines of a VEVENT <-> abstract values

def wall_to_naive(w):
    return datetime(1970, 1, 1) + timedelta(seconds=w)


def naive_to_wall(d):
    return calendar.timegm(d.timetuple())


def fmt_dtval(v):
    """-> (parameters, value)"""
    if v[0] == "date":
        return ";VALUE=DATE", PR.dt(v[1]).strftime("%Y%m%d")
    if v[0] == "utc":
        return "", wall_to_naive(v[1]).strftime("%Y%m%dT%H%M%SZ")
    if v[0] == "tz":
        return f";TZID={v[1]}", wall_to_naive(v[2]).strftime("%Y%m%dT%H%M%S")
    return "", wall_to_naive(v[1]).strftime("%Y%m%dT%H%M%S")


def parse_dtval(params, value):
    if "VALUE=DATE" in params:
        return ["date", PR.dn(datetime.strptime(value, "%Y%m%d").date())]
    m = re.search(r'TZID=("[^"]*"|[^;:]+)', params)
    if value.endswith("Z"):
        return ["utc", naive_to_wall(datetime.strptime(value, "%Y%m%dT%H%M%SZ"))]
    w = naive_to_wall(datetime.strptime(value, "%Y%m%dT%H%M%S"))
    if m:
        name = m.group(1).strip('"')
        fx = re.fullmatch(r"UTC([+-])(\d\d):(\d\d)(?::(\d\d))?", name)
        if fx:      # how a fixed-offset tzinfo prints: not a zone any reader knows
            off = int(fx.group(2)) * 3600 + int(fx.group(3)) * 60 + int(fx.group(4) or 0)
            return ["tz", ["fixed", -off if fx.group(1) == "-" else off], w]
        return ["tz", name, w]
    return ["float", w]


def fmt_duration(secs):
    sign = "-" if secs < 0 else ""
    secs = abs(secs)
    d, r = divmod(secs, DAY)
    h, r = divmod(r, 3600)
    mi, s = divmod(r, 60)
    out = sign + "P" + (f"{d}D" if d else "")
    if h or mi or s or not d:
        out += "T" + (f"{h}H" if h else "") + (f"{mi}M" if mi else "") + (f"{s}S" if s or not (h or mi) else "")
    return out


def parse_duration(txt):
    m = re.fullmatch(r"([+-])?P(?:(\d+)W)?(?:(\d+)D)?(?:T(?:(\d+)H)?(?:(\d+)M)?(?:(\d+)S)?)?", txt)
    if not m:
        raise ValueError(f"duration {txt!r}")
    sg, w, d, h, mi, s = m.groups()
    v = (int(w or 0) * 7 + int(d or 0)) * DAY + int(h or 0) * 3600 + int(mi or 0) * 60 + int(s or 0)
    return -v if sg == "-" else v


RR_KEYS = [("BYDAY", "days"), ("BYMONTH", "months"), ("BYMONTHDAY", "dom"), ("BYWEEKNO", "weekno"),
           ("BYYEARDAY", "yearday"), ("BYSETPOS", "setpos"), ("BYHOUR", "hour"), ("BYMINUTE", "minute"),
           ("BYSECOND", "second")]


def parse_day(tok):
    m = re.fullmatch(r"([+-]?\d+)?(MO|TU|WE|TH|FR|SA|SU)", tok)
    if not m:
        raise ValueError(f"day {tok!r}")
    return [CODES.index(m.group(2)), int(m.group(1)) if m.group(1) else None]


def parse_rrule_text(txt):
    """RRULE value -> vrecur dict (what the text says, key by key)"""
    r = dict(freq=None, interval=None, days=[], months=[], dom=[], weekno=[], yearday=[], setpos=[], hour=[],
             minute=[], second=[], wkst=None)
    names = dict(RR_KEYS)
    for part in txt.split(";"):
        k, _, v = part.partition("=")
        if k == "FREQ":
            r["freq"] = TXT_FREQ[v]
        elif k == "INTERVAL":
            r["interval"] = int(v)
        elif k == "BYDAY":
            r["days"] = [parse_day(t) for t in v.split(",")]
        elif k == "WKST":
            r["wkst"] = CODES.index(v)
        elif k in names:
            r[names[k]] = [int(t) for t in v.split(",")]
        else:
            raise ValueError(f"RRULE key {k!r}")
    return r


def tokenize_rrule(txt):
    """RRULE value -> Coq token list (Model/Ical.v)"""
    keys = {"FREQ": "KFreq", "INTERVAL": "KInterval", "BYDAY": "KByDay", "BYMONTH": "KByMonth",
            "BYMONTHDAY": "KByMonthDay", "BYWEEKNO": "KByWeekNo", "BYYEARDAY": "KByYearDay",
            "BYSETPOS": "KBySetPos", "BYHOUR": "KByHour", "BYMINUTE": "KByMinute", "BYSECOND": "KBySecond",
            "WKST": "KWkst"}
    out = []
    for i, part in enumerate(txt.split(";")):
        if i:
            out.append("TSemi")
        k, _, v = part.partition("=")
        out.append(f"(TKey {keys[k]})")
        for j, t in enumerate(v.split(",")):
            if j:
                out.append("TComma")
            if k == "FREQ":
                out.append(f"(TFreqV {PR.COQ_FREQ[TXT_FREQ[t]]})")
            elif k in ("BYDAY", "WKST"):
                wd, n = parse_day(t)
                out.append(f"(TDay {wd} {coq_oz(n)})")
            else:
                out.append(f"(TInt {cz(int(t))})")
    return out


def fmt_rrule(r, order=None):
    parts = []
    if r.get("freq") is not None:
        parts.append("FREQ=" + FREQ_TXT[r["freq"]])
    if r.get("interval") is not None:
        parts.append(f"INTERVAL={r['interval']}")
    if r["days"]:
        parts.append("BYDAY=" + ",".join((str(n) if n is not None else "") + CODES[wd] for wd, n in r["days"]))
    for k, f in RR_KEYS[1:]:
        if r[f]:
            parts.append(f"{k}=" + ",".join(str(x) for x in r[f]))
    if r["wkst"] is not None:
        parts.append("WKST=" + CODES[r["wkst"]])
    if order is not None:
        parts = [parts[0]] + [parts[1:][i] for i in order if i < len(parts) - 1] if len(parts) > 1 else parts
    return ";".join(parts)


def esc_text(s):
    return s.replace("\\", "\\\\").replace(";", "\\;").replace(",", "\\,").replace("\n", "\\n")


def unesc_text(s):
    out = []
    i = 0
    while i < len(s):
        c = s[i]
        if c == "\\" and i + 1 < len(s):
            n = s[i + 1]
            out.append("\n" if n in "nN" else n)
            i += 2
        else:
            out.append(c)
            i += 1
    return "".join(out)


def fold(line):
    """RFC 5545 folding at 75 octets (on character boundaries)"""
    out = []
    cur = ""
    for ch in line:
        if len((cur + ch).encode()) > 75:
            out.append(cur)
            cur = " " + ch
        else:
            cur += ch
    out.append(cur)
    return "\r\n".join(out)


def render_vevent(v, order=None):
    lines = ["BEGIN:VEVENT"]
    p, val = fmt_dtval(v["dtstart"])
    lines.append(f"DTSTART{p}:{val}")
    e = v["end"]
    if e is not None:
        if e[0] == "dtend":
            p, val = fmt_dtval(e[1])
            lines.append(f"DTEND{p}:{val}")
        else:
            lines.append("DURATION:" + fmt_duration(e[1]))
    if v["rrule"] is not None:
        lines.append("RRULE:" + fmt_rrule(v["rrule"], order))
    ex = v["exdates"]
    if ex:
        if v.get("exdate_joined") and len(ex) > 1:
            p, _ = fmt_dtval(ex[0])
            lines.append(f"EXDATE{p}:" + ",".join(fmt_dtval(x)[1] for x in ex))
        else:
            for x in ex:
                p, val = fmt_dtval(x)
                lines.append(f"EXDATE{p}:{val}")
    for k in ("summary", "description", "uid", "location"):
        if v.get(k) is not None:
            lines.append(f"{k.upper()}:{esc_text(v[k])}")
    lines.append("END:VEVENT")
    return lines


def render_calendar(vevents):
    lines = ["BEGIN:VCALENDAR", "VERSION:2.0", "PRODID:-//verif//C19//"]
    for v in vevents:
        lines += v
    lines.append("END:VCALENDAR")
    return ("\r\n".join(fold(l) for l in lines) + "\r\n").encode()


LINE = re.compile(r'^([A-Za-z0-9-]+)((?:;[^=;:]+=(?:"[^"]*"|[^;:]*))*):(.*)$', re.S)


def parse_calendar(data: bytes):
    """the VEVENTs of an .ics file as abstract values (own unfolding / splitting / unescaping)"""
    txt = data.decode().replace("\r\n ", "").replace("\r\n\t", "").replace("\n ", "")
    out = []
    cur = None
    for raw in txt.replace("\r\n", "\n").split("\n"):
        if raw == "BEGIN:VEVENT":
            cur = dict(dtstart=None, end=None, rrule=None, rrule_text=None, exdates=[], summary=None,
                       description=None, uid=None, location=None)
            continue
        if raw == "END:VEVENT":
            out.append(cur)
            cur = None
            continue
        if cur is None or not raw:
            continue
        m = LINE.match(raw)
        if not m:
            raise ValueError(f"content line {raw!r}")
        name, params, value = m.group(1).upper(), m.group(2), m.group(3)
        if name == "DTSTART":
            cur["dtstart"] = parse_dtval(params, value)
        elif name == "DTEND":
            cur["end"] = ["dtend", parse_dtval(params, value)]
        elif name == "DURATION":
            cur["end"] = ["duration", parse_duration(value)]
        elif name == "RRULE":
            cur["rrule"] = parse_rrule_text(value)
            cur["rrule_text"] = value
        elif name == "EXDATE":
            cur["exdates"] += [parse_dtval(params, x) for x in value.split(",")]
        elif name in ("SUMMARY", "DESCRIPTION", "UID", "LOCATION"):
            cur[name.lower()] = unesc_text(value)
    return out


# --------------------------------------------------------------------------------------------
# patterns and events through the public API

def zone_obj(z):
    if isinstance(z, (list, tuple)):
        return timezone(timedelta(seconds=z[1]))
    return ZoneInfo(z)


@dataclass(frozen=True, kw_only=True)
class SeriesEvent(ICalEvent):
    """a user's event class whose occurrences name their series (so that one can be cancelled)"""
    recurring_event_id: str | None = None


def build_pattern(r, cls_override=None):
    """r: PR.gen_rule dict + extras / week_form / meta / cls / fixed"""
    x = r.get("extras") or NO_EXTRAS
    kw = {}
    days = r["days"]
    if days:
        if r.get("week_form") and len({n for _, n in days}) == 1 and days[0][1] is not None:
            kw["day"] = [FULL[wd] for wd, _ in days]
            kw["week"] = days[0][1]
        else:
            kw["day"] = PR.day_arg(r)
    tz = r["tz"]
    fixed = r.get("fixed")
    if r["anchor"] is not None:
        y, m, d, hh, mm, ss = r["anchor"]
        if fixed is not None:
            start = datetime(y, m, d, hh, mm, ss, tzinfo=timezone(timedelta(seconds=fixed)))
            tz = None
        elif r.get("as_int"):
            start = PR.anchor_ts(r)
        else:
            start = datetime(y, m, d, hh, mm, ss, tzinfo=ZoneInfo(tz))
    else:
        start = r["sod"]
    meta = {}
    md = r.get("meta") or NO_META
    cls = Interval if r.get("cls") == "plain" else ICalEvent
    if cls_override is not None:
        cls = cls_override
    if issubclass(cls, ICalEvent):
        for k in ("summary", "description", "uid", "location"):
            if md[k] is not None or r.get("pass_none"):
                meta[k] = md[k]
        if md["allday"] is not None and (md["allday"] or r.get("pass_none")):
            meta["is_all_day"] = md["allday"]
    for k, a in (("weekno", "byweekno"), ("yearday", "byyearday"), ("hour", "byhour"), ("minute", "byminute"),
                 ("second", "bysecond")):
        if x[k]:
            kw[a] = list(x[k])
    if x["wkst"] is not None:
        kw["wkst"] = CODES[x["wkst"]]
    return RecurringPattern(r["freq"], interval=r["interval"], day_of_month=r["dom"] or None,
                            month=r["months"] or None, start=start, duration=r["dur"], tz=tz,
                            interval_class=cls, exdates=r["exdates"] or None, bysetpos=r["setpos"] or None,
                            **kw, **meta)


def user_params(r):
    """the pattern the user constructed, as model parameters (asserted on the object by the caller)"""
    if r.get("fixed") is not None and r["anchor"] is not None:
        y, m, d, hh, mm, ss = r["anchor"]
        a = calendar.timegm((y, m, d, hh, mm, ss)) - r["fixed"]
        sod = hh * 3600 + mm * 60 + ss
        zone = ["fixed", r["fixed"]]
    else:
        a, sod = PR.eff_sod_anchor(r)
        zone = r["tz"]
    md = dict(r.get("meta") or NO_META)
    if r.get("cls") == "plain":
        md = dict(NO_META)
    return dict(kind="pattern", freq=r["freq"], interval=r["interval"], days=[list(e) for e in r["days"]],
                dom=list(r["dom"]), months=list(r["months"]), setpos=list(r["setpos"]),
                extras=dict(r.get("extras") or NO_EXTRAS), exdates=sorted(r["exdates"]), anchor=a, sod=sod,
                dur=r["dur"], zone=zone, meta=md)


def obs_pattern(p):
    """model parameters read off a RecurringPattern object"""
    kw = p.rrule_kwargs
    wk = kw.get("wkst")
    z = p.zone
    zs = str(z)
    if isinstance(z, timezone) and zs != "UTC":
        zone = ["fixed", int(z.utcoffset(None).total_seconds())]
    else:
        zone = zs
    md = p.metadata
    return dict(kind="pattern", freq=p.freq, interval=kw["interval"],
                days=[[w.weekday, w.n] for w in kw.get("byweekday", [])],
                dom=list(kw.get("bymonthday", [])), months=list(kw.get("bymonth", [])),
                setpos=list(kw.get("bysetpos", [])),
                extras=dict(weekno=list(kw.get("byweekno", [])), yearday=list(kw.get("byyearday", [])),
                            hour=list(kw.get("byhour", [])), minute=list(kw.get("byminute", [])),
                            second=list(kw.get("bysecond", [])),
                            wkst=None if wk is None else (wk if isinstance(wk, int) else wk.weekday)),
                exdates=sorted(p.exdates), anchor=p.anchor_timestamp, sod=p.start_seconds,
                dur=p.duration_seconds, zone=zone,
                meta=dict(summary=md.get("summary"), description=md.get("description"), uid=md.get("uid"),
                          location=md.get("location"), allday=bool(md.get("is_all_day"))))


def obs_static(iv):
    g = lambda k: getattr(iv, k, None)
    return dict(kind="static", s=iv.start, e=iv.end,
                meta=dict(summary=g("summary"), description=g("description"), uid=g("uid"),
                          location=g("location"), allday=bool(g("is_all_day"))))


def build_static(it):
    md = it["meta"]
    if it.get("cls") == "plain":
        return Interval(start=it["s"], end=it["e"])
    kw = {k: md[k] for k in ("summary", "description", "uid", "location") if md[k] is not None}
    return ICalEvent(start=it["s"], end=it["e"], is_all_day=bool(md["allday"]), **kw)


def user_static(it):
    md = dict(it["meta"]) if it.get("cls") != "plain" else dict(NO_META)
    return dict(kind="static", s=it["s"], e=it["e"], meta=md)


def static_key(iv):
    """what the VEVENT of a stored static event must show (used only to tell which VEVENT is whose)"""
    ad = bool(getattr(iv, "is_all_day", False))
    dv = (lambda t: ["date", t // DAY]) if ad else (lambda t: ["utc", t])
    return [dv(iv.start), None if iv.end is None else ["dtend", dv(iv.end)]] + \
        [getattr(iv, k, None) for k in ("summary", "description", "uid", "location")]


def vevent_key(ve):
    return [ve["dtstart"], ve["end"]] + [ve[k] for k in ("summary", "description", "uid", "location")]


def evs(it):
    g = lambda i, k: getattr(i, k, None)
    return [[i.start, i.end, bool(g(i, "is_all_day")), g(i, "summary"), g(i, "uid"), g(i, "location")] for i in it]


# --------------------------------------------------------------------------------------------
# generators shared by the parts

TEXTS = ["Standup", "Review, planning; retro", "line1\nline2", "back\\slash", "Zoë's café — déjà vu",
         "x" * 90, "Room 4; floor 2, building \"B\"", "a:b=c", " lead and trail ", "日本語のタイトル" * 6, "1"]


P_EMPTY = 0.04


def gen_meta(rng, allday=False):
    def t(p_none, p_empty=None):
        p_empty = P_EMPTY if p_empty is None else p_empty
        k = rng.random()
        if k < p_none:
            return None
        if k < p_none + p_empty:
            return ""
        return rng.choice(TEXTS) + (str(rng.randrange(100)) if rng.random() < 0.5 else "")
    return dict(summary=t(0.2), description=t(0.6), uid=t(0.35), location=t(0.5), allday=allday)


def gen_extras(rng, freq):
    x = dict(NO_EXTRAS)
    k = rng.random()
    if k < 0.35:
        x["wkst"] = rng.randrange(7)
    if k > 0.25:
        f = rng.choice(["weekno", "yearday", "hour", "minute", "second"])
        dom = {"weekno": [1, 20, 53, -1], "yearday": [1, 100, 366, -1], "hour": [0, 9, 23], "minute": [0, 30, 59],
               "second": [0, 59]}[f]
        x[f] = rng.sample(dom, rng.choice([1, 2]))
    return x


def base_date(freq):
    return date(1969, 12, 29) if freq == "weekly" else date(1970, 1, 1)


def pattern_dtstart(r):
    """the DTSTART an independent reader is given: the anchor, else the time of day on the date the
    pattern is phase-aligned to (Monday 1969-12-29 for weekly patterns, else 1970-01-01), in its zone"""
    tz = ZoneInfo(r["tz"])
    if r["anchor"] is not None:
        # the anchor's local date at the pattern's wall-clock time (they differ from
        # fromtimestamp(anchor) only for an anchor given inside a DST gap)
        a, sod = PR.eff_sod_anchor(r)
        return datetime.fromtimestamp(a, tz).replace(hour=sod // 3600, minute=sod % 3600 // 60, second=sod % 60, fold=0)
    b = base_date(r["freq"])
    return datetime(b.year, b.month, b.day, tzinfo=tz) + timedelta(seconds=r["sod"])


def rr_starts(rr, a, b):
    out = []
    for d in rr:
        ts = int(d.timestamp())
        if ts > b + 2 * DAY or d.year > 2061:
            break
        if a <= ts <= b:
            out.append(ts)
    return sorted(out)


def windows_after(rng, r, first_ts, k=2):
    per = PERIOD_S[r["freq"]] * r["interval"]
    if r["freq"] == "weekly" and r.get("setpos"):
        # dateutil numbers the set positions of the week holding DTSTART among the days from DTSTART
        # on (the week is truncated) unless DTSTART is a Monday; the comparison starts after it
        first_ts += 8 * DAY
    out = []
    for _ in range(k):
        n = rng.choice([0, 0, 1, 3, rng.randrange(0, 60), rng.randrange(0, 400)])
        a = first_ts + n * per + rng.choice([0, 0, -1, 1, 3600, -3600, rng.randrange(DAY)])
        a = max(a, first_ts) if rng.random() < 0.8 else a
        a = max(first_ts, a)
        if a > HI_TS:
            a = first_ts + rng.randrange(0, 5) * per
        if a > HI_TS:
            continue
        ln = rng.choice([1, 3600, DAY, 3 * DAY, per, 2 * per + 5, rng.randrange(1, 4 * per)])
        out.append([a, min(a + ln, HI_TS + 400 * DAY)])
    return out


def first_window_base(r):
    """an instant from which windows are drawn: the anchor, or 1990-2035 for time-of-day patterns"""
    if r["anchor"] is not None:
        return PR.anchor_ts(r)
    return None


def gen_pattern(rng, exotic=False):
    r = PR.gen_rule(rng)
    r["exdates"] = []
    r["extras"] = dict(NO_EXTRAS)
    r["week_form"] = rng.random() < 0.3
    # keep durations moderate: a slice must not hold thousands of events
    per = PERIOD_S[r["freq"]] * r["interval"]
    if r["dur"] > min(2 * per, 400 * DAY):
        r["dur"] = rng.choice([3600, DAY, min(per, 40 * DAY), min(per, 40 * DAY) + 3600])
    return r


# --------------------------------------------------------------------------------------------
# part "text"

class TextFamily(IcalFamily):
    name = "text"
    case_type = "tcase"
    corr = "corr_text"
    oracle = "oracle_text"
    n_quick, n_thorough = 500, 6000
    rule = ("rules as in C07 (freq x interval x weekdays / n-th weekdays x month-days x months x set-positions x "
            "anchored / time-of-day x 10 zones), day=/week= spellings, 12% with WKST / BYWEEKNO / BYYEARDAY / BYHOUR / "
            "BYMINUTE / BYSECOND (text only); to_rrule_string() tokenised; for rules in the property's list: 2 windows "
            "at and after the anchor (after 1970 for time-of-day patterns), pattern.fetch against "
            "rrulestr(text, dtstart=anchor | time of day on the phase base date); non-trivial = some window holds an "
            "occurrence")

    def gen(self, rng, tier, n):
        for _ in range(n):
            r = gen_pattern(rng)
            if rng.random() < 0.12:
                r["extras"] = gen_extras(rng, r["freq"])
                r["wins"] = []
            else:
                base = first_window_base(r)
                if base is None:
                    base = rng.randrange(PR.WIN_LO, PR.WIN_HI) * DAY
                r["wins"] = windows_after(rng, r, base)
                if rng.random() < 0.3 and r["wins"]:
                    a, b = r["wins"][0]
                    try:
                        occ = PR.pairs(build_pattern(r).fetch(a, b))
                    except Exception:
                        occ = []
                    PR.add_exdates(rng, r, occ)
            yield r

    def run_impl(self, r):
        try:
            p = build_pattern(r)
            u = user_params(r)
            assert p.anchor_timestamp == u["anchor"] and p.start_seconds == u["sod"], "harness: anchor derivation"
            text = p.to_rrule_string()
            wins = []
            if r["wins"]:
                rr = rrulestr(text, dtstart=pattern_dtstart(r))
                for a, b in r["wins"]:
                    wins.append([a, b, PR.pairs(p.fetch(a, b)), rr_starts(rr, a, b)])
            return dict(text=text, wins=wins, params=obs_pattern(p))
        except AssertionError:
            raise
        except Exception as ex:
            return {"err": type(ex).__name__ + ": " + str(ex)[:200]}

    def coq_case(self, r, obs):
        u = user_params(r)
        wins = clist([f"({cz(a)}, {cz(b)}, {PR.coq_pairs(f)}, {zl(ref)})" for a, b, f, ref in obs["wins"]])
        return f"(mkTC {coq_xrule(u)} {clist(tokenize_rrule(obs['text']))} {wins})"

    def describe(self, r):
        return (f"RecurringPattern({r['freq']!r}, interval={r['interval']}, day={PR.day_arg(r)}"
                f"{' (week= form)' if r.get('week_form') else ''}, day_of_month={r['dom'] or None}, "
                f"month={r['months'] or None}, bysetpos={r['setpos'] or None}, extras={r['extras']}, start="
                + (f"datetime{tuple(r['anchor'])}@{r['tz']}" if r["anchor"] else str(r["sod"]))
                + f", duration={r['dur']}, tz={r['tz']!r}, exdates={r['exdates']}).to_rrule_string(); windows {r['wins']}")

    def nontrivial(self, r, obs):
        return any(w[2] for w in obs["wins"]) or not r["wins"]

    def distribution(self, r, dist):
        dist[r["freq"]] += 1
        dist["anchored" if r["anchor"] else "time_of_day"] += 1
        for k in ("days", "dom", "months", "setpos", "exdates"):
            if r[k]:
                dist["with_" + k] += 1
        if r["interval"] > 1:
            dist["interval_gt1"] += 1
        if any(n is not None for _, n in r["days"]):
            dist["nth_weekday"] += 1
        if r["extras"] != NO_EXTRAS:
            dist["with_extras"] += 1

    def shrink_candidates(self, r):
        for k in ("exdates", "setpos", "months"):
            if r[k]:
                yield dict(copy.deepcopy(r), **{k: []})
        if len(r["wins"]) > 1:
            for i in range(len(r["wins"])):
                yield dict(copy.deepcopy(r), wins=r["wins"][:i] + r["wins"][i + 1:])
        if r["interval"] > 1:
            yield dict(copy.deepcopy(r), interval=1)
        if r["tz"] != "UTC":
            yield dict(copy.deepcopy(r), tz="UTC")


# --------------------------------------------------------------------------------------------
# part "files"

def gen_static(rng, exotic):
    base = PR.dn(date(2024, 1, 1)) + rng.randrange(-400, 400)
    k = rng.random()
    cls = "plain" if rng.random() < 0.08 else "ical"
    if k < 0.4:         # timed
        tz = ZoneInfo(rng.choice(ZONES))
        d = PR.dt(base)
        st = datetime(d.year, d.month, d.day, rng.randrange(24), rng.choice([0, 15, 30, 59]), rng.choice([0, 0, 7]), tzinfo=tz)
        s = int(st.timestamp())
        e = s + rng.choice([0, 1, 900, 3600, 5400, 8 * H, DAY, DAY + H, 3 * DAY + 17])
        it = dict(kind="static", s=s, e=e, meta=gen_meta(rng), cls=cls)
    elif k < 0.75:      # all-day, single or several days
        s = base * DAY
        e = s + rng.choice([1, 1, 1, 2, 3, 7, 31]) * DAY
        it = dict(kind="static", s=s, e=e, meta=gen_meta(rng, allday=True), cls="ical")
    elif k < 0.85:      # before 1970
        s = -rng.randrange(1, 3000) * DAY + rng.randrange(DAY)
        it = dict(kind="static", s=s, e=s + rng.choice([60, 3600, DAY]), meta=gen_meta(rng), cls=cls)
    else:
        s = base * DAY + rng.randrange(DAY)
        it = dict(kind="static", s=s, e=s + rng.choice([60, 3600]), meta=gen_meta(rng), cls=cls)
    if exotic:
        j = rng.random()
        if j < 0.5:     # KF-OPENEND
            it["e"] = None
        else:           # KF-ALLDAYUTC: an all-day event at local midnights
            off = rng.choice([8 * H, -5 * H - 1800, 3600])
            it = dict(kind="static", s=base * DAY + off, e=(base + rng.choice([1, 2])) * DAY + off,
                      meta=gen_meta(rng, allday=True), cls="ical")
    return it


def gen_file_pattern(rng, exotic):
    r = gen_pattern(rng)
    r["cls"] = "plain" if rng.random() < 0.08 else "ical"
    r["meta"] = gen_meta(rng)
    r["pass_none"] = rng.random() < 0.2
    k = rng.random()
    if EXOTIC and rng.random() < 0.05:
        # a whole-day pattern flagged all-day in a zone that is at UTC+0 only part of the year, anchored
        # in that part (Europe/London in winter) and asked about in the other: its flag cannot be
        # written (recorded finding ALLDAYPAT) but its spans must survive the round trip all year
        r.update(freq=rng.choice(["daily", "daily", "weekly"]), interval=rng.choice([1, 2, 3]), days=[], dom=[],
                 months=[], setpos=[], tz="Europe/London", sod=0, dur=rng.choice([1, 1, 2]) * DAY,
                 anchor=[rng.randrange(2001, 2030), rng.choice([1, 2, 11, 12]), rng.randrange(1, 28), 0, 0, 0],
                 as_int=False, exdates=[], extras=dict(NO_EXTRAS), week_form=False, cls="ical", zoned_allday=True)
        r["meta"]["allday"] = True
        return r
    if k < 0.2:
        # all-day: whole days from midnight
        r["sod"] = 0
        if r["anchor"] is not None:
            r["anchor"][3:] = [0, 0, 0]
        r["dur"] = rng.choice([1, 1, 2, 3]) * DAY
        if rng.random() < 0.75:
            r["tz"] = "UTC"
        # flagged all-day: always in UTC; in another zone (local midnights, whole days) the flag cannot
        # be written (recorded finding ALLDAYPAT) but the spans must survive — one zoned all-day
        # pattern in three is flagged, so that the "may it be written as a DATE" decision is exercised
        # in zones that are at UTC+0 only part of the year (Europe/London in winter)
        if r["cls"] == "ical" and (r["tz"] == "UTC" or exotic or (EXOTIC and rng.random() < 0.35)):
            r["meta"]["allday"] = True
        if r["tz"] != "UTC" and r["anchor"] is not None and r["anchor"][1] in (1, 2, 11, 12) and rng.random() < 0.8:
            r["tz"] = "Europe/London"                          # anchored in winter: UTC+0 on DTSTART
    elif k < 0.3:
        r["extras"] = gen_extras(rng, r["freq"])
    if exotic and r["anchor"] is not None and not r["meta"]["allday"]:
        j = rng.random()
        if j < 0.5:         # KF-FIXEDTZ
            r["fixed"] = rng.choice([7200, -18000, 19800, 0])
            if r["fixed"] == 0:
                r["fixed"] = 3600
            r["as_int"] = False
        elif r["cls"] == "ical":       # KF-ALLDAYPAT: flagged all-day, not expressible as DATE
            r["meta"]["allday"] = True
    elif r["anchor"] is not None and rng.random() < 0.04:
        # anchors before 1970-01-02T00:00Z (an int start that small would be a time of day)
        d0 = rng.choice([date(1969, 6, 2), date(1968, 6, 3), date(1970, 1, 2), date(1969, 12, 31)])   # (the zone tables begin in 1968)
        if r["days"]:
            wds = {e[0] for e in r["days"]}
            while d0.weekday() not in wds or d0 in (date(1970, 1, 1), date(1969, 12, 29)):
                d0 -= timedelta(days=1)
        if PR.fires_within(r, d0):        # (a rule that never fires from there makes dateutil spin)
            r["anchor"][:3] = [d0.year, d0.month, d0.day]
            r["as_int"] = False
    return r


def item_first_ts(it):
    if it["kind"] == "static":
        return it["s"]
    if it["anchor"] is not None:
        if it.get("fixed") is not None:
            y, m, d, hh, mm, ss = it["anchor"]
            return calendar.timegm((y, m, d, hh, mm, ss)) - it["fixed"]
        return PR.anchor_ts(it)
    return None


class FilesFamily(IcalFamily):
    name = "files"
    case_type = "fcase"
    corr = "corr_files"
    oracle = "oracle_files"
    shard = 40
    n_quick, n_thorough = 320, 4000
    dom_funcs = {"OPENEND": "no_open_end", "ALLDAYUTC": "no_unaligned_allday", "FIXEDTZ": "no_fixed_offset",
                 "ALLDAYPAT": "no_inexpressible_allday"}
    rule = ("timelines of 1-4 items: static ICalEvents / plain Intervals (timed from 10 zones, zero-length, pre-1970, "
            "all-day single / multi-day; 30% of the timelines with static events hold one of them twice (identical span and "
            "fields; or same span, other fields; or same fields, other span); summary / description / uid / location absent, empty, with commas, "
            "semicolons, backslashes, newlines, non-ASCII, > 75 octets) and recurring patterns (rules as in C07, "
            "day=/week= spellings, exdates from real starts, all-day whole-day patterns, WKST / BYWEEKNO / ... carried "
            "along, metadata passed as None); written with timeline_to_file to /tmp, VEVENTs read from the file text, "
            "reloaded with file_to_timeline; 2-3 windows per timeline; 6% of the timelines hold an item of a recorded "
            "finding's sub-domain (open end, all-day at local midnights, fixed-offset tzinfo, all-day pattern not "
            "expressible as DATE); non-trivial = some slice holds an event")

    def gen(self, rng, tier, n):
        for _ in range(n):
            k = rng.choice([1, 1, 2, 2, 3, 4])
            exotic_at = rng.randrange(k) if (EXOTIC and rng.random() < 0.06) else None
            items = []
            for j in range(k):
                ex = exotic_at == j
                if rng.random() < 0.45:
                    items.append(gen_static(rng, ex))
                else:
                    items.append(dict(gen_file_pattern(rng, ex), kind="pattern"))
            statics = [i for i in items if i["kind"] == "static" and i["e"] is not None]
            if statics and rng.random() < 0.3:
                # the same booking twice / same span, other fields / same fields, other span
                src = rng.choice(statics)
                twin = copy.deepcopy(src)
                j = rng.random()
                if j < 0.6:
                    pass
                elif j < 0.8 and src.get("cls") != "plain":
                    twin["meta"] = gen_meta(rng, allday=src["meta"]["allday"])
                else:
                    sh = rng.choice([DAY, 7 * DAY, -DAY])
                    twin["s"] += sh
                    twin["e"] += sh
                items.insert(rng.randrange(len(items) + 1), twin)
                if rng.random() < 0.15:
                    items.append(copy.deepcopy(src))          # three of a kind
            yield self.finish(rng, items)

    def finish(self, rng, items):
        # windows: around an item, sized by the fastest pattern
        pats = [i for i in items if i["kind"] == "pattern"]
        per = min([PERIOD_S[p["freq"]] * p["interval"] for p in pats], default=7 * DAY)
        wins = []
        for _ in range(rng.choice([2, 3])):
            it = rng.choice(items)
            t0 = item_first_ts(it)
            utc_only = all(p["tz"] == "UTC" or p.get("fixed") is not None for p in pats)
            if t0 is None or (t0 < 0 and it["kind"] == "pattern") or (t0 < 3 * 365 * DAY and not utc_only):
                t0 = rng.randrange(PR.WIN_LO, PR.WIN_HI) * DAY      # the zone tables start in 1968
            if it["kind"] == "pattern":
                t0 += rng.choice([0, 0, 1, 5, rng.randrange(0, 300)]) * PERIOD_S[it["freq"]] * it["interval"]
                if t0 > HI_TS:
                    t0 = item_first_ts(it) or 0
            a = t0 + rng.choice([0, -1, 1, -3600, -DAY, rng.randrange(-2 * DAY, DAY)])
            ln = rng.choice([3600, DAY, 3 * DAY, 10 * per, rng.randrange(1, 25 * per)])
            a = min(a, HI_TS)
            wins.append([a, min(a + ln, HI_TS + 400 * DAY)])      # the zone tables end in 2062
        for it in items:
            if it.get("zoned_allday"):
                t0 = item_first_ts(it) + rng.randrange(150, 230) * DAY      # the other half of the year
                wins.append([t0, min(t0 + rng.choice([3, 10]) * DAY, HI_TS + 400 * DAY)])
        case = dict(items=items, wins=wins)
        # exdates from real starts inside the first window
        for p in pats:
            if rng.random() < 0.4 and p.get("fixed") is None:
                try:
                    a, b = wins[0]
                    occ = PR.pairs(build_pattern(dict(p, exdates=[])).fetch(a, min(b, a + 12 * per)))
                except Exception:
                    occ = []
                if occ:
                    p["exdates"] = sorted({s for s, _ in rng.sample(occ, min(len(occ), rng.choice([1, 1, 2])))})
        return case

    def run_impl(self, case):
        TMP.mkdir(parents=True, exist_ok=True)
        path = TMP / f"f{id(case) % 100000}_{time.monotonic_ns() % 1000000}.ics"
        try:
            m = MemoryTimeline()
            items = []
            order = []          # (user index, stored object) in the order timeline_to_file writes them
            for idx, it in enumerate(case["items"]):
                rec = dict(stored=None, vevent=None, loaded=None, named=True)
                if it["kind"] == "static":
                    obj = build_static(it)
                    rec["user"] = user_static(it)
                    res = m.add(obj)
                    rec["stored"] = obs_static(res[0].event)
                    rec["_obj"] = res[0].event
                else:
                    p = build_pattern(it)
                    u = user_params(it)
                    assert p.anchor_timestamp == u["anchor"] and p.start_seconds == u["sod"], "harness: anchor derivation"
                    rec["user"] = u
                    rec["named"] = it.get("fixed") is None or it["anchor"] is None
                    try:
                        m.add(p)
                        rec["_obj"] = m._recurring_patterns[-1][1]
                        rec["stored"] = obs_pattern(rec["_obj"])
                    except Exception as ex:
                        rec["add_error"] = type(ex).__name__
                items.append(rec)
            for _, p in m._recurring_patterns:
                order.append(next(i for i, r in enumerate(items) if r.get("_obj") is p))
            for iv in m._static_intervals:
                order.append(next(i for i, r in enumerate(items) if r.get("_obj") is iv and i not in order))
            timeline_to_file(m, path)
            data = path.read_bytes()
            ves = parse_calendar(data)
            comps = list(icalendar.Calendar.from_ical(data).walk("VEVENT"))
            # which VEVENT belongs to which stored item: patterns come first, in order; a static
            # event's VEVENT is recognised by its values, so that a stored event that was NOT written
            # (or written once for two equal events) shows as an item without VEVENT
            npat = len(m._recurring_patterns)
            pat_ves = [k for k, ve in enumerate(ves) if ve["rrule"] is not None]
            sta_ves = [k for k, ve in enumerate(ves) if ve["rrule"] is None]
            if len(pat_ves) != npat or len(sta_ves) > len(order) - npat:
                return {"err": f"{len(pat_ves)}+{len(sta_ves)} VEVENTs written for {npat}+{len(order) - npat} stored items"}
            assign = {}
            for idx, k in zip(order[:npat], pat_ves):
                assign[idx] = k
            j = 0
            for idx in order[npat:]:
                if j < len(sta_ves) and static_key(items[idx]["_obj"]) == vevent_key(ves[sta_ves[j]]):
                    assign[idx] = sta_ves[j]
                    j += 1
            if j != len(sta_ves):
                return {"err": "a written VEVENT matches no stored static event"}
            err = io.StringIO()
            with contextlib.redirect_stderr(err):
                m2 = file_to_timeline(path)
                # loading is repeatable: the same file read again gives the same timeline
                m3 = file_to_timeline(path)
                if ([obs_pattern(q) for _, q in m3._recurring_patterns] != [obs_pattern(q) for _, q in m2._recurring_patterns]
                        or [obs_static(i) for i in m3._static_intervals] != [obs_static(i) for i in m2._static_intervals]):
                    return {"err": "loading the same .ics file twice gives different timelines"}
                k2 = 0
                for idx in order:
                    if idx not in assign:
                        continue
                    ve, comp = ves[assign[idx]], comps[assign[idx]]
                    rec = items[idx]
                    rec["vevent"] = {k: ve[k] for k in ("dtstart", "end", "rrule", "exdates", "summary", "description",
                                                        "uid", "location")}
                    try:
                        got = IC._parse_vevent(comp)
                    except Exception:
                        got = None
                    if got is None:
                        continue
                    if isinstance(got, RecurringPattern):
                        rec["loaded"] = obs_pattern(m2._recurring_patterns[k2][1])
                        k2 += 1
                    else:
                        rec["loaded"] = obs_static(got)
            # everything the reloaded timeline stores, with multiplicity
            reloaded = [obs_pattern(p) for _, p in m2._recurring_patterns] + [obs_static(iv) for iv in m2._static_intervals]
            slices = []
            for a, b in case["wins"]:
                slices.append([a, b, evs(m[a:b]), evs(m2[a:b])])
            # written again after an occurrence was cancelled: the second file must carry the
            # cancellation (the timeline object has been written before; nothing may be remembered
            # from that)
            # (the same items in a timeline whose event class carries recurring_event_id, so that single
            #  occurrences can be cancelled)
            m5 = MemoryTimeline()
            for it in case["items"]:
                try:
                    m5.add(build_static(it) if it["kind"] == "static" else build_pattern(it, SeriesEvent))
                except Exception:
                    pass
            timeline_to_file(m5, path)
            for a0, b0 in case["wins"]:
                occs = [o for o in m5.fetch(a0, b0) if getattr(o, "recurring_event_id", None)][:40]
                if not occs:
                    continue
                victim = occs[len(occs) // 2]
                span = [victim.start, victim.end]
                with contextlib.redirect_stderr(io.StringIO()):
                    before = sum(1 for o in file_to_timeline(path).fetch(a0, b0) if [o.start, o.end] == span)
                before_mem = sum(1 for o in occs if [o.start, o.end] == span)
                # (only where the first round trip agreed on that span: disagreements are the business of
                #  the slices compared above)
                if before and before == before_mem and m5.remove(victim)[0].success:
                    timeline_to_file(m5, path)
                    with contextlib.redirect_stderr(io.StringIO()):
                        m4 = file_to_timeline(path)
                    after = sum(1 for o in m4.fetch(a0, b0) if [o.start, o.end] == span)
                    after_mem = sum(1 for o in m5.fetch(a0, b0) if [o.start, o.end] == span)
                    if after != after_mem:
                        return {"err": f"an occurrence cancelled after the first write ({span}) is in the reloaded "
                                       f"timeline {after} time(s) after the second write, in the written one "
                                       f"{after_mem} time(s) (before: {before})"}
                break
            # the same path rewritten with a change that keeps the file's length (an event moved by an hour)
            # and loaded again, all within one process and most likely one second: the second load must show
            # the second file
            movable = [i for i, it in enumerate(case["items"]) if it["kind"] == "static" and it.get("s") is not None
                       and it.get("e") is not None and not (it.get("meta") or {}).get("allday")]
            if movable:
                i0 = movable[0]
                def mk(shift):
                    mm = MemoryTimeline()
                    for j, it in enumerate(case["items"]):
                        try:
                            if it["kind"] == "static":
                                mm.add(build_static(dict(it, s=it["s"] + shift, e=it["e"] + shift) if j == i0 else it))
                            else:
                                mm.add(build_pattern(it))
                        except Exception:
                            pass
                    return mm
                old = [case["items"][i0]["s"], case["items"][i0]["e"]]
                new = [old[0] + 3600, old[1] + 3600]
                with contextlib.redirect_stderr(io.StringIO()):
                    timeline_to_file(mk(0), path)
                    n_old = sum(1 for o in file_to_timeline(path)._static_intervals if [o.start, o.end] == old)
                    n_new0 = sum(1 for o in file_to_timeline(path)._static_intervals if [o.start, o.end] == new)
                    size0 = path.stat().st_size
                    timeline_to_file(mk(3600), path)
                    got = file_to_timeline(path)
                n_new = sum(1 for o in got._static_intervals if [o.start, o.end] == new)
                if n_old and path.stat().st_size == size0 and n_new != n_new0 + 1:
                    return {"err": f"the file was rewritten with the event {old} moved to {new} (same length); loading "
                                   f"it again shows the moved event {n_new} time(s), expected {n_new0 + 1}"}
            for r in items:
                r.pop("_obj", None)
            return dict(items=items, slices=slices, reloaded=reloaded)
        except AssertionError:
            raise
        except Exception as ex:
            return {"err": type(ex).__name__ + ": " + str(ex)[:300]}
        finally:
            if path.exists():
                path.unlink()

    def coq_case(self, case, obs):
        ids = Ids()
        its = []
        for r in obs["items"]:
            its.append(f"(mkFI {coq_item(r['user'], ids)[6:-1]} {cbool(r['named'])} {coq_item(r['stored'], ids)} "
                       f"{coq_vevent(r['vevent'], ids)} {coq_item(r['loaded'], ids)})")
        sl = clist([f"({cz(a)}, {cz(b)}, {clist([coq_ev(e, ids) for e in x])}, {clist([coq_ev(e, ids) for e in y])})"
                    for a, b, x, y in obs["slices"]])
        rl = clist([coq_item(r, ids)[6:-1] for r in obs["reloaded"]])
        return f"(mkFC {clist(its)} {rl} {sl})"

    def describe(self, case):
        out = []
        for it in case["items"]:
            if it["kind"] == "static":
                out.append(f"{'Interval' if it.get('cls') == 'plain' else 'ICalEvent'}(start={it['s']}, end={it['e']}, "
                           f"{ {k: v for k, v in it['meta'].items() if v not in (None, False)} })")
            else:
                out.append(f"RecurringPattern({it['freq']!r}, interval={it['interval']}, day={PR.day_arg(it)}, "
                           f"day_of_month={it['dom'] or None}, month={it['months'] or None}, bysetpos={it['setpos'] or None}, "
                           f"start=" + (f"datetime{tuple(it['anchor'])}@" + (f"fixed{it['fixed']}" if it.get("fixed") is not None else it["tz"])
                                        if it["anchor"] else str(it["sod"]))
                           + f", duration={it['dur']}, tz={it['tz']!r}, exdates={it['exdates']}, "
                           f"{ {k: v for k, v in it['meta'].items() if v not in (None, False)} })")
        return "MemoryTimeline([" + "; ".join(out) + f"]) -> timeline_to_file -> file_to_timeline; windows {case['wins']}"

    def nontrivial(self, case, obs):
        return any(x for _, _, x, _ in obs["slices"])

    def distribution(self, case, dist):
        st = [json.dumps(i, sort_keys=True) for i in case["items"] if i["kind"] == "static"]
        if len(set(st)) < len(st):
            dist["timelines_with_identical_static_events"] += 1
        for it in case["items"]:
            if it["kind"] == "static":
                dist["static_allday" if it["meta"]["allday"] else "static_timed"] += 1
                if it["e"] is None:
                    dist["kf_open_end"] += 1
            else:
                dist["pattern_" + it["freq"]] += 1
                dist["pattern_anchored" if it["anchor"] else "pattern_time_of_day"] += 1
                if it["exdates"]:
                    dist["pattern_with_exdates"] += 1
                if it["meta"]["allday"]:
                    dist["pattern_allday"] += 1
                if it["tz"] != "UTC":
                    dist["pattern_non_utc"] += 1
                if it.get("fixed") is not None:
                    dist["kf_fixed_offset"] += 1
                if any(it[k] for k in ("days", "dom", "months", "setpos")):
                    dist["pattern_with_by_parts"] += 1

    def shrink_candidates(self, case):
        its = case["items"]
        if len(its) > 1:
            for i in range(len(its)):
                yield dict(items=its[:i] + its[i + 1:], wins=case["wins"])
        if len(case["wins"]) > 1:
            for i in range(len(case["wins"])):
                yield dict(items=its, wins=case["wins"][:i] + case["wins"][i + 1:])
        for i, it in enumerate(its):
            def sub(**kw):
                c = copy.deepcopy(case)
                c["items"][i].update(kw)
                return c
            if any(v is not None for k, v in it["meta"].items() if k != "allday"):
                yield sub(meta=dict(it["meta"], summary=None, description=None, uid=None, location=None))
            if it["kind"] == "pattern":
                for k in ("exdates", "setpos", "months"):
                    if it[k]:
                        yield sub(**{k: []})
                if it["extras"] != NO_EXTRAS:
                    yield sub(extras=dict(NO_EXTRAS))
                if it["interval"] > 1:
                    yield sub(interval=1)
                if it["tz"] != "UTC" and it.get("fixed") is None:
                    yield sub(tz="UTC")

    def perturb(self, case, rng):
        c = copy.deepcopy(case)
        for w in c["wins"]:
            sh = rng.choice([-DAY, DAY, 7 * DAY, -3600, 30 * DAY])
            w[0] += sh
            w[1] += sh
        return c


# --------------------------------------------------------------------------------------------
# part "load"

def dtval_datetime(v):
    """the datetime an RFC 5545 reader takes a value for (DATE and floating values in UTC, which is how
    the module documents its reading of them)"""
    if v[0] == "date":
        d = PR.dt(v[1])
        return datetime(d.year, d.month, d.day, tzinfo=timezone.utc)
    if v[0] == "utc":
        return wall_to_naive(v[1]).replace(tzinfo=timezone.utc)
    if v[0] == "tz":
        return wall_to_naive(v[2]).replace(tzinfo=ZoneInfo(v[1]))
    return wall_to_naive(v[1]).replace(tzinfo=timezone.utc)


def wall_of(v):
    return v[1] * DAY if v[0] == "date" else (v[2] if v[0] == "tz" else v[1])


def ref_duration(v):
    """(nominal timedelta on the local clock, exact seconds of the first instance)"""
    s = dtval_datetime(v["dtstart"])
    e = v["end"]
    if e is None:
        td = timedelta(days=1) if v["dtstart"][0] == "date" else timedelta(0)
    elif e[0] == "duration":
        td = timedelta(seconds=e[1])
        if v["dtstart"][0] == "date":
            td = timedelta(days=td.days)
    else:
        td = timedelta(seconds=wall_of(e[1]) - wall_of(v["dtstart"]))
    exact = int((s + td).timestamp()) - int(s.timestamp())
    if e is not None and e[0] == "dtend":
        exact = int(dtval_datetime(e[1]).timestamp()) - int(s.timestamp())
    if e is not None and e[0] == "duration" and v["dtstart"][0] != "date" and e[1] >= 0:
        # a single event: RFC 5545 3.3.6 — nominal days, exact hours / minutes / seconds
        days = timedelta(days=td.days)
        exact = int((s + days).timestamp()) + int((td - days).total_seconds()) - int(s.timestamp())
    return td, exact


def reference(v, rrule_text, a, b, exact=False):
    """reference expansion: occurrences with end > a and start <= b, as fetch(a, b) reports them"""
    s_dt = dtval_datetime(v["dtstart"])
    td, ex_secs = ref_duration(v)
    if v["rrule"] is None:
        s = int(s_dt.timestamp())
        e = s + ex_secs
        return [[s, e]] if (e > a and s <= b) else []
    excl = {int(dtval_datetime(x).timestamp()) for x in v["exdates"]}
    out = []
    rr = rrulestr(rrule_text, dtstart=s_dt)
    for d in rr:
        s = int(d.timestamp())
        if s > b + 2 * DAY or d.year > 2061:
            break
        if exact:
            e = s + ex_secs
        else:
            e = int((datetime.fromtimestamp(s, d.tzinfo) + td).timestamp())
        if s in excl or not (e > a and s <= b):
            continue
        out.append([s, e])
    return sorted(out)


def gen_vevent_text(rng):
    """an abstract VEVENT with the supported parts, DTSTART synchronised with the rule"""
    r = PR.gen_rule(rng)
    per = PERIOD_S[r["freq"]] * r["interval"]
    recurring = rng.random() < 0.8
    kind = rng.choice(["tz", "tz", "utc", "date", "float"])
    if r["anchor"] is None:
        # a DTSTART is always a date: take one the rule matches
        b = base_date(r["freq"])
        r["anchor"] = [b.year, b.month, b.day, r["sod"] // 3600, r["sod"] % 3600 // 60, r["sod"] % 60]
        if rng.random() < 0.6:
            d0 = PR.dt(rng.randrange(PR.dn(date(1985, 1, 1)), PR.dn(date(2030, 1, 1))))
            if r["days"]:
                wds = {e[0] for e in r["days"]}
                while d0.weekday() not in wds:
                    d0 += timedelta(days=1)
            r["anchor"][:3] = [d0.year, d0.month, d0.day]
    y, m, d, hh, mm, ss = r["anchor"]
    if not PR.fires_within(r, date(y, m, d)):
        return gen_vevent_text(rng)         # a rule that never fires from this DTSTART: dateutil would spin
    if kind == "tz" and r["tz"] == "UTC":
        kind = "utc"
    if kind == "utc" or kind == "float":
        r["tz"] = "UTC"
    if kind == "date":
        r["tz"] = "UTC"
        hh = mm = ss = 0
    w = calendar.timegm((y, m, d, hh, mm, ss))
    near = False
    if kind == "tz" and not recurring and rng.random() < 0.5:
        # a single event that starts a few hours before a UTC-offset change of its zone: DURATION
        # days are nominal, its hours exact (RFC 5545 3.3.6)
        off0, tr = PR.zone_table(r["tz"])
        cand = [(T, (off0 if i == 0 else tr[i - 1][1])) for i, (T, o) in enumerate(tr)
                if calendar.timegm((1985, 1, 1, 0, 0, 0)) < T < calendar.timegm((2030, 1, 1, 0, 0, 0))]
        if cand:
            T, before = rng.choice(cand)
            w = T + before - rng.choice([1, 2, 5, 26]) * 3600 - rng.choice([0, 1800])
            near = True
    if kind == "tz":
        # avoid wall-clock readings that do not exist or exist twice (their reading is the zone
        # library's business, not the property's)
        tz = ZoneInfo(r["tz"])
        a = wall_to_naive(w).replace(tzinfo=tz)
        if datetime.fromtimestamp(a.timestamp(), tz).replace(tzinfo=None) != wall_to_naive(w) or \
                a.replace(fold=1).utcoffset() != a.utcoffset():
            w += 3 * 3600
        dtstart = ["tz", r["tz"], w]
    elif kind == "utc":
        dtstart = ["utc", w]
    elif kind == "date":
        dtstart = ["date", w // DAY]
    else:
        dtstart = ["float", w]
    # end
    ek = rng.choice(["dtend", "dtend", "duration", "duration", "none"])
    if kind == "date":
        days = rng.choice([1, 1, 2, 3])
        end = None if ek == "none" else (["dtend", ["date", w // DAY + days]] if ek == "dtend" else ["duration", days * DAY])
    else:
        dur = rng.choice([0, 60, 900, 3600, 5400, 8 * H, DAY, DAY + H, 2 * DAY, min(per, 5 * DAY)])
        if near and rng.random() < 0.8:
            ek, dur = "duration", rng.choice([3 * H, 8 * H, DAY + 3 * H, DAY + 8 * H, 2 * DAY, 30 * H])
        if ek == "none":
            end = None
        elif ek == "duration":
            end = ["duration", dur]
        else:
            ev = list(dtstart)
            ev[-1] = ev[-1] + dur
            end = ["dtend", ev]
    rr = None
    if recurring:
        rr = dict(freq=r["freq"], interval=(r["interval"] if (r["interval"] != 1 or rng.random() < 0.2) else None),
                  days=[list(e) for e in r["days"]], months=list(r["months"]), dom=list(r["dom"]), weekno=[],
                  yearday=[], setpos=list(r["setpos"]), hour=[], minute=[], second=[], wkst=None)
    md = gen_meta(rng)
    v = dict(dtstart=dtstart, end=end, rrule=rr, exdates=[], summary=md["summary"], description=md["description"],
             uid=md["uid"], location=md["location"], exdate_joined=rng.random() < 0.5)
    order = list(range(8))
    rng.shuffle(order)
    return v, r, (order if rng.random() < 0.4 else None)


class LoadFamily(IcalFamily):
    name = "load"
    case_type = "lcase"
    corr = "corr_load"
    oracle = "oracle_load"
    n_quick, n_thorough = 360, 4500
    dom_funcs = {"PREDTSTART": "no_pre_dtstart"}
    rule = ("VEVENT texts: 70% generated (DTSTART as TZID / UTC / DATE / floating, synchronised with the rule; DTEND / "
            "DURATION / neither; RRULE with FREQ, INTERVAL, BYDAY incl. ordinals, BYMONTHDAY, BYMONTH, BYSETPOS in any "
            "order; EXDATE lines / lists taken from real instances; folded lines, escaped texts), 30% written by "
            "timeline_to_file from a generated pattern or event; loaded with file_to_timeline; 2 windows at and after "
            "DTSTART; reference = rrulestr on the same RRULE text from DTSTART, duration DTEND-DTSTART / DURATION on the "
            "clock they are written in, minus EXDATE instants; cases where that duration differs from the elapsed one "
            "within the probed windows (occurrence spanning a UTC-offset change) are not generated; non-trivial = "
            "some window holds an occurrence")

    def gen(self, rng, tier, n):
        made = 0
        while made < n:
            if rng.random() < 0.3:
                if rng.random() < 0.25:
                    it = gen_static(rng, False)
                    if it["e"] is None:
                        continue
                else:
                    it = dict(gen_file_pattern(rng, False), kind="pattern")
                    if it["extras"] != NO_EXTRAS:
                        it["extras"] = dict(NO_EXTRAS)
                case = dict(origin="written", item=it)
                t0 = item_first_ts(it)
                r = it if it["kind"] == "pattern" else dict(freq="daily", interval=1)
                if t0 is None:
                    t0 = rng.randrange(PR.WIN_LO, PR.WIN_HI) * DAY
                case["wins"] = windows_after(rng, r, t0)
                if it["kind"] == "pattern" and rng.random() < 0.4 and case["wins"]:
                    a, b = case["wins"][0]
                    try:
                        occ = PR.pairs(build_pattern(dict(it, exdates=[])).fetch(a, min(b, a + 12 * PERIOD_S[it["freq"]] * it["interval"])))
                    except Exception:
                        occ = []
                    if occ:
                        it["exdates"] = sorted({s for s, _ in rng.sample(occ, min(len(occ), 2))})
            else:
                v, r, order = gen_vevent_text(rng)
                t0 = int(dtval_datetime(v["dtstart"]).timestamp())
                wins = windows_after(rng, r, t0)
                txt = fmt_rrule(v["rrule"], order) if v["rrule"] else None
                if v["rrule"] and wins and rng.random() < 0.45:
                    a, b = wins[0]
                    occ = reference(v, txt, a, min(b, a + 12 * PERIOD_S[r["freq"]] * r["interval"]))
                    if occ:
                        tz = dtval_datetime(v["dtstart"]).tzinfo
                        for s, _ in rng.sample(occ, min(len(occ), rng.choice([1, 2, 3]))):
                            loc = datetime.fromtimestamp(s, tz)
                            wv = calendar.timegm(loc.timetuple())
                            k = v["dtstart"][0]
                            v["exdates"].append(["date", wv // DAY] if k == "date" else
                                                (["tz", v["dtstart"][1], wv] if k == "tz" else [k, wv]))
                # duration read on the clock vs elapsed: outside the property when they differ
                if any(reference(v, txt, a, b) != reference(v, txt, a, b, exact=True) for a, b in wins):
                    continue
                if wins and v["rrule"] and EXOTIC and rng.random() < 0.04:
                    # KF-PREDTSTART: a window before DTSTART (inside the years the zone tables cover)
                    per = PERIOD_S[r["freq"]] * r["interval"]
                    if t0 - 3 * per > PR.SCAN_LO + 60 * DAY:
                        wins[0] = [t0 - 3 * per, t0 - per]
                case = dict(origin="text", vevent=v, order=order, wins=wins)
            if not case["wins"]:
                continue
            made += 1
            yield case

    def run_impl(self, case):
        TMP.mkdir(parents=True, exist_ok=True)
        path = TMP / f"l{id(case) % 100000}_{time.monotonic_ns() % 1000000}.ics"
        try:
            if case["origin"] == "written":
                it = case["item"]
                obj = build_static(it) if it["kind"] == "static" else build_pattern(it)
                timeline_to_file(MemoryTimeline([obj]), path)
                data = path.read_bytes()
                ves = parse_calendar(data)
                if len(ves) != 1:
                    return {"err": f"{len(ves)} VEVENTs written for one item"}
                v = ves[0]
                txt = v["rrule_text"]
            else:
                v = case["vevent"]
                txt = fmt_rrule(v["rrule"], case["order"]) if v["rrule"] else None
                data = render_calendar([render_vevent(v, case["order"])])
                path.write_bytes(data)
                back = parse_calendar(data)[0]
                assert back["dtstart"] == v["dtstart"] and back["exdates"] == v["exdates"] and back["rrule"] == v["rrule"], \
                    "harness: renderer / parser of VEVENT texts disagree"
            err = io.StringIO()
            with contextlib.redirect_stderr(err):
                m = file_to_timeline(path)
            wins = []
            flags = set()
            for a, b in case["wins"]:
                got = list(m.fetch(a, b))
                flags |= {bool(getattr(i, "is_all_day", False)) for i in got}
                wins.append([a, b, [[i.start, i.end] for i in got], reference(v, txt, a, b)])
            if len(flags) > 1:
                return {"err": "events of one VEVENT disagree on is_all_day"}
            vv = {k: v[k] for k in ("dtstart", "end", "rrule", "exdates", "summary", "description", "uid", "location")}
            return dict(vevent=vv, allday=(flags.pop() if flags else None), wins=wins, text=data.decode()[:1500],
                        warnings=err.getvalue()[:200])
        except AssertionError:
            raise
        except Exception as ex:
            return {"err": type(ex).__name__ + ": " + str(ex)[:300]}
        finally:
            if path.exists():
                path.unlink()

    def coq_case(self, case, obs):
        ids = Ids()
        ve = coq_vevent(obs["vevent"], ids)[6:-1]
        ad = "None" if obs["allday"] is None else f"(Some {cbool(obs['allday'])})"
        wins = clist([f"({cz(a)}, {cz(b)}, {PR.coq_pairs(f)}, {PR.coq_pairs(ref)})" for a, b, f, ref in obs["wins"]])
        return f"(mkLC {ve} {ad} {wins})"

    def describe(self, case):
        if case["origin"] == "written":
            return "VEVENT written by timeline_to_file for " + FilesFamily.describe(self, dict(items=[case["item"]], wins=case["wins"]))
        return "VEVENT " + " | ".join(render_vevent(case["vevent"], case["order"])[1:-1]) + f"; windows {case['wins']}"

    def nontrivial(self, case, obs):
        return any(f for _, _, f, _ in obs["wins"])

    def distribution(self, case, dist):
        dist["origin_" + case["origin"]] += 1
        if case["origin"] == "text":
            v = case["vevent"]
            dist["dtstart_" + v["dtstart"][0]] += 1
            dist["end_" + ("none" if v["end"] is None else v["end"][0])] += 1
            dist["recurring" if v["rrule"] else "single"] += 1
            if v["exdates"]:
                dist["with_exdate"] += 1
        else:
            dist["written_" + case["item"]["kind"]] += 1

    def shrink_candidates(self, case):
        if len(case["wins"]) > 1:
            for i in range(len(case["wins"])):
                yield dict(copy.deepcopy(case), wins=case["wins"][:i] + case["wins"][i + 1:])
        if case["origin"] == "text":
            v = case["vevent"]
            if v["exdates"]:
                c = copy.deepcopy(case)
                c["vevent"]["exdates"] = []
                yield c
            if v["rrule"]:
                for k in ("setpos", "months", "dom"):
                    if v["rrule"][k]:
                        c = copy.deepcopy(case)
                        c["vevent"]["rrule"][k] = []
                        yield c
            for k in ("summary", "description", "uid", "location"):
                if v[k] is not None:
                    c = copy.deepcopy(case)
                    c["vevent"][k] = None
                    yield c


def cleanup():
    shutil.rmtree(TMP, ignore_errors=True)


import atexit  # noqa: E402

atexit.register(cleanup)

ASSUME = [
    "the text layer (icalendar: folding, escaping, parameter syntax, the order of vRecur's keys) and dateutil.rrule.rrulestr "
    "are external: exercised for real on every case (files really written and loaded, emitted RRULEs really expanded), "
    "not modelled; a VEVENT is the record of its property values, a text value is a name (0 = the empty string)",
    "a zone is its transition table exported from the installed tzdata (1968-2062); UTC is the only zone used whose table is "
    "trivial, so 'the zone prints as UTC' is decided on the table",
    "DATE and floating values are read in UTC (the process runs with TZ=UTC), which is the module's documented convention",
    "DTSTART is synchronised with the rule in generated texts (RFC 5545: otherwise undefined); wall-clock DTSTARTs inside a "
    "DST gap or fold are not generated; windows start at or after DTSTART / the anchor (a RecurringPattern is a bi-infinite "
    "series, an RFC expansion starts at DTSTART)",
    "COUNT / UNTIL (silently ignored by _parse_vevent) and occurrences whose DTEND/DURATION-derived duration differs from the "
    "elapsed one (spanning a UTC-offset change; RFC 5545 3.8.5.3 asks for the exact duration with DTEND) are outside the "
    "property's quantifier and not generated",
    "WEEKLY rules with BYSETPOS: windows start 8 days after DTSTART (dateutil, the reference, numbers the positions of "
    "DTSTART's own week among the days from DTSTART on; recorded in Harness/RecurChk.v oracle_rrule)",
    "rule parts outside the property's list (WKST, BYWEEKNO, BYYEARDAY, BYHOUR, BYMINUTE, BYSECOND) are checked for the text "
    "and for being carried through files and re-creation, not for their occurrences",
]

CHECKS = {"C19": Check("C19", [TextFamily("C19"), FilesFamily("C19"), LoadFamily("C19")], ASSUME)}
