"""Tie C: a fail-closed translator from a small subset of Python to Gallina.

It turns the *source text* of selected calgebra functions (straight-line integer / Optional code,
`if`/`elif`/`else`, conditional expressions, `max`/`min`, one `for` loop over a stream with
`yield` / `continue` / `break` / `return`) into Gallina definitions, written to
coq/Gen/Source.v on every run.  Proofs/GenEq.v proves, for ALL inputs, that each generated
definition equals the hand-written model function the property theorems speak about — so
those theorems are re-checked against what the code says now.  Anything outside the subset
raises Unsupported (the generated file then lacks the definition and the equivalence proof
fails: a broken proof obligation, never a silent pass).

Types: Z (int), OZ (int | None), B (bool), IVL (an Interval), OIVL (Interval | None),
LIST (a stream of Intervals), NONE (the literal None before unification), U (unit).

Translation scheme for statements (continuation = "the rest of the block", duplicated into both
branches of an `if`; blocks are small):
   x = e ; rest              let x := e in rest
   if c: A else: B ; rest    if c then [A; rest] else [B; rest]
   if x is None: A else: B   match x with None => [A; rest] | Some x => [B; rest] end   (x refined)
   yield e ; rest            let out := out ++ [e] in rest
   continue / end of body    (out, state, Cont)
   break                     (out, state, Brk)
   return                    (out, state, Ret)
   end of function           out
A `for` loop becomes  run_for body post state stream  (Model/Loop.v), the state being the tuple of
variables assigned in the body that exist before the loop.
"""
from __future__ import annotations

import ast
from pathlib import Path


class Unsupported(Exception):
    pass


RESERVED = {"end": "end_", "at": "at_", "in": "in_", "fun": "fun_", "match": "match_", "with": "with_",
            "return": "return_", "then": "then_", "else": "else_", "let": "let_", "fix": "fix_",
            "Type": "Type_", "Set": "Set_", "Prop": "Prop_", "forall": "forall_", "exists": "exists_",
            "as": "as_", "using": "using_", "where": "where_", "left": "left_", "right": "right_",
            "gap": "gap_", "cur": "cur_", "rest": "rest_", "st": "st_", "en": "en_", "pl": "pl_",
            "interval": "interval_", "ivl": "ivl_", "out": "out_", "run_for": "run_for_", "fstart": "fstart_",
            "fend": "fend_", "ozd": "ozd_", "is_none": "is_none_", "set_span": "set_span_", "mkI": "mkI_"}

COQ_TYPE = {"Z": "Z", "OZ": "option Z", "B": "bool", "IVL": "ivl", "OIVL": "option ivl",
            "LIST": "list ivl", "U": "unit"}

GLOBAL_CONSTS = {"NEG_INF": ("NEG_INF", "Z"), "POS_INF": ("POS_INF", "Z"),
                 "DAY": ("86400", "Z"), "WEEK": ("604800", "Z"), "HOUR": ("3600", "Z"), "MINUTE": ("60", "Z")}


def cname(n):
    return RESERVED.get(n, n)


def ann_type(node):
    """type annotation -> our type"""
    s = ast.unparse(node).replace(" ", "")
    table = {"int": "Z", "int|None": "OZ", "bool": "B",
             "Interval": "IVL", "Ivl": "IVL", "IvlOut": "IVL",
             "Interval|None": "OIVL", "Ivl|None": "OIVL", "IvlOut|None": "OIVL",
             "Iterable[Interval]": "LIST", "Iterable[Ivl]": "LIST", "Iterable[IvlOut]": "LIST"}
    if s in table:
        return table[s]
    raise Unsupported(f"annotation {s}")


class Tr:
    """translator of one function"""

    def __init__(self, spec, known_funcs):
        self.spec = spec
        self.known = known_funcs          # python name -> (coq name, [arg types], ret type)
        self.selfattrs = spec.get("selfattrs", {})       # attr -> (coq param, type)
        self.calls = spec.get("calls", {})               # unparsed callee -> (coq param, [arg types], ret type)
        self.item_type = spec.get("item_type", "IVL")
        self.out_type = spec.get("out_type", "ivl")

    # ---------------------------------------------------------------- expressions
    def coerce(self, text, ty, want, what=""):
        if want is None or ty == want:
            return text
        if ty == "NONE" and want in ("OZ", "OIVL"):
            return "None"
        if ty == "Z" and want == "OZ":
            return f"(Some {text})"
        if ty == "IVL" and want == "OIVL":
            return f"(Some {text})"
        if ty == "OZ" and want == "Z":
            return f"(ozd {text})"            # guarded by an earlier None test in the source
        raise Unsupported(f"cannot use {ty} as {want} {what}")

    def unify(self, t1, t2):
        if t1 == t2:
            return t1
        pair = {t1, t2}
        if pair == {"NONE", "Z"} or pair == {"NONE", "OZ"} or pair == {"Z", "OZ"}:
            return "OZ"
        if pair == {"NONE", "IVL"} or pair == {"NONE", "OIVL"} or pair == {"IVL", "OIVL"}:
            return "OIVL"
        raise Unsupported(f"cannot unify {t1} and {t2}")

    def expr(self, e, env, want=None):
        text, ty = self.expr0(e, env, want)
        return self.coerce(text, ty, want, ast.unparse(e)), (want or ty)

    def expr0(self, e, env, want=None):
        if isinstance(e, ast.Constant):
            if e.value is None:
                return "None", "NONE"
            if e.value is True:
                return "true", "B"
            if e.value is False:
                return "false", "B"
            if isinstance(e.value, int):
                return (f"({e.value})" if e.value < 0 else str(e.value)), "Z"
            raise Unsupported(f"constant {e.value!r}")
        if isinstance(e, ast.Name):
            if e.id in env:
                return cname(e.id), env[e.id]
            if e.id in GLOBAL_CONSTS:
                return GLOBAL_CONSTS[e.id]
            raise Unsupported(f"unknown name {e.id}")
        if isinstance(e, ast.Attribute):
            if isinstance(e.value, ast.Name) and e.value.id == "self" and "self" not in env:
                if e.attr in self.selfattrs:
                    return self.selfattrs[e.attr]
                raise Unsupported(f"self.{e.attr}")
            vt, vty = self.expr0(e.value, env)
            if vty == "IVL":
                m = {"start": (f"(st {vt})", "OZ"), "end": (f"(en {vt})", "OZ"),
                     "finite_start": (f"(fstart {vt})", "Z"), "finite_end": (f"(fend {vt})", "Z")}
                if e.attr in m:
                    return m[e.attr]
            raise Unsupported(f"attribute .{e.attr} of {vty}")
        if isinstance(e, ast.IfExp):
            c, _ = self.expr(e.test, env, "B")
            # `x if x is not None else d`: refine x inside the taken branch
            a, ta = self.expr0(e.body, self.refine(e.test, env, True), want)
            b, tb = self.expr0(e.orelse, self.refine(e.test, env, False), want)
            ty = self.unify(ta, tb) if want is None else want
            if ty == "NONE":
                raise Unsupported("conditional expression of unknown option type")
            ref = self.refine_name(e.test)
            a = self.coerce(a, ta, ty)
            b = self.coerce(b, tb, ty)
            if ref is not None and env.get(ref[0]) in ("OZ", "OIVL"):
                n, some_in_body = ref
                x = cname(n)
                if some_in_body:
                    return f"(match {x} with Some {x} => {a} | None => {b} end)", ty
                return f"(match {x} with None => {a} | Some {x} => {b} end)", ty
            return f"(if {c} then {a} else {b})", ty
        if isinstance(e, ast.Compare):
            if len(e.ops) == 2 and all(isinstance(o, (ast.Lt, ast.LtE)) for o in e.ops):
                # a <= x < b
                l = ast.Compare(e.left, [e.ops[0]], [e.comparators[0]])
                r = ast.Compare(e.comparators[0], [e.ops[1]], [e.comparators[1]])
                return self.expr0(ast.BoolOp(ast.And(), [l, r]), env)
            if len(e.ops) != 1:
                raise Unsupported("chained comparison")
            op, rhs = e.ops[0], e.comparators[0]
            if isinstance(op, (ast.Is, ast.IsNot)):
                if not (isinstance(rhs, ast.Constant) and rhs.value is None):
                    raise Unsupported("is / is not with something other than None")
                t, ty = self.expr0(e.left, env)
                if ty in ("OZ", "OIVL"):
                    r = f"(is_none {t})"
                elif ty in ("Z", "IVL"):
                    r = "false"
                else:
                    raise Unsupported(f"is None on {ty}")
                return (r if isinstance(op, ast.Is) else f"(negb {r})"), "B"
            a, _ = self.expr(e.left, env, "Z")
            b, _ = self.expr(rhs, env, "Z")
            sym = {ast.Lt: "<?", ast.LtE: "<=?", ast.Gt: ">?", ast.GtE: ">=?", ast.Eq: "=?"}
            if type(op) in sym:
                return f"({a} {sym[type(op)]} {b})", "B"
            if isinstance(op, ast.NotEq):
                return f"(negb ({a} =? {b}))", "B"
            raise Unsupported(f"comparison {type(op).__name__}")
        if isinstance(e, ast.BoolOp):
            # `x is not None and f(x)`: the operands to the right see x refined
            parts = []
            cur = env
            for v in e.values:
                parts.append(self.expr(v, cur, "B")[0])
                cur = self.refine(v, cur, isinstance(e.op, ast.And))
            sym = " && " if isinstance(e.op, ast.And) else " || "
            return "(" + sym.join(parts) + ")", "B"
        if isinstance(e, ast.UnaryOp):
            if isinstance(e.op, ast.Not):
                return f"(negb {self.expr(e.operand, env, 'B')[0]})", "B"
            if isinstance(e.op, ast.USub):
                return f"(- {self.expr(e.operand, env, 'Z')[0]})", "Z"
            raise Unsupported("unary operator")
        if isinstance(e, ast.BinOp):
            a, _ = self.expr(e.left, env, "Z")
            b, _ = self.expr(e.right, env, "Z")
            sym = {ast.Add: "+", ast.Sub: "-", ast.Mult: "*", ast.FloorDiv: "/", ast.Mod: "mod"}
            if type(e.op) in sym:
                return f"({a} {sym[type(e.op)]} {b})", "Z"
            raise Unsupported("binary operator")
        if isinstance(e, ast.Call):
            return self.call(e, env)
        if isinstance(e, ast.GeneratorExp):
            # (elt for x in stream if cond)  ->  map (fun x => elt) (filter (fun x => cond) stream)
            if len(e.generators) != 1:
                raise Unsupported("nested generator expression")
            g = e.generators[0]
            if g.is_async or not isinstance(g.target, ast.Name):
                raise Unsupported("generator expression target")
            src, _ = self.expr(g.iter, env, "LIST")
            inner = dict(env)
            inner[g.target.id] = "IVL"
            x = cname(g.target.id)
            for cond in g.ifs:
                c, _ = self.expr(cond, inner, "B")
                src = f"(filter (fun {x} => {c}) {src})"
            if isinstance(e.elt, ast.Name) and e.elt.id == g.target.id:
                return src, "LIST"
            elt, _ = self.expr(e.elt, inner, "IVL")
            return f"(map (fun {x} => {elt}) {src})", "LIST"
        raise Unsupported(f"expression {type(e).__name__}: {ast.unparse(e)}")

    def call(self, e, env):
        fn = ast.unparse(e.func)
        if fn in ("max", "min") and len(e.args) == 2 and not e.keywords:
            a, _ = self.expr(e.args[0], env, "Z")
            b, _ = self.expr(e.args[1], env, "Z")
            return f"(Z.{fn} {a} {b})", "Z"
        if fn == "Interval" and not e.args:
            kw = {k.arg: k.value for k in e.keywords}
            if set(kw) != {"start", "end"}:
                raise Unsupported("Interval(...) with other fields")
            a, _ = self.expr(kw["start"], env, "OZ")
            b, _ = self.expr(kw["end"], env, "OZ")
            return f"(mkI {a} {b} Plain)", "IVL"
        if fn == "replace" and len(e.args) == 1:
            x, _ = self.expr(e.args[0], env, "IVL")
            kw = {k.arg: k.value for k in e.keywords}
            if not set(kw) <= {"start", "end"}:
                raise Unsupported("replace(...) of other fields")
            a = self.expr(kw["start"], env, "OZ")[0] if "start" in kw else f"(st {x})"
            b = self.expr(kw["end"], env, "OZ")[0] if "end" in kw else f"(en {x})"
            return f"(set_span {x} {a} {b})", "IVL"
        if fn in self.calls:
            cn, argtys, ret = self.calls[fn]
            args = list(e.args)
            kws = {k.arg: k.value for k in e.keywords}
            if fn.endswith(".fetch"):
                # fetch(start, end, *, reverse=False)
                if len(args) != 2 or not set(kws) <= {"reverse"}:
                    raise Unsupported(f"call shape of {fn}")
                args = args + [kws.get("reverse", ast.Constant(False))]
            elif kws:
                raise Unsupported(f"keyword arguments of {fn}")
            if len(args) != len(argtys):
                raise Unsupported(f"arity of {fn}")
            ts = [self.expr(a, env, t)[0] for a, t in zip(args, argtys)]
            return "(" + " ".join([cn] + ts) + ")", ret
        if fn in self.known:
            cn, argtys, ret = self.known[fn]
            if e.keywords or len(e.args) != len(argtys):
                raise Unsupported(f"call shape of {fn}")
            ts = [self.expr(a, env, t)[0] for a, t in zip(e.args, argtys)]
            return "(" + " ".join([cn] + ts) + ")", ret
        raise Unsupported(f"call of {fn}")

    # `x is None` / `x is not None` tests on a plain name: flow refinement
    def refine_name(self, test):
        """-> (name, True if the name is not None when the test holds) or None"""
        if (isinstance(test, ast.Compare) and len(test.ops) == 1 and isinstance(test.left, ast.Name)
                and isinstance(test.comparators[0], ast.Constant) and test.comparators[0].value is None):
            if isinstance(test.ops[0], ast.IsNot):
                return test.left.id, True
            if isinstance(test.ops[0], ast.Is):
                return test.left.id, False
        return None

    def refine(self, test, env, holds):
        r = self.refine_name(test)
        if r is None:
            return env
        n, some_when_true = r
        if n not in env or env[n] not in ("OZ", "OIVL"):
            return env
        if some_when_true == holds:
            env = dict(env)
            env[n] = "Z" if env[n] == "OZ" else "IVL"
        return env

    # ---------------------------------------------------------------- statements
    def block(self, stmts, env, fin, ind):
        """Translate a statement list; `fin(env, kind)` gives the text for leaving the block
        (kind in end/continue/break/return)."""
        pad = "  " * ind
        if not stmts:
            return pad + fin(env, "end")
        s, rest = stmts[0], stmts[1:]
        if isinstance(s, ast.Expr) and isinstance(s.value, ast.Constant) and isinstance(s.value.value, str):
            return self.block(rest, env, fin, ind)           # docstring
        if isinstance(s, ast.Pass):
            return self.block(rest, env, fin, ind)
        if isinstance(s, (ast.Assign, ast.AnnAssign)):
            if isinstance(s, ast.Assign):
                if len(s.targets) != 1 or not isinstance(s.targets[0], ast.Name):
                    raise Unsupported("assignment target")
                name, value, decl = s.targets[0].id, s.value, None
            else:
                if not isinstance(s.target, ast.Name) or s.value is None:
                    raise Unsupported("annotated assignment")
                name, value, decl = s.target.id, s.value, ann_type(s.annotation)
            want = decl or self.declared.get(name)
            if want is None and isinstance(value, ast.Constant) and value.value is None and name in env:
                # `x = None` for a variable that already has a type: the option form of that type
                want = {"Z": "OZ", "IVL": "OIVL"}.get(env[name], env[name])
            t, ty = self.expr(value, env, want)
            if ty == "NONE":
                raise Unsupported(f"type of {name} = None unknown (annotate it)")
            env2 = dict(env)
            env2[name] = ty
            if decl:
                self.declared[name] = decl
            return f"{pad}let {cname(name)} := {t} in\n" + self.block(rest, env2, fin, ind)
        if isinstance(s, ast.Expr) and isinstance(s.value, ast.Yield):
            t, _ = self.expr(s.value.value, env, self.yield_type)
            return f"{pad}let out := out ++ [{t}] in\n" + self.block(rest, env, fin, ind)
        if isinstance(s, ast.Continue):
            return pad + fin(env, "continue")
        if isinstance(s, ast.Break):
            return pad + fin(env, "break")
        if isinstance(s, ast.Return):
            if s.value is not None:
                if self.ret_type is None:
                    raise Unsupported("return with a value in a generator")
                t, _ = self.expr(s.value, env, self.ret_type)
                return pad + t
            return pad + fin(env, "return")
        if isinstance(s, ast.If):
            ref = self.refine_name(s.test)
            if ref is not None and env.get(ref[0]) in ("OZ", "OIVL"):
                n, some_in_body = ref
                x = cname(n)
                inner = dict(env)
                inner[n] = "Z" if env[n] == "OZ" else "IVL"
                some_blk, none_blk = (s.body, s.orelse) if some_in_body else (s.orelse, s.body)
                a = self.block(list(some_blk) + rest, inner, fin, ind + 1)
                b = self.block(list(none_blk) + rest, env, fin, ind + 1)
                # inside the None branch the name still has its option type and equals None
                return (f"{pad}match {x} with\n{pad}| Some {x} =>\n{a}\n{pad}| None =>\n{b}\n{pad}end")
            c, _ = self.expr(s.test, env, "B")
            a = self.block(list(s.body) + rest, self.refine(s.test, env, True), fin, ind + 1)
            b = self.block(list(s.orelse) + rest, self.refine(s.test, env, False), fin, ind + 1)
            return f"{pad}if {c} then\n{a}\n{pad}else\n{b}"
        raise Unsupported(f"statement {type(s).__name__}: {ast.unparse(s)[:80]}")

    # ---------------------------------------------------------------- functions
    def function(self, fdef: ast.FunctionDef):
        spec = self.spec
        self.declared = dict(spec.get("locals", {}))
        self.yield_type = spec.get("yield_type", "IVL")
        kind = spec["kind"]
        env = {}
        params = []
        for pname, pty in spec["params"]:
            if isinstance(pty, str) and pty in COQ_TYPE:
                env[pname] = pty
                params.append(f"({cname(pname)} : {COQ_TYPE[pty]})")
            else:                      # a function-typed parameter given as Coq text
                params.append(f"({pname} : {pty})")
        # the Python parameters the spec does not mention must not be used
        name = spec["name"]
        body = [s for s in fdef.body]
        if kind == "expr":
            self.ret_type = spec["ret"]

            def fin(env_, k):
                raise Unsupported("function falls off its end without returning a value")
            text = self.block(body, env, fin, 1)
            return f"Definition {name} {' '.join(params)} : {COQ_TYPE[self.ret_type]} :=\n{text}.\n"
        self.ret_type = None
        # generator: prologue, at most one for loop, epilogue
        loops = [i for i, s in enumerate(body) if isinstance(s, ast.For)]
        if len(loops) > 1:
            raise Unsupported("more than one loop")
        for s in body:
            for sub in ast.walk(s):
                if isinstance(sub, (ast.While, ast.Try, ast.With, ast.Raise, ast.FunctionDef, ast.Lambda,
                                    ast.YieldFrom, ast.ListComp, ast.GeneratorExp)) or \
                        (isinstance(sub, ast.For) and sub is not s):
                    raise Unsupported(f"construct {type(sub).__name__}")
        out_list = f"list {self.out_type}"
        if not loops:
            def fin0(env_, k):
                if k in ("end", "return"):
                    return "out"
                raise Unsupported(f"{k} outside a loop")
            text = self.block(body, env, fin0, 1)
            return (f"Definition {name} {' '.join(params)} : {out_list} :=\n  let out := @nil {self.out_type} in\n"
                    f"{text}.\n")
        li = loops[0]
        pro, loop, epi = body[:li], body[li], body[li + 1:]
        if loop.orelse or not isinstance(loop.target, ast.Name):
            raise Unsupported("for/else or tuple loop target")
        assigned = set()
        for sub in ast.walk(ast.Module(body=loop.body, type_ignores=[])):
            if isinstance(sub, ast.Assign):
                for t in sub.targets:
                    if isinstance(t, ast.Name):
                        assigned.add(t.id)
            elif isinstance(sub, ast.AnnAssign) and isinstance(sub.target, ast.Name):
                assigned.add(sub.target.id)
        holder = {}

        def fin_pro(env_, k):
            if k != "end":
                raise Unsupported(f"{k} before the loop")
            state = [v for v in env_ if v in assigned and v not in dict(spec["params"])]
            state_ty = {}
            for v in state:
                ty = self.declared.get(v, env_[v])
                state_ty[v] = ty
            holder["state"] = state
            holder["state_ty"] = state_ty
            stream, _ = self.expr(loop.iter, env_, "LIST") if self.item_type == "IVL" else \
                (self.expr0(loop.iter, env_)[0], None)

            def pack(e2):
                items = [self.coerce(cname(v), e2[v], state_ty[v], f"(state variable {v})") for v in state]
                return "tt" if not items else (items[0] if len(items) == 1 else "(" + ", ".join(items) + ")")

            def unpack():
                names = [cname(v) for v in state]
                return "_" if not names else (names[0] if len(names) == 1 else "'(" + ", ".join(names) + ")")

            def fin_body(e2, k):
                ctl = {"end": "Cont", "continue": "Cont", "break": "Brk", "return": "Ret"}[k]
                return f"(out, {pack(e2)}, {ctl})"

            def fin_epi(e2, k):
                if k in ("end", "return"):
                    return "out"
                raise Unsupported(f"{k} after the loop")
            env_loop = dict(env_)
            for v in state:
                env_loop[v] = state_ty[v]
            env_item = dict(env_loop)
            env_item[loop.target.id] = self.item_type
            body_t = self.block(loop.body, env_item, fin_body, 3)
            # (variables assigned only inside the loop body are not in scope after the loop: a use
            #  there is an unknown name, i.e. Unsupported)
            epi_t = self.block(epi, env_loop, fin_epi, 3)
            nil = f"@nil {self.out_type}"
            return (f"run_for\n    (fun {unpack()} {cname(loop.target.id)} =>\n      let out := {nil} in\n{body_t})\n"
                    f"    (fun {unpack()} =>\n      let out := {nil} in\n{epi_t})\n"
                    f"    {pack(env_)} {stream}")
        text = self.block(pro, env, fin_pro, 1)
        return f"Definition {name} {' '.join(params)} : {out_list} :=\n{text}.\n"


def find_function(tree, cls, func):
    scope = tree.body
    if cls:
        for n in tree.body:
            if isinstance(n, ast.ClassDef) and n.name == cls:
                scope = n.body
                break
        else:
            raise Unsupported(f"class {cls} not found")
    for n in scope:
        if isinstance(n, ast.FunctionDef) and n.name == func:
            return n
    raise Unsupported(f"function {cls + '.' if cls else ''}{func} not found")


HEADER = """(* GENERATED on every run by harness/translate/pysrc.py from the Python sources of the tree
   under test — do not edit.  Each definition is the translation of one function's source text;
   Proofs/GenEq.v proves it equal to the hand-written model for all inputs. *)
From CG Require Import Model.Loop.

"""


def translate_all(repo: Path, specs):
    """-> (coq text, {name: error})"""
    out = [HEADER]
    errors = {}
    known = {}
    trees = {}
    for spec in specs:
        name = spec["name"]
        try:
            path = repo / spec["file"]
            if path not in trees:
                trees[path] = ast.parse(path.read_text())
            fdef = find_function(trees[path], spec.get("cls"), spec["func"])
            tr = Tr(spec, known)
            text = tr.function(fdef)
            out.append(f"(* {spec['file']}: {(spec.get('cls') + '.') if spec.get('cls') else ''}{spec['func']} *)\n" + text)
            if spec["kind"] == "expr":
                argtys = [t for _, t in spec["params"]]
                if all(isinstance(t, str) and t in COQ_TYPE for t in argtys):
                    known[spec.get("pyname", spec["func"])] = (name, argtys, spec["ret"])
        except (Unsupported, SyntaxError, OSError, KeyError) as ex:
            errors[name] = f"{type(ex).__name__}: {ex}"
            out.append(f"(* {name}: NOT TRANSLATED — {str(ex).replace('*)', '* )')} *)\n")
    return "\n".join(out), errors
