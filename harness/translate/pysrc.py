"""Tie C: a fail-closed translator from a small subset of Python to Gallina.

It turns the *source text* of selected calgebra functions into Gallina definitions, written to
coq/Gen/Source.v on every run.  Proofs/GenEq*.v prove, for ALL inputs, that each generated
definition equals the hand-written model function the property theorems speak about — so those
theorems are re-checked against what the code says now.  Anything outside the subset raises
Unsupported (the generated file then lacks the definition and the equivalence proof fails: a
broken proof obligation, never a silent pass).

The subset: straight-line integer / Optional code, `if`/`elif`/`else`, conditional expressions,
`max`/`min`, `x in list`, comparisons of an enum-typed value with string literals, list
comprehensions / generator expressions (-> map/filter), `reversed`, `list`, `len`, `range`,
`xs[i]`, `bisect.bisect_right(xs, v, key=lambda ...)`, `x += e`, one loop per function (a `for`
over a stream or a fuelled `while`) whose body may `yield` / `continue` / `break` / `return`,
`yield from`, `raise E(...)` before anything was yielded, calls of functions / methods the spec
declares (they become parameters of the generated definition), and *effect statements*
(`self._sink.add(x)`, `xs.append(x)`, `self.attr = e`): updates of declared state variables.

Kinds of function (spec["kind"]):
   expr   returns a value            result type T
   gen    a generator                result type  list T   (what it yields, in order)
   proc   mutates declared state     result type  the tuple of the final values of spec["state"]
With spec["res"] = True the result is wrapped in  res  (Model/Loop.v):
   RDone v | RRaise exception | RFuel (a fuelled `while` ran out of fuel) | RSkip (a branch the
   spec declares untranslated was reached) — never a normal-looking value for an abnormal exit.
`raise` and `while` are only accepted in such functions; a function with a `while` gets a leading
parameter (fuel : nat).

Types: Z (int), OZ (int | None), B (bool), IVL (an Interval), OIVL (Interval | None),
LIST (= L:IVL, a stream of Intervals), L:T (a list/stream of T), O:T (T | None, only tested
against None), NONE (the literal None before
unification), U (unit), plus the types a spec declares (spec["types"]: name -> Coq type;
spec["tyvars"]: implicit type parameters; spec["enums"]: name -> (eqb, {string literal: constructor})).
A type is never guessed: an expression whose type is not determined is Unsupported.

Optional values.  `if x is None` / `x if x is not None else d` on a plain NAME of option type
becomes a `match` that rebinds the name at the underlying type.  Any other None test (on an
attribute, or inside `and` / `or` / `not`) is tracked as a flow fact "this expression is not
None here"; an Optional may be used where an int is required ONLY under such a fact (then
`ozd e`), or if the spec lists the expression in "assume_not_none" (an explicit assumption the
equivalence theorem has to carry as a hypothesis) — otherwise Unsupported.  `a == b` / `a != b`
on Optionals compare as options (oZ_eqb); `x in xs` with x Optional is false for None.

Names.  The Python parameters the spec does not mention are not in scope.  Parameters of the
generated definition that are not Python parameters (self attributes, abstracted callees, state
variables) can never be bound by a Python local: an assignment to a name that would print as
one of them, as a Coq keyword substitute (`end_`), or as a global the generated text uses, is
Unsupported.

Translation scheme for statements (continuation = "the rest of the block"):
   x = e ; rest              let x := e in rest
   x += e ; rest             let x := x + e in rest
   if c: A else: B ; rest    if c then [A; rest] else [B; rest]           (rest duplicated), or, when
                             A and B only assign (no yield/continue/break/return/raise) and rest is
                             not empty, the join form
                                let '(v1, .., vn) := (if c then [A; (v1..vn)] else [B; (v1..vn)]) in rest
                             over the variables assigned in A or B that are defined on every path
   if x is None: A else: B   match x with None => [A; rest] | Some x => [B; rest] end   (x a name)
   yield e ; rest            let out := out ++ [e] in rest
   yield from e ; rest       let out := out ++ e in rest
   effect statement          let <state var> := <update> in rest
   raise E(..)               RRaise E
   end of function           out            (gen) | the state tuple (proc)
   return [e]                out (gen) | e (expr) | the state tuple (proc)
Loops (Model/Loop.v), state = the tuple of variables assigned in the body that exist before it:
   gen:   for x in s: BODY ; rest     run_for (fun state x => BODY) (fun state => rest) state s
          while c: BODY ; rest        run_while fuel (fun state => c) (fun state => BODY) (fun state => rest) state
          BODY ends in (out, state, Cont | Brk | Ret)
   expr / proc:
          for x in s: BODY ; rest     iter_for (fun state x => BODY) (fun state => rest) state s
          while c: BODY ; rest        iter_while fuel (fun state => c) (fun state => BODY) (fun state => rest) state
          BODY ends in SCont state | SBrk state | SRet <result of the function>
          `try: return f(..) except E: H` with f declared "raises" (returning an option):
                                      match f .. with Some v => return v | None => H end
          (a bare `raise` in H re-raises E; a call declared "raises" is Unsupported anywhere else)
          `try: <effect> except E: H` with the effect declared raises=(E, <test that it succeeds>):
                                      if <test> then [effect; rest] else [H; rest]
Containers: a value of a spec["tuples"] type is a left-nested Coq product, t[k] (k a literal) its
component; `a, _, c = pop(container)` / `x = pop(container)` for a callee in spec["pops"] binds the
components of the value the spec gives and then updates the state variable holding the container
(heapq.heappop on the model's sorted list: hd / tl).

What a spec may declare, and what each declaration is trusted for (the equivalence theorems are
about the generated text *under these readings*):
   selfattrs   self.<attr> is this parameter of this type
   calls / methods / attrs / binops
               a library call or an operation on an abstract type is this parameter (keyword
               arguments listed under "fixed" must be spelled exactly so in the source)
   effects / pops
               a method call statement updates this state variable in this way (library model)
   assume_not_none
               this Optional expression is an int wherever it is used as one
   skip_branches
               the `if` branches with exactly these tests are not translated: reaching one gives RSkip
   stop_after_loop
               only the statements up to and including the first loop are translated

Second extension (Intersection._sweep / _SourceState, __getitem__, the cache, the fetch / overlapping wrappers,
_occurrence_to_interval, _period_windows_with_dt):

Classes as records (spec["records"]: type -> coq record, constructor, fields, default).  An object of a small
class is a Gallina record; the spec names the record (a type of the model, as `ivl` is) and the translator
checks it against the class: every attribute any method stores on self must be a declared field, the
annotations of __init__ must give the declared field types, the class has no bases / decorators / attribute
hooks.  kind "init": __init__ first stores every field (from expressions that do not mention self), then the
object exists.  kind "method": a method that updates self returns (self afterwards, result); a method that
does not (spec "method_of", kind "expr") returns its result; any store on self in it is Unsupported.
      v.attr                (proj v)
      v.attr = e            let v := mk (p1 v) .. e .. (pn v) in
      v.m(args)  / x = v.m(args) / return v.m(args)          (m updates v)
                            let '(v, m1_) := g_m v args in ..   — only as a statement or unconditionally in the
                            right-hand side of an assignment / a return, v not used elsewhere in that statement
Objects are mutable, so NAMES matter.  The accepted ways to hold a record: a fresh object from its
constructor; a list built by a comprehension of constructor calls; `v = L[i]` (i a constant or a name) which
makes v an ALIAS into the local list L: every update of v is followed at once by
`let L := py_set_index L i v in`; when L or i is re-assigned, or L is updated through any(..), v goes out of
scope.  Unsupported: a second alias into the same list, a second name for a list of records, a copy of such a
list (comprehension over it, list(), reversed()), append of a record, an update through the target of a
`for` / comprehension (an item of the list being iterated), an update of a parameter (the caller of the
generated definition would not see it).
      x = any(v.m(args) for v in L)            let '(L, x) := any_mut (fun v_ => g_m v_ args) L in
      x = any(L[i].m(args) for i in IDX)       let '(L, x) := any_mut_at default (fun v_ => ..) L IDX in
                            (m updates its receiver and returns a bool; the calls stop at the first True:
                             Model/Loop.v.  all(..) / any([..]) over such calls are Unsupported.)
      all(e for x in s) / any(..)  (pure)      forallb / existsb;  max / min of a generator: py_max / py_min
      try: T = next(IT); <statements without calls>  except StopIteration: H      (T, IT: names or fields)
                            match <items left> with v_ :: it_ => IT := it_; T := v_; .. | [] => H end
frozenset[int] (type FS): TRUSTED READING — the ascending list of its distinct members, iterated in that
order (fs_of_list).  CPython iterates the hash table in slot order: ascending when every member is smaller
than the table size (always for members < 8 and for range(n)); frozenset({1, 8}) iterates 8 first.  Only
`for`, comprehensions, len and frozenset(..) are accepted on it.
A `for` directly inside a generator's loop becomes sub_for (its `continue` / `break` only); a generator loop
whose body calls a generated function with a res result becomes run_for_r.
Calls of generated functions with a res result (spec calls: res=True, fuel=True): only unconditionally in the
right-hand side of an assignment, a return, or the iterable of a nested for:
      x = f(args); rest     res_bind (g_f fuel args) (fun r1_ => let x := r1_ in rest)
Sum types (spec["sums"]: type -> coq inductive, constructors with fields, and per constructor the text of
every source expression about such a value: `isinstance(x, int)`, `x is None`, `int(x.timestamp())`, ...).
The first statement that looks at a sum-typed name becomes `match x with | C fields => ..` and, inside each
arm, tests on x are the constants the spec gives, so only the branch that runs for C is translated (`raise`
gives RRaise).  An expression the spec marks undefined for a constructor is Unsupported if it is reached.
Dictionaries (spec["dicts"]): the list of (key, value) pairs in insertion order with == on keys as a spec
parameter: {k: v for x in l} = dict_of, d[k] = dict_get, d1.keys() & d2.keys() = keys_inter — TRUSTED READING:
iterated in the insertion order of d1 (Python leaves the order of that set unspecified).
Further: tuple assignment `a, b = e1, e2`; tuples of a declared tuple type; list literals; `return ()`;
enumerate in a comprehension; `with <expr in spec with_ok>:` transparent; effects on several state variables
(spec effects: vars=[..], optionally res / fuel) and with keyword arguments mapped to Coq text (kwmap);
kind "proc" with yields=True (result: the state tuple and what was yielded); comparisons of abstract types
(spec cmpops); `int(x)` of an int; spec annotations; spec file_has (module-level statements the reading of
a name depends on, e.g. `from datetime import datetime`); STRLIT arguments (string literals that only feed a
message); spec returned_generator: `def g(): ..; return g()` read as the generator itself; decorators other
than @override / @property are Unsupported.
"""
from __future__ import annotations

import ast
import re
from pathlib import Path


class Unsupported(Exception):
    pass


# extension points (tie C, third extension): handlers registered by harness/translate/pysrc_rec.py.  Each is
# consulted only for a spec that opts in (spec["rec_ext"]) and returns None when it does not apply, in which
# case the translation goes on exactly as before.
REC_EXPR_HOOKS = []       # (tr, e, env, want) -> (text, type) | None
REC_STMT_HOOKS = []       # (tr, stmts, env, fin, ind) -> text | None
REC_COERCE_HOOKS = []     # (tr, text, ty, want, e, env) -> text | None
REC_FUNC_HOOKS = []       # (tr, fdef) -> fdef


RESERVED = {"end": "end_", "at": "at_", "in": "in_", "fun": "fun_", "match": "match_", "with": "with_",
            "return": "return_", "then": "then_", "else": "else_", "let": "let_", "fix": "fix_",
            "Type": "Type_", "Set": "Set_", "Prop": "Prop_", "forall": "forall_", "exists": "exists_",
            "as": "as_", "using": "using_", "where": "where_", "left": "left_", "right": "right_",
            "gap": "gap_", "cur": "cur_", "rest": "rest_", "st": "st_", "en": "en_", "pl": "pl_",
            "interval": "interval_", "ivl": "ivl_", "out": "out_", "run_for": "run_for_", "fstart": "fstart_",
            "fend": "fend_", "ozd": "ozd_", "is_none": "is_none_", "set_span": "set_span_", "mkI": "mkI_",
            "now": "now_", "cover": "cover_", "sink": "sink_", "heap": "heap_", "fuel": "fuel_",
            "rev": "rev_", "filter": "filter_", "map": "map_", "length": "length_", "app": "app_",
            "nat": "nat_", "list": "list_", "option": "option_", "bool": "bool_", "unit": "unit_",
            "fst": "fst_", "snd": "snd_", "negb": "negb_", "true": "true_", "false": "false_", "tt": "tt_",
            "Some": "Some_", "None": "None_", "nil": "nil_", "cons": "cons_", "Z": "Z_", "N": "N_",
            "step": "step_", "bound": "bound_", "slice": "slice_", "fetch": "fetch_", "key": "key_"}

# globals the generated text may mention (besides what a spec names): never bindable by a Python local
EMITTED = {"out1_", "v_", "it_", "oivld", "sub_while", "run_for_o", "run_while", "iter_for", "iter_while", "SCont", "SBrk", "SRet", "Cont", "Brk", "Ret", "RDone", "RRaise",
           "RFuel", "RSkip", "res", "zmem", "oZ_eqb", "nonempty", "py_index", "zrange", "bisect_right",
           "Plain", "NEG_INF", "POS_INF", "ValueError", "TypeError", "KeyError", "IndexError", "freq_eqb",
           "Daily", "Weekly", "Monthly", "Yearly", "sl_add", "sl_remove", "fetch_static", "cov_add", "cov_remove",
           "heap_push", "ivl", "ctl", "step", "exn",
           "res_bind", "sub_for", "py_set_index", "list_set_nat", "any_mut", "any_mut_at", "py_max", "py_min",
           "py_enumerate", "fs_of_list", "fs_insert", "forallb", "existsb", "combine", "r_", "m_", "b_",
           "run_for_r", "opt_eqb", "dict_set", "dict_of", "dict_get", "dict_has", "keys_inter", "N_plus_Z", "x_"}

EMITTED |= {"pym_iter_for_r", "pym_dd_append", "pym_sort_fst", "fold_left"}      # third extension (metrics)

COQ_TYPE = {"Z": "Z", "OZ": "option Z", "B": "bool", "IVL": "ivl", "OIVL": "option ivl",
            "LIST": "list ivl", "U": "unit", "FS": "list Z"}

GLOBAL_CONSTS = {"NEG_INF": ("NEG_INF", "Z"), "POS_INF": ("POS_INF", "Z"),
                 "DAY": ("86400", "Z"), "WEEK": ("604800", "Z"), "HOUR": ("3600", "Z"), "MINUTE": ("60", "Z")}

EXCEPTIONS = {"ValueError", "TypeError", "KeyError", "IndexError"}

OPT = {"OZ": "Z", "OIVL": "IVL"}          # option type -> what it holds
SOME = {v: k for k, v in OPT.items()}     # and back


def cname(n):
    if n.startswith("@"):
        return n[1:]
    return RESERVED.get(n, n)


def ann_type(node):
    """type annotation -> our type"""
    s = ast.unparse(node).replace(" ", "")
    table = {"int": "Z", "int|None": "OZ", "bool": "B",
             "Interval": "IVL", "Ivl": "IVL", "IvlOut": "IVL",
             "Interval|None": "OIVL", "Ivl|None": "OIVL", "IvlOut|None": "OIVL",
             "Iterable[Interval]": "LIST", "Iterable[Ivl]": "LIST", "Iterable[IvlOut]": "LIST",
             "list[Interval]": "LIST", "list[Ivl]": "LIST", "list[IvlOut]": "LIST", "list[int]": "L:Z",
             "Iterator[Interval]": "LIST", "frozenset[int]": "FS"}
    if s in table:
        return table[s]
    raise Unsupported(f"annotation {s}")


def base_name(e):
    """the name an attribute chain starts from, or None"""
    while isinstance(e, ast.Attribute):
        e = e.value
    return e.id if isinstance(e, ast.Name) else None


def is_path(e):
    return isinstance(e, ast.Name) or (isinstance(e, ast.Attribute) and base_name(e) is not None)


class Tr:
    """translator of one function"""

    def __init__(self, spec, known_funcs):
        self.spec = spec
        self.known = known_funcs          # python name -> (coq name, [arg types], ret type)
        self.selfattrs = spec.get("selfattrs", {})       # attr -> (coq param, type)
        self.calls = spec.get("calls", {})               # unparsed callee -> call spec (or a list of them)
        self.methods = spec.get("methods", {})           # (receiver type, method) -> call spec
        self.attrs = spec.get("attrs", {})               # (receiver type, attribute) -> (coq function, type)
        self.binops = spec.get("binops", {})             # (type, op, type) -> (coq function, type)
        self.cmpops = spec.get("cmpops", {})             # (type, comparison, type) -> coq function to bool
        self.annotations = spec.get("annotations", {})   # source text of an annotation -> type
        self.effects = spec.get("effects", {})           # unparsed callee -> dict(var, args, update)
        self.enums = spec.get("enums", {})               # type -> (eqb, {literal: constructor})
        self.tuples = spec.get("tuples", {})             # type -> [component types] (a left-nested Coq product)
        self.pops = spec.get("pops", {})                 # unparsed callee -> dict(arg, var, result, update, ret)
        self.text_exprs = spec.get("text_exprs", {})     # exact source text of an expression -> (coq text, type)
        self.inline = set(spec.get("inline", []))        # local closures (no parameters) inlined at their calls
        self.closures = {}
        self.opt_body = False                            # inside the body of a run_for_o loop
        self.types = dict(COQ_TYPE)
        self.types.update(spec.get("types", {}))
        self.defaults = {"IVL": "(mkI None None Plain)", "Z": "0"}
        self.defaults.update(spec.get("defaults", {}))
        self.assume_nn = set(spec.get("assume_not_none", []))
        self.skip_tests = set(spec.get("skip_branches", []))   # unparsed `if` tests whose branch is not translated
        self.item_type = spec.get("item_type")           # (older specs) item type of the loop's stream
        self.out_type = spec.get("out_type", "ivl")
        self.state = list(spec.get("state", []))         # coq parameter names returned by a proc
        self.res = bool(spec.get("res", False))
        self.kind = spec["kind"]
        self.loop_depth = 0
        self.plain = 0                                   # > 0: inside text that must not produce res values
        # records: type -> dict(coq, mk, cls, fields=[(python attribute, coq projection, type)], default)
        self.records = spec.get("records", {})
        for rt, rd in self.records.items():
            self.types[rt] = rd["coq"]
            self.defaults[rt] = rd["default"]
        # methods of record classes translated earlier: (record type, python name) ->
        #   dict(coq, args, ret, mutates)
        self.rec_methods = {k: v for k, v in known_funcs.items() if isinstance(k, tuple)}
        self.mut_names = {k[1] for k, v in self.rec_methods.items() if v["mutates"]}
        self.res_body = False                            # inside the body of a run_for_r loop
        self.hoist = None                                # list of pending prefixes while a statement's
        self.cond_depth = 0                              #   expression is translated (see hoisted())
        self.fresh = 0
        self.uses_fuel = False
        # sum types: type -> dict(coq, ctors=[(constructor, [(field, type)])],
        #                         exprs={constructor: {source text with {x}: (coq text with field names, type)}})
        # dicts: type -> dict(key=type, val=type, eqb=coq text of == on keys)
        self.dicts = spec.get("dicts", {})
        for dn, dd in self.dicts.items():
            self.types[dn] = f"list ({self.coq_type(dd['key'])} * {self.coq_type(dd['val'])})"
        self.with_ok = set(spec.get("with_ok", []))
        self.sums = spec.get("sums", {})
        for stn, sd in self.sums.items():
            self.types[stn] = sd["coq"]

    # ---------------------------------------------------------------- types
    def is_type(self, t):
        return isinstance(t, str) and (t in self.types or (t[:2] in ("L:", "O:") and self.is_type(t[2:])))

    def coq_type(self, t):
        if t in self.types:
            return self.types[t]
        if t[:2] in ("L:", "O:"):
            inner = self.coq_type(t[2:])
            return ("list " if t[0] == "L" else "option ") + (inner if " " not in inner else f"({inner})")
        raise Unsupported(f"type {t}")

    def item_of(self, t):
        if t == "LIST":
            return "IVL"
        if t == "FS":
            return "Z"
        if t.startswith("L:"):
            return t[2:]
        raise Unsupported(f"{t} is not a list type")

    @staticmethod
    def is_list(t):
        return t in ("LIST", "FS") or t.startswith("L:")

    def same(self, a, b):
        norm = lambda t: "L:IVL" if t == "LIST" else t
        return norm(a) == norm(b)

    # ---------------------------------------------------------------- environments
    # env: python name (or "@state parameter") -> type, plus "$nn": expressions known not to be None
    # here, "$y": something may have been yielded on this path
    @staticmethod
    def nn(env):
        return env.get("$nn", frozenset())

    def known_some(self, e, env):
        s = ast.unparse(e)
        return s in self.nn(env) or s in self.assume_nn

    @staticmethod
    def with_nn(env, exprs):
        if not exprs:
            return env
        env = dict(env)
        env["$nn"] = frozenset(env.get("$nn", frozenset()) | set(exprs))
        return env

    @staticmethod
    def kill(env, name):
        """forget the flow facts about a name that is being assigned"""
        keep = frozenset(s for s in env.get("$nn", frozenset())
                         if s != name and not s.startswith(name + ".") and not s.startswith(name + "["))
        env = dict(env)
        env["$nn"] = keep
        return env

    def bind(self, env, name, ty):
        """a Python local gets a (new) value"""
        c = cname(name)
        if not name.startswith("@"):
            if c in self.genparams or c in EMITTED or c in self.spec_names or \
                    (name in RESERVED.values()) or name.startswith("g_"):
                raise Unsupported(f"local name {name} would capture a name of the generated text")
        env = self.kill(env, name)
        env = self.drop_aliases(env, name)
        env[name] = ty
        if name in env.get("$borrowed", ()):
            env["$borrowed"] = frozenset(env["$borrowed"]) - {name}
        if ty in self.sums:
            self.sum_names.add(name)
            if name in env.get("$ctor", {}):
                env = dict(env)
                env["$ctor"] = {k: v for k, v in env["$ctor"].items() if k != name}
        return env

    # aliases: env["$alias"][v] = (L, index text, names in the index) after `v = L[i]` where L is a local
    # list of records: v is the SAME object as L[i], so every update of v is written back into L at once
    # (py_set_index); when L or the index is re-assigned, v goes out of scope (its copy could be stale).
    def drop_aliases(self, env, name):
        al = env.get("$alias")
        if not al:
            return env
        keep, stale = {}, []
        for a, (lst, idx, names) in al.items():
            if a == name:
                continue
            if lst == name or name in names:
                stale.append(a)
            else:
                keep[a] = (lst, idx, names)
        env = dict(env)
        env["$alias"] = keep
        for a in stale:
            env.pop(a, None)
        return env

    def write_back(self, env, v, pad):
        al = env.get("$alias", {}).get(v)
        if al is None:
            return ""
        lst, idx, _ = al
        return f"{pad}let {cname(lst)} := (py_set_index {cname(lst)} {idx} {cname(v)}) in\n"

    def new_var(self, stem):
        self.fresh += 1
        return f"{stem}{self.fresh}_"

    # ---------------------------------------------------------------- expressions
    def coerce(self, text, ty, want, what="", e=None, env=None):
        if want is None or ty == want or (self.is_list(ty) and self.is_list(want) and self.same(ty, want)):
            return text
        if ty == "NONE" and want in OPT:
            return "None"
        if isinstance(want, str) and want.startswith("O:") and ty == "NONE":
            return "None"                            # (tsmall) None stored / returned as a declared O:T
        if isinstance(want, str) and want == "O:" + str(ty):
            return f"(Some {text})"                  # (tsmall) a T stored / returned as a declared O:T
        if ty == "Z" and want == "N" and re.fullmatch(r"[0-9]+", text):
            return f"{text}%N"                       # (tsmall) a non-negative int literal stored in a counter
        if ty in SOME and want == SOME[ty]:
            return f"(Some {text})"
        if ty == "OZ" and want == "Z":
            if e is not None and env is not None and is_path(e) and self.known_some(e, env):
                return f"(ozd {text})"
            raise Unsupported(f"Optional {what} used as an int without a None test")
        if ty == "OIVL" and want == "IVL":
            if e is not None and env is not None and is_path(e) and self.known_some(e, env):
                return f"(oivld {text})"
            raise Unsupported(f"Optional {what} used as an Interval without a None test")
        if self.is_list(ty) and want == "B":
            return f"(nonempty {text})"
        if ty == "OIVL" and want == "B":
            return f"(negb (is_none {text}))"        # an Interval object is always truthy
        r = pysrc_mem.coerce_hook(self, text, ty, want)          # (extension mem)
        if r is not None:
            return r
        if (ty, want) in self.spec.get("coercions", {}):
            # (third extension, metrics) a declared subtype / union reading: spec coercions {(from, to): coq function}
            return f"({self.spec['coercions'][(ty, want)]} {text})"
        if (ty, want) in self.spec.get("injections", {}):
            # (tag filt) a value of a declared type used where a declared sum of types is wanted
            return self.spec["injections"][(ty, want)].format(text)
        for h in REC_COERCE_HOOKS:
            r = h(self, text, ty, want, e, env)
            if r is not None:
                return r
        raise Unsupported(f"cannot use {ty} as {want} {what}")

    def unify(self, t1, t2):
        if t1 == t2 or (self.is_list(t1) and self.is_list(t2) and self.same(t1, t2)):
            return t1
        pair = {t1, t2}
        if pair == {"NONE", "Z"} or pair == {"NONE", "OZ"} or pair == {"Z", "OZ"}:
            return "OZ"
        if pair == {"NONE", "IVL"} or pair == {"NONE", "OIVL"} or pair == {"IVL", "OIVL"}:
            return "OIVL"
        raise Unsupported(f"cannot unify {t1} and {t2}")

    def expr(self, e, env, want=None):
        text, ty = self.expr0(e, env, want)
        return self.coerce(text, ty, want, ast.unparse(e), e, env), (want or ty)

    def expr0(self, e, env, want=None):
        if want == "FUN":
            return self.fun_arg(e, env), "FUN"          # (third extension, metrics) a function passed as a value
        if self.spec.get("filt_ext"):                    # (tag filt: handlers in pysrc_filt.py)
            from . import pysrc_filt
            r = pysrc_filt.filt_expr(self, e, env, want)
            if r is not None:
                return r
        if self.text_exprs and ast.unparse(e) in self.text_exprs:
            return self.text_exprs[ast.unparse(e)]
        if self.sums:
            r = self.sum_expr(e, env)
            if r is not None:
                return r
        if isinstance(e, ast.Constant) and type(e.value) is float and self.spec.get("ratio_type"):
            return self.met_float_const(e)              # (third extension, metrics)
        for h in REC_EXPR_HOOKS:
            r = h(self, e, env, want)
            if r is not None:
                return r
        if isinstance(e, ast.Constant):
            if e.value is None:
                return "None", "NONE"
            if e.value is True:
                return "true", "B"
            if e.value is False:
                return "false", "B"
            if isinstance(e.value, int):
                return (f"({e.value})" if e.value < 0 else str(e.value)), "Z"
            if isinstance(e.value, str) and want in self.enums:
                lit = self.enums[want][1]
                if e.value in lit:
                    return lit[e.value], want
            raise Unsupported(f"constant {e.value!r}")
        if isinstance(e, ast.Name):
            if e.id in env and not e.id.startswith(("$", "@")):
                return cname(e.id), env[e.id]
            if e.id in GLOBAL_CONSTS and e.id not in env:
                return GLOBAL_CONSTS[e.id]
            raise Unsupported(f"unknown name {e.id}")
        if isinstance(e, ast.Attribute):
            if isinstance(e.value, ast.Name) and e.value.id == "self" and "self" not in env:
                if e.attr in self.selfattrs:
                    return self.selfattrs[e.attr]
                raise Unsupported(f"self.{e.attr}")
            vt, vty = self.expr0(e.value, env)
            if vty == "OIVL" and is_path(e.value) and self.known_some(e.value, env):
                vt, vty = f"(oivld {vt})", "IVL"
            if vty == "IVL":
                m = {"start": (f"(st {vt})", "OZ"), "end": (f"(en {vt})", "OZ"),
                     "finite_start": (f"(fstart {vt})", "Z"), "finite_end": (f"(fend {vt})", "Z")}
                if e.attr in m:
                    return m[e.attr]
            if vty in self.records:
                for py, proj, ty in self.records[vty]["fields"]:
                    if py == e.attr:
                        return f"({proj} {vt})", ty
                raise Unsupported(f"attribute .{e.attr} of the record {vty}")
            if (vty, e.attr) in self.attrs:
                fn, ty = self.attrs[(vty, e.attr)]
                return f"({fn} {vt})", ty
            raise Unsupported(f"attribute .{e.attr} of {vty}")
        if isinstance(e, (ast.IfExp, ast.BoolOp, ast.GeneratorExp, ast.ListComp, ast.Lambda)):
            self.cond_depth += 1
            try:
                return self.expr0_cond(e, env, want)
            finally:
                self.cond_depth -= 1
        return self.expr0_rest(e, env, want)

    def expr0_cond(self, e, env, want):
        if isinstance(e, ast.Lambda):
            raise Unsupported("lambda")
        if isinstance(e, ast.IfExp):
            c, _ = self.expr(e.test, env, "B")
            ref = self.refine_name(e.test)
            if c in ("true", "false") and not (ref is not None and env.get(ref[0]) in OPT):
                # a test decided by a known constructor: only the branch that runs is translated
                live = e.body if c == "true" else e.orelse
                return self.expr0(live, self.refine(e.test, env, c == "true"), want)
            if ref is not None and env.get(ref[0]) in OPT:
                # `x if x is not None else d`: the name is rebound at the underlying type
                n, some_in_body = ref
                inner = dict(env)
                inner[n] = OPT[env[n]]
                ea, eb = (inner, env) if some_in_body else (env, inner)
            else:
                ea, eb = self.refine(e.test, env, True), self.refine(e.test, env, False)
            a, ta = self.expr0(e.body, ea, want)
            b, tb = self.expr0(e.orelse, eb, want)
            ty = self.unify(ta, tb) if want is None else want
            if ty == "NONE":
                raise Unsupported("conditional expression of unknown option type")
            a = self.coerce(a, ta, ty, ast.unparse(e.body), e.body, ea)
            b = self.coerce(b, tb, ty, ast.unparse(e.orelse), e.orelse, eb)
            if ref is not None and env.get(ref[0]) in OPT:
                n, some_in_body = ref
                x = cname(n)
                if some_in_body:
                    return f"(match {x} with Some {x} => {a} | None => {b} end)", ty
                return f"(match {x} with None => {a} | Some {x} => {b} end)", ty
            return self.simp_if(c, a, b), ty
        if isinstance(e, ast.BoolOp):
            # `x is not None and f(x)`: the operands to the right see the flow fact
            parts = []
            cur = env
            for v in e.values:
                parts.append(self.expr(v, cur, "B")[0])
                cur = self.refine(v, cur, isinstance(e.op, ast.And))
            return self.simp_bool(parts, isinstance(e.op, ast.And)), "B"
        return self.comprehension(e, env, want)

    @staticmethod
    def simp_if(c, a, b):
        if c == "true":
            return a
        if c == "false":
            return b
        return f"(if {c} then {a} else {b})"

    @staticmethod
    def simp_bool(parts, is_and):
        """&& / || with the constants true / false folded away (they arise from tests on a value whose
        constructor is known)"""
        unit, zero = ("true", "false") if is_and else ("false", "true")
        out = []
        for t in parts:
            if t == unit:
                continue
            out.append(t)
            if t == zero:
                break
        if out and out[-1] == zero:
            # everything before a constant `zero` is still evaluated by Python, but it is pure: the value is `zero`
            return zero
        if not out:
            return unit
        if len(out) == 1:
            return out[0]
        return "(" + (" && " if is_and else " || ").join(out) + ")"

    def expr0_rest(self, e, env, want):
        r = pysrc_mem.expr_hook(self, e, env, want)              # (extension mem)
        if r is not None:
            return r
        if isinstance(e, ast.Compare):
            return self.compare(e, env)
        if isinstance(e, ast.UnaryOp):
            if isinstance(e.op, ast.Not):
                t = self.expr(e.operand, env, 'B')[0]
                return {"true": "false", "false": "true"}.get(t, f"(negb {t})"), "B"
            if isinstance(e.op, ast.USub):
                return f"(- {self.expr(e.operand, env, 'Z')[0]})", "Z"
            if isinstance(e.op, ast.Invert) and self.spec.get("unops"):
                # (tsmall) `~x` on an abstract type: the function the spec declares for it
                t, ty = self.expr0(e.operand, env)
                if (ty, "~") in self.spec["unops"]:
                    fn_, rty = self.spec["unops"][(ty, "~")]
                    return f"({fn_} {t})", rty
            raise Unsupported("unary operator")
        # ---- third extension (metrics): x[a:b] on a declared timeline type, int / int as an exact ratio,
        # defaultdict(list)
        if isinstance(e, ast.Subscript) and isinstance(e.slice, ast.Slice) and self.spec.get("slices"):
            return self.met_slice(e, env)
        if isinstance(e, ast.BinOp) and isinstance(e.op, ast.Div) and self.spec.get("ratio_type"):
            return self.met_ratio(e, env)
        if isinstance(e, ast.Call) and ast.unparse(e) == "defaultdict(list)" and want in self.dicts and \
                self.dicts[want].get("defaultdict"):
            return self.met_defaultdict(e, env, want)
        if isinstance(e, ast.BinOp) and isinstance(e.op, ast.BitAnd):
            # d1.keys() & d2.keys()
            ds = []
            for side in (e.left, e.right):
                if not (isinstance(side, ast.Call) and isinstance(side.func, ast.Attribute) and side.func.attr == "keys"
                        and not side.args and not side.keywords):
                    raise Unsupported("binary operator &")
                ds.append(self.expr0(side.func.value, env))
            (a, ta), (b, tb) = ds
            if ta not in self.dicts or tb not in self.dicts or self.dicts[ta]["key"] != self.dicts[tb]["key"] or \
                    self.dicts[ta]["eqb"] != self.dicts[tb]["eqb"]:
                raise Unsupported(f"keys() & keys() of {ta} and {tb}")
            return f"(keys_inter {self.dicts[ta]['eqb']} {a} {b})", "L:" + self.dicts[ta]["key"]
        if isinstance(e, ast.DictComp):
            if len(e.generators) != 1 or e.generators[0].ifs or e.generators[0].is_async or \
                    not isinstance(e.generators[0].target, ast.Name):
                raise Unsupported("dict comprehension shape")
            g = e.generators[0]
            src, sty = self.expr0(g.iter, env)
            if not self.is_list(sty):
                raise Unsupported(f"comprehension over {sty}")
            inner = self.bind(env, g.target.id, self.item_of(sty))
            x = cname(g.target.id)
            self.cond_depth += 1
            try:
                k, kty = self.expr0(e.key, inner)
                v, vty = self.expr0(e.value, inner)
            finally:
                self.cond_depth -= 1
            for dn, dd in self.dicts.items():
                if dd["key"] == kty and dd["val"] == vty:
                    return f"(dict_of {dd['eqb']} (fun {x} => {k}) (fun {x} => {v}) {src})", dn
            raise Unsupported(f"no declared dict type for keys {kty} and values {vty}")
        if isinstance(e, ast.BinOp):
            sym = {ast.Add: "+", ast.Sub: "-", ast.Mult: "*", ast.FloorDiv: "/", ast.Mod: "mod"}
            if type(e.op) not in sym:
                raise Unsupported("binary operator")
            if self.binops:
                a, ta = self.expr0(e.left, env)
                b, tb = self.expr0(e.right, env)
                if (ta, sym[type(e.op)], tb) in self.binops:
                    fn, ty = self.binops[(ta, sym[type(e.op)], tb)]
                    return f"({fn} {a} {b})", ty
            a, _ = self.expr(e.left, env, "Z")
            b, _ = self.expr(e.right, env, "Z")
            return f"({a} {sym[type(e.op)]} {b})", "Z"
        if isinstance(e, ast.Call) and ast.unparse(e) in self.spec.get("empty_calls", ()) and \
                want is not None and self.is_list(want):
            # (tsmall) a constructor call the spec declares to build an empty store (typed by its target)
            return f"(@nil {self.coq_type(self.item_of(want))})", want
        if isinstance(e, ast.Call):
            return self.call(e, env)
        if isinstance(e, ast.List) and e.elts:
            if want is not None and self.is_list(want):
                ity = self.item_of(want)
            else:
                ity = self.expr0(e.elts[0], env)[1]
                if ity in ("NONE",) or not self.is_type(ity):
                    raise Unsupported("list literal of unknown element type")
            ts = [self.expr(x, env, ity)[0] for x in e.elts]
            return "[" + "; ".join(ts) + "]", ("LIST" if ity == "IVL" else "L:" + ity)
        if isinstance(e, ast.Tuple) and e.elts and want in self.tuples:
            comps = self.tuples[want]
            if len(comps) != len(e.elts):
                raise Unsupported(f"tuple of {len(e.elts)} components used as {want}")
            return "(" + ", ".join(self.expr(x, env, t)[0] for x, t in zip(e.elts, comps)) + ")", want
        if isinstance(e, ast.Tuple) and not e.elts and want is not None and self.is_list(want):
            return f"(@nil {self.coq_type(self.item_of(want))})", want      # `return ()`: an empty iterable
        if isinstance(e, ast.List) and not e.elts:
            if want is not None and self.is_list(want):
                return f"(@nil {self.coq_type(self.item_of(want))})", want
            raise Unsupported("empty list of unknown type (annotate it)")
        if isinstance(e, ast.Subscript):
            xs, xty = self.expr0(e.value, env)
            if xty in self.dicts:
                dd = self.dicts[xty]
                if dd["val"] not in self.defaults:
                    raise Unsupported(f"subscript of a dict of {dd['val']}")
                k, _ = self.expr(e.slice, env, dd["key"])
                return f"(dict_get {dd['eqb']} {self.defaults[dd['val']]} {k} {xs})", dd["val"]
            if xty in self.tuples:
                comps = self.tuples[xty]
                if not (isinstance(e.slice, ast.Constant) and isinstance(e.slice.value, int)
                        and 0 <= e.slice.value < len(comps)):
                    raise Unsupported("tuple subscript that is not a constant index in range")
                return self.tuple_item(xs, len(comps), e.slice.value), comps[e.slice.value]
            if not self.is_list(xty) or xty == "FS":
                raise Unsupported(f"subscript of {xty}")
            ity = self.item_of(xty)
            if ity not in self.defaults:
                raise Unsupported(f"subscript of a list of {ity}")
            i, _ = self.expr(e.slice, env, "Z")
            return f"(py_index {self.defaults[ity]} {xs} {i})", ity
        raise Unsupported(f"expression {type(e).__name__}: {ast.unparse(e)}")

    def comp_parts(self, e, env):
        """(elt for x in stream if cond ...) -> (text of the filtered stream, its type, binder, inner env)"""
        if len(e.generators) != 1:
            raise Unsupported("nested comprehension")
        g = e.generators[0]
        if g.is_async:
            raise Unsupported("comprehension target")
        r3 = self.met_comp_parts_tuple(e, env)          # (third extension, metrics) `for a, b, c in <list of tuples>`
        if r3 is not None:
            return r3
        if isinstance(g.target, ast.Tuple):
            # for i, x in enumerate(xs)
            it = g.iter
            if not (len(g.target.elts) == 2 and all(isinstance(t, ast.Name) for t in g.target.elts)
                    and isinstance(it, ast.Call) and isinstance(it.func, ast.Name) and it.func.id == "enumerate"
                    and "enumerate" not in env and len(it.args) == 1 and not it.keywords):
                raise Unsupported("comprehension target")
            xs, xty = self.expr0(it.args[0], env)
            if not self.is_list(xty):
                raise Unsupported(f"enumerate of {xty}")
            n1, n2 = g.target.elts[0].id, g.target.elts[1].id
            if n1 == n2:
                raise Unsupported("repeated name in a tuple target")
            inner = self.bind(self.bind(env, n1, "Z"), n2, self.item_of(xty))
            src, sty, x = f"(py_enumerate {xs})", None, f"'({cname(n1)}, {cname(n2)})"
        elif isinstance(g.target, ast.Name):
            src, sty = self.expr0(g.iter, env)
            if not self.is_list(sty):
                raise Unsupported(f"comprehension over {sty}")
            inner = self.borrow(self.bind(env, g.target.id, self.item_of(sty)), g.target.id)
            x = cname(g.target.id)
        else:
            raise Unsupported("comprehension target")
        for cond in g.ifs:
            c, _ = self.expr(cond, inner, "B")
            src = f"(filter (fun {x} => {c}) {src})"
            inner = self.refine(cond, inner, True)          # the element is evaluated only where cond held
        return src, sty, x, inner

    def comprehension(self, e, env, want):
        # (elt for x in stream if cond)  ->  map (fun x => elt) (filter (fun x => cond) stream)
        if isinstance(e.elt, ast.Tuple) and want is not None and self.is_list(want) and want != "FS" and \
                self.item_of(want) in self.tuples:
            # (third extension, metrics) a tuple element of the declared tuple type the context asks for
            if any(t in self.records for t in self.tuples[self.item_of(want)]):
                raise Unsupported("a list of tuples of mutable records")
            src, _sty, x, inner = self.comp_parts(e, env)
            elt, _ = self.expr(e.elt, inner, self.item_of(want))
            return f"(map (fun {x} => {elt}) {src})", want
        g = e.generators[0]
        src, sty, x, inner = self.comp_parts(e, env)
        if sty is not None and isinstance(e.elt, ast.Name) and isinstance(g.target, ast.Name) \
                and e.elt.id == g.target.id:
            if self.item_of(sty) in self.records:
                raise Unsupported("a list of existing record objects (a second reference to mutable objects)")
            return src, sty
        elt, ety = self.expr0(e.elt, inner)
        if ety in self.records and not (isinstance(e.elt, ast.Call) and isinstance(e.elt.func, ast.Name)
                                        and e.elt.func.id in self.known and e.elt.func.id not in inner):
            raise Unsupported("a list of existing record objects (a second reference to mutable objects)")
        if ety in OPT and is_path(e.elt) and self.known_some(e.elt, inner):
            # an Optional the comprehension's own `if` tested against None
            elt, ety = self.coerce(elt, ety, OPT[ety], ast.unparse(e.elt), e.elt, inner), OPT[ety]
        if ety in ("NONE",):
            raise Unsupported("comprehension element type")
        return f"(map (fun {x} => {elt}) {src})", ("LIST" if ety == "IVL" else "L:" + ety)

    def sum_expr(self, e, env):
        """an expression about a variable of a sum type whose constructor is known here: the text the
        spec gives for this constructor"""
        ctors = env.get("$ctor")
        if not ctors:
            return None
        text = ast.unparse(e)
        for name, ctor in ctors.items():
            if name not in text:
                continue
            sd = self.sums[env[name]]
            for pat, val in sd["exprs"].get(ctor, {}).items():
                if ast.unparse(ast.parse(pat.format(x=name), mode="eval").body) == text:
                    if val is None:
                        raise Unsupported(f"`{text}` is not defined when {name} is a {ctor}")
                    t, ty = val
                    fields = dict(sd["ctors"])[ctor]
                    return t.format(**{f: f"{cname(name)}_{f}" for f, _ in fields}), ty
            # any other use of the variable under a known constructor is not translated
        return None

    @staticmethod
    def tuple_item(x, n, i):
        """component i of the left-nested product (a0, a1, .., a(n-1))"""
        t = x
        for _ in range(n - 1 - i if i > 0 else n - 1):
            t = f"(fst {t})"
        return t if i == 0 else f"(snd {t})"

    def compare(self, e, env):
        if len(e.ops) == 2 and all(isinstance(o, (ast.Lt, ast.LtE)) for o in e.ops):
            # a <= x < b
            l = ast.Compare(e.left, [e.ops[0]], [e.comparators[0]])
            r = ast.Compare(e.comparators[0], [e.ops[1]], [e.comparators[1]])
            return self.expr0(ast.BoolOp(ast.And(), [l, r]), env)
        if len(e.ops) != 1:
            raise Unsupported("chained comparison")
        op, rhs = e.ops[0], e.comparators[0]
        if isinstance(op, (ast.Is, ast.IsNot)):
            if not (isinstance(rhs, ast.Constant) and rhs.value is None):
                raise Unsupported("is / is not with something other than None")
            t, ty = self.expr0(e.left, env)
            if ty in OPT or ty.startswith("O:"):
                r = f"(is_none {t})"
            elif ty in ("Z", "IVL"):
                r = "false"
            else:
                raise Unsupported(f"is None on {ty}")
            return (r if isinstance(op, ast.Is) else f"(negb {r})"), "B"
        if isinstance(op, (ast.In, ast.NotIn)):
            a, ta = self.expr0(e.left, env)
            b, tb = self.expr0(rhs, env)
            if not self.same(tb, "L:Z"):
                raise Unsupported(f"membership in {tb}")
            if ta == "Z":
                r = f"(zmem {a} {b})"
            elif ta == "OZ":
                r = f"(match {a} with Some v_ => zmem v_ {b} | None => false end)"
            else:
                raise Unsupported(f"membership of {ta}")
            return (r if isinstance(op, ast.In) else f"(negb {r})"), "B"
        if self.cmpops:
            a, ta = self.expr0(e.left, env)
            b, tb = self.expr0(rhs, env)
            sy = {ast.Lt: "<", ast.LtE: "<=", ast.Gt: ">", ast.GtE: ">=", ast.Eq: "==", ast.NotEq: "!="}.get(type(op))
            if (ta, sy, tb) in self.cmpops:
                return f"({self.cmpops[(ta, sy, tb)]} {a} {b})", "B"
        if isinstance(op, (ast.Eq, ast.NotEq)):
            a, ta = self.expr0(e.left, env)
            # an enum compared with a string literal
            if ta in self.enums:
                b, _ = self.expr(rhs, env, ta)
                r = f"({self.enums[ta][0]} {a} {b})"
                return (r if isinstance(op, ast.Eq) else f"(negb {r})"), "B"
            b, tb = self.expr0(rhs, env)
            if tb in self.enums:
                a, _ = self.expr(e.left, env, tb)
                r = f"({self.enums[tb][0]} {a} {b})"
                return (r if isinstance(op, ast.Eq) else f"(negb {r})"), "B"
            opt_a = ta in ("OZ", "NONE") and not (is_path(e.left) and self.known_some(e.left, env))
            opt_b = tb in ("OZ", "NONE") and not (is_path(rhs) and self.known_some(rhs, env))
            if opt_a or opt_b:
                if ta not in ("Z", "OZ", "NONE") or tb not in ("Z", "OZ", "NONE"):
                    raise Unsupported(f"equality of {ta} and {tb}")
                a = self.coerce(a, ta, "OZ")
                b = self.coerce(b, tb, "OZ")
                r = f"(oZ_eqb {a} {b})"
                return (r if isinstance(op, ast.Eq) else f"(negb {r})"), "B"
        a, _ = self.expr(e.left, env, "Z")
        b, _ = self.expr(rhs, env, "Z")
        sym = {ast.Lt: "<?", ast.LtE: "<=?", ast.Gt: ">?", ast.GtE: ">=?", ast.Eq: "=?"}
        if type(op) in sym:
            return f"({a} {sym[type(op)]} {b})", "B"
        if isinstance(op, ast.NotEq):
            return f"(negb ({a} =? {b}))", "B"
        raise Unsupported(f"comparison {type(op).__name__}")

    def apply_spec(self, cs, fn, args, keywords, env, first=None):
        """a call described by a spec entry: tuple (coq, [arg types], ret) or
        dict(coq, args=[types], kw=[(name, type)], fixed={kw name or '**': source text}, pre=[coq text], ret)"""
        if isinstance(cs, tuple):
            cs = dict(coq=cs[0], args=cs[1], ret=cs[2])
        argtys = list(cs.get("args", []))
        kwt = list(cs.get("kw", []))
        fixed = dict(cs.get("fixed", {}))
        args = list(args)
        kws = {}
        for k in keywords:
            key = k.arg if k.arg is not None else "**"
            if key in kws:
                raise Unsupported(f"repeated keyword of {fn}")
            kws[key] = k.value
        if cs.get("fetch"):
            # fetch(start, end, *, reverse=False)
            if len(args) != 2 or not set(kws) <= {"reverse"}:
                raise Unsupported(f"call shape of {fn}")
            args = args + [kws.pop("reverse", ast.Constant(False))]
        if len(args) != len(argtys):
            raise Unsupported(f"arity of {fn}")
        # STRLIT: an argument that must be a string literal and only feeds a message: dropped
        for a, t in zip(args, argtys):
            if t == "STRLIT" and not (isinstance(a, ast.Constant) and isinstance(a.value, str)):
                raise Unsupported(f"argument of {fn} is not a string literal")
        args = [a for a, t in zip(args, argtys) if t != "STRLIT"]
        argtys = [t for t in argtys if t != "STRLIT"]
        # (third extension, metrics) "=name": the argument must be exactly the untouched Python parameter
        # `name` (threaded through unchanged, e.g. the zone name tz); it is dropped
        for a, t in zip(args, argtys):
            if isinstance(t, str) and t.startswith("="):
                self.met_passthrough(a, t[1:], env, fn)
        args = [a for a, t in zip(args, argtys) if not (isinstance(t, str) and t.startswith("="))]
        argtys = [t for t in argtys if not (isinstance(t, str) and t.startswith("="))]
        if set(kws) != set(fixed) | {n for n, _ in kwt}:
            raise Unsupported(f"keyword arguments of {fn}")
        for key, text in fixed.items():
            if ast.unparse(kws[key]) != text:
                raise Unsupported(f"argument {key} of {fn} is not {text}")
        ts = list(cs.get("pre", []))
        if first is not None:
            ts.append(first)
        ts += [self.expr(a, env, t)[0] for a, t in zip(args, argtys)]
        ts += [self.expr(kws[n], env, t)[0] for n, t in kwt]
        return "(" + " ".join([cs["coq"]] + ts) + ")", cs["ret"]

    def pick_spec(self, entry, fn, e):
        """an entry may be a list of alternatives told apart by their keyword names"""
        if not isinstance(entry, list):
            return entry
        have = {k.arg if k.arg is not None else "**" for k in e.keywords}
        for cs in entry:
            if isinstance(cs, dict) and have == set(cs.get("fixed", {})) | {n for n, _ in cs.get("kw", [])} \
                    and len(e.args) == len(cs.get("args", [])):
                return cs
        raise Unsupported(f"call shape of {fn}")

    def call(self, e, env):
        fn = ast.unparse(e.func)
        if fn in env or (isinstance(e.func, ast.Name) and cname(fn) != fn and fn in env):
            raise Unsupported(f"call of the local {fn}")
        if fn in ("max", "min") and len(e.args) == 2 and not e.keywords:
            a, _ = self.expr(e.args[0], env, "Z")
            b, _ = self.expr(e.args[1], env, "Z")
            return f"(Z.{fn} {a} {b})", "Z"
        if fn == "Interval" and not e.args:
            kw = {k.arg: k.value for k in e.keywords}
            if set(kw) != {"start", "end"}:
                raise Unsupported("Interval(...) with other fields")
            a, _ = self.expr(kw["start"], env, "OZ")
            b, _ = self.expr(kw["end"], env, "OZ")
            return f"(mkI {a} {b} Plain)", "IVL"
        if fn == "replace" and len(e.args) == 1:
            x, _ = self.expr(e.args[0], env, "IVL")
            kw = {k.arg: k.value for k in e.keywords}
            if not set(kw) <= {"start", "end"}:
                raise Unsupported("replace(...) of other fields")
            a = self.expr(kw["start"], env, "OZ")[0] if "start" in kw else f"(st {x})"
            b = self.expr(kw["end"], env, "OZ")[0] if "end" in kw else f"(en {x})"
            return f"(set_span {x} {a} {b})", "IVL"
        if fn in ("all", "any") and len(e.args) == 1 and not e.keywords:
            comb = "forallb" if fn == "all" else "existsb"
            a = e.args[0]
            if isinstance(a, (ast.GeneratorExp, ast.ListComp)):
                if self.mut_call_in(a.elt):
                    raise Unsupported(f"{fn}(..) over calls that update their receiver: only as `x = {fn}(..)`")
                self.cond_depth += 1
                try:
                    src, _, x, inner = self.comp_parts(a, env)
                    elt, _ = self.expr(a.elt, inner, "B")
                finally:
                    self.cond_depth -= 1
                return f"({comb} (fun {x} => {elt}) {src})", "B"
            t, ty = self.expr0(a, env)
            if self.same(ty, "L:B"):
                return f"({comb} (fun b_ => b_) {t})", "B"
            raise Unsupported(f"{fn} of {ty}")
        if fn in ("max", "min") and len(e.args) == 1 and not e.keywords and \
                isinstance(e.args[0], (ast.GeneratorExp, ast.ListComp)):
            t, ty = self.expr0(e.args[0], env)
            if not self.same(ty, "L:Z"):
                raise Unsupported(f"{fn} over {ty}")
            return f"(py_{fn} {t})", "Z"
        if fn == "frozenset" and len(e.args) == 1 and not e.keywords:
            t, ty = self.expr0(e.args[0], env)
            if not self.same(ty, "L:Z"):
                raise Unsupported(f"frozenset of {ty}")
            return f"(fs_of_list {t})", "FS"
        if isinstance(e.func, ast.Attribute) and fn not in self.calls and \
                any(k[1] == e.func.attr for k in self.rec_methods):
            r = self.record_method_call(e, env)
            if r is not None:
                return r
        if fn == "iter" and len(e.args) == 1 and not e.keywords:
            # an iterator over a stream = the list of the items not yet consumed (see `next` in try_stmt)
            x, ty = self.expr0(e.args[0], env)
            if not self.is_list(ty):
                raise Unsupported(f"iter of {ty}")
            return x, ty
        if fn in ("reversed", "list", "len") and len(e.args) == 1 and not e.keywords:
            x, ty = self.expr0(e.args[0], env)
            if not self.is_list(ty):
                raise Unsupported(f"{fn} of {ty}")
            if self.item_of(ty) in self.records and fn != "len":
                raise Unsupported(f"{fn} of a list of mutable records")
            if ty == "FS" and fn == "reversed":
                raise Unsupported("reversed of a frozenset")
            if fn == "reversed":
                return f"(rev {x})", ty
            if fn == "list":
                return x, ty
            return f"(Z.of_nat (length {x}))", "Z"
        if fn == "tuple" and "tuple" not in env and len(e.args) == 1 and not e.keywords and \
                not isinstance(e.args[0], (ast.GeneratorExp, ast.ListComp)):
            # (tsmall) tuple(xs) of a list: the same items in the same order
            x, ty = self.expr0(e.args[0], env)
            if not self.is_list(ty) or ty == "FS" or self.item_of(ty) in self.records:
                raise Unsupported(f"tuple of {ty}")
            return x, ty
        if fn == "range" and len(e.args) == 1 and not e.keywords:
            n, _ = self.expr(e.args[0], env, "Z")
            return f"(zrange {n})", "L:Z"
        if fn == "int" and "int" not in env and len(e.args) == 1 and not e.keywords:
            # int(x) of an int is x (a float never has type Z here: a library call declared to return Z
            # returns a whole number)
            t, ty = self.expr0(e.args[0], env)
            if ty != "Z":
                raise Unsupported(f"int() of {ty}")
            return t, "Z"
        if fn == "cast" and len(e.args) == 2 and not e.keywords and ast.unparse(e.args[0]) == "int":
            # typing.cast(int, x): no run-time effect; x must be an int here
            return self.expr(e.args[1], env, "Z")
        if fn == "bisect.bisect_right" and len(e.args) == 2:
            kw = {k.arg: k.value for k in e.keywords}
            lam = kw.get("key")
            if set(kw) != {"key"} or not isinstance(lam, ast.Lambda) or len(lam.args.args) != 1 or \
                    lam.args.defaults or lam.args.vararg or lam.args.kwarg or lam.args.kwonlyargs:
                raise Unsupported("bisect_right without key=lambda x: ...")
            xs, xty = self.expr0(e.args[0], env)
            if not self.is_list(xty):
                raise Unsupported(f"bisect_right on {xty}")
            v, _ = self.expr(e.args[1], env, "Z")
            p = lam.args.args[0].arg
            inner = self.bind(env, p, self.item_of(xty))
            k, _ = self.expr(lam.body, inner, "Z")
            return f"(bisect_right (fun {cname(p)} => {k}) {xs} {v})", "Z"
        # ---- third extension (metrics): sum(..), isinstance on an abstract type, f(*xs), sorted(.. d.items())
        r3 = self.met_call(e, fn, env)
        if r3 is not None:
            return r3
        if fn in self.calls:
            cs = self.pick_spec(self.calls[fn], fn, e)
            if isinstance(cs, tuple) and fn.endswith(".fetch"):
                return self.apply_fetch(dict(coq=cs[0], ret=cs[2]), fn, e, env)
            if isinstance(cs, dict) and cs.get("raises"):
                if not self.in_try:
                    raise Unsupported(f"{fn} may raise: only as `try: return {fn}(..) except ..`")
                self.last_raises = cs
            if isinstance(cs, dict) and cs.get("res"):
                return self.res_call(cs, fn, e, env)
            return self.apply_spec(cs, fn, e.args, e.keywords, env)
        if isinstance(e.func, ast.Attribute) and self.methods:
            recv, rty = self.expr0(e.func.value, env)
            if (rty, e.func.attr) in self.methods:
                cs = self.pick_spec(self.methods[(rty, e.func.attr)], fn, e)
                if isinstance(cs, dict) and cs.get("raises"):
                    if not self.in_try:
                        raise Unsupported(f"{fn} may raise: only as `try: return {fn}(..) except ..`")
                    self.last_raises = cs
                return self.apply_spec(cs, fn, e.args, e.keywords, env, first=recv)
        if fn in self.known:
            cn, argtys, ret = self.known[fn]
            if e.keywords or len(e.args) != len(argtys):
                raise Unsupported(f"call shape of {fn}")
            ts = [self.expr(a, env, t)[0] for a, t in zip(e.args, argtys)]
            return "(" + " ".join([cn] + ts) + ")", ret
        raise Unsupported(f"call of {fn}")

    # ---- calls that cannot stay inside the expression: they are bound in front of the statement
    def mut_call_in(self, node):
        """does the expression contain a call of a method that updates its receiver?"""
        return any(isinstance(x, ast.Call) and isinstance(x.func, ast.Attribute) and x.func.attr in self.mut_names
                   for x in ast.walk(node))

    def can_hoist(self, what):
        if self.hoist is None or self.cond_depth:
            raise Unsupported(f"{what}: only as a statement, or unconditionally in the right-hand side of an "
                              f"assignment / a return")

    def record_method_call(self, e, env):
        """v.m(args) for a method m of a record class (translated earlier)"""
        recv = e.func.value
        if isinstance(recv, ast.Name) and recv.id == "self" and "self" not in env:
            return None
        vt, vty = self.expr0(recv, env)
        md = self.rec_methods.get((vty, e.func.attr))
        if md is None:
            return None
        if e.keywords or len(e.args) != len(md["args"]):
            raise Unsupported(f"call shape of {ast.unparse(e.func)}")
        ts = [self.expr(a, env, t)[0] for a, t in zip(e.args, md["args"])]
        text = "(" + " ".join([md["coq"], vt] + ts) + ")"
        if not md["mutates"]:
            return text, md["ret"]
        # the method returns (updated record, result): bound in front of the statement
        if not isinstance(recv, ast.Name):
            raise Unsupported(f"{ast.unparse(e.func)} updates its receiver, which is not a plain name")
        self.can_hoist(ast.unparse(e.func))
        v = recv.id
        self.check_mutable_here(v, env)
        lst = env.get("$alias", {}).get(v, (None,))[0]
        others = sum(1 for x in ast.walk(self.stmt_expr) if isinstance(x, ast.Name) and x.id in (v, lst)) - \
            sum(1 for x in ast.walk(e) if isinstance(x, ast.Name) and x.id in (v, lst))
        if others or sum(1 for x in ast.walk(e) if isinstance(x, ast.Name) and x.id == v) != 1:
            raise Unsupported(f"{v} is updated by {ast.unparse(e.func)} and used elsewhere in the same statement")
        var = self.new_var("m")
        self.hoist.append(dict(kind="mut", recv=v, text=text, var=var))
        return var, md["ret"]

    def res_call(self, cs, fn, e, env):
        """a call of a generated function whose result is a res: `res_bind (f ..) (fun r => ..)` in front of
        the statement"""
        self.can_hoist(fn)
        if not self.res or (self.plain and not (self.res_body and self.loop_depth == 1)):
            raise Unsupported(f"{fn} returns a res: only in a function with a res result, outside nested loops")
        cs2 = dict(cs)
        if cs.get("fuel"):
            self.uses_fuel = True
            cs2["pre"] = ["fuel"] + list(cs.get("pre", []))
        text, ret = self.apply_spec(cs2, fn, e.args, e.keywords, env)
        var = self.new_var("r")
        self.hoist.append(dict(kind="res", text=text, var=var))
        return var, ret

    def hoisted(self, node, env, fn):
        """translate one statement's expression with fn(); -> (result of fn, prefix text maker, suffix, env after)"""
        saved, saved_e = self.hoist, getattr(self, "stmt_expr", None)
        self.hoist, self.stmt_expr = [], node
        try:
            r = fn()
            hs = self.hoist
        finally:
            self.hoist, self.stmt_expr = saved, saved_e
        return r, hs

    def hoist_prefix(self, hs, env, pad):
        """-> (text before the statement, text after everything that follows it, env after the calls)"""
        pre, post = "", ""
        for h in hs:
            if h["kind"] == "mut":
                v = h["recv"]
                pre += f"{pad}let '({cname(v)}, {h['var']}) := {h['text']} in\n" + self.write_back(env, v, pad)
                env = self.kill(env, v)
            elif h["kind"] == "state":                           # (extension mem)
                a, b = pysrc_mem.hoist_state(h, pad)
                pre, post = pre + a, post + b
            else:
                pre += f"{pad}res_bind {h['text']} (fun {h['var']} =>\n"
                post += ")"
        return pre, post, env

    def apply_fetch(self, cs, fn, e, env):
        """x.fetch(start, end, *, reverse=False) for a (coq, [OZ, OZ, B], ret) entry"""
        args = list(e.args)
        kws = {k.arg: k.value for k in e.keywords}
        if len(args) != 2 or not set(kws) <= {"reverse"}:
            raise Unsupported(f"call shape of {fn}")
        args = args + [kws.get("reverse", ast.Constant(False))]
        argtys = list(self.calls[fn][1])
        if len(argtys) != 3:
            raise Unsupported(f"arity of {fn}")
        ts = [self.expr(a, env, t)[0] for a, t in zip(args, argtys)]
        return "(" + " ".join([cs["coq"]] + ts) + ")", cs["ret"]

    # `x is None` / `x is not None` tests: flow refinement
    def refine_name(self, test):
        """-> (name, True if the name is not None when the test holds) or None"""
        if (isinstance(test, ast.Compare) and len(test.ops) == 1 and isinstance(test.left, ast.Name)
                and isinstance(test.comparators[0], ast.Constant) and test.comparators[0].value is None):
            if isinstance(test.ops[0], ast.IsNot):
                return test.left.id, True
            if isinstance(test.ops[0], ast.Is):
                return test.left.id, False
        return None

    def facts(self, test, holds):
        """expressions known not to be None when `test` evaluates to `holds`"""
        if isinstance(test, ast.Compare) and len(test.ops) == 1 and is_path(test.left) \
                and isinstance(test.comparators[0], ast.Constant) and test.comparators[0].value is None:
            if isinstance(test.ops[0], ast.IsNot) and holds:
                return {ast.unparse(test.left)}
            if isinstance(test.ops[0], ast.Is) and not holds:
                return {ast.unparse(test.left)}
            return set()
        if isinstance(test, ast.BoolOp):
            if (isinstance(test.op, ast.And) and holds) or (isinstance(test.op, ast.Or) and not holds):
                out = set()
                for v in test.values:
                    out |= self.facts(v, holds)
                return out
            return set()
        if isinstance(test, ast.UnaryOp) and isinstance(test.op, ast.Not):
            return self.facts(test.operand, not holds)
        if is_path(test) and holds:
            return {ast.unparse(test)}           # a truthy value is not None
        return set()

    def refine(self, test, env, holds):
        return self.with_nn(env, self.facts(test, holds))

    # ---------------------------------------------------------------- statements
    def target_key(self, t):
        """assignment target -> env key (python name, or "@param" for a declared state attribute)"""
        if isinstance(t, ast.Name):
            return t.id
        if isinstance(t, ast.Attribute) and isinstance(t.value, ast.Name) and t.value.id == "self" \
                and t.attr in self.selfattrs and self.selfattrs[t.attr][0] in self.state:
            return "@" + self.selfattrs[t.attr][0]
        raise Unsupported(f"assignment target {ast.unparse(t)}")

    def effect_of(self, s):
        """an expression statement that updates a state variable or a local list -> (key, args, update) or None"""
        if not (isinstance(s, ast.Expr) and isinstance(s.value, ast.Call)):
            return None
        c = s.value
        fn = ast.unparse(c.func)
        if fn in self.effects:
            ef = self.effects[fn]
            if ef.get("vars"):
                return "@" + ef["vars"][0], c, ef
            return ("@" + ef["var"]) if ef.get("var") else None, c, ef
        if isinstance(c.func, ast.Attribute) and c.func.attr == "append" and isinstance(c.func.value, ast.Name):
            return c.func.value.id, c, "append"
        if isinstance(c.func, ast.Attribute) and c.func.attr == "extend" and isinstance(c.func.value, ast.Name):
            return c.func.value.id, c, "extend"      # (tsmall)
        if self.met_dd_append_shape(s) is not None:
            return self.met_dd_append_shape(s), c, "ddappend"      # (third extension, metrics) d[k].append(v)
        return None

    def self_is_record(self):
        return self.spec["kind"] in ("method", "init") or bool(self.spec.get("method_of"))

    def assigned(self, stmts, env=None):
        """env keys assigned anywhere in the statements, in order of first appearance.  An update of a record
        (a field store, a call of a method that updates its receiver) counts as an assignment of the
        variable that holds it — and of every list it may be an alias into."""
        out = []
        mod = ast.Module(body=list(stmts), type_ignores=[])

        def add(k):
            if k not in out:
                out.append(k)
        # x -> lists it may alias: `x = L[i]` here or before, `.. for x in L` in a comprehension
        alias_of = {}
        for a, (lst, _i, _n) in (env or {}).get("$alias", {}).items():
            alias_of.setdefault(a, set()).add(lst)
        comp_var = {}
        for sub in ast.walk(mod):
            if isinstance(sub, ast.Assign) and len(sub.targets) == 1 and isinstance(sub.targets[0], ast.Name) and \
                    isinstance(sub.value, ast.Subscript) and isinstance(sub.value.value, ast.Name):
                alias_of.setdefault(sub.targets[0].id, set()).add(sub.value.value.id)
            if isinstance(sub, (ast.GeneratorExp, ast.ListComp)):
                for g in sub.generators:
                    if isinstance(g.target, ast.Name) and isinstance(g.iter, ast.Name):
                        comp_var.setdefault(g.target.id, set()).add(g.iter.id)

        def add_mut(v):
            if v in comp_var:
                for lst in sorted(comp_var[v]):
                    add(lst)
                return
            add(v)
            for lst in sorted(alias_of.get(v, ())):
                add(lst)
        for sub in ast.walk(mod):
            ah = pysrc_mem.assigned_hook(self, sub, env)         # (extension mem)
            if ah is not None:
                for k in ah[0]:
                    add(k)
                if ah[1]:
                    continue
            if isinstance(sub, ast.Call) and isinstance(sub.func, ast.Attribute) and sub.func.attr in self.mut_names:
                r = sub.func.value
                if isinstance(r, ast.Name):
                    add_mut(r.id)
                elif isinstance(r, ast.Subscript) and isinstance(r.value, ast.Name):
                    add(r.value.id)
            if isinstance(sub, (ast.Assign, ast.AnnAssign, ast.AugAssign)):
                tg = sub.targets if isinstance(sub, ast.Assign) else [sub.target]
                rec = [t for t in tg if isinstance(t, ast.Attribute) and isinstance(t.value, ast.Name)
                       and (t.value.id != "self" or self.self_is_record())]
                if rec:
                    for t in rec:
                        add_mut(t.value.id)
                    if len(rec) == len(tg):
                        continue
            if isinstance(sub, ast.Assign):
                if isinstance(sub.value, ast.Call) and ast.unparse(sub.value.func) in self.pops:
                    add("@" + self.pops[ast.unparse(sub.value.func)]["var"])
                for t in sub.targets:
                    if isinstance(t, ast.Tuple):
                        for el in t.elts:
                            if isinstance(el, ast.Name) and el.id != "_":
                                add(el.id)
                    else:
                        add(self.target_key(t))
                am = self.any_mut_shape(sub.value)
                if am is not None:
                    add(am)
            elif isinstance(sub, (ast.AnnAssign, ast.AugAssign)):
                add(self.target_key(sub.target))
            elif isinstance(sub, ast.Try) and self.next_form(sub) is not None:
                add(self.next_form(sub)[1])
            elif isinstance(sub, ast.Expr) and isinstance(sub.value, ast.Call) and \
                    isinstance(sub.value.func, ast.Name) and sub.value.func.id in self.closures:
                for k in self.assigned(self.closures[sub.value.func.id], env):
                    add(k)
            elif isinstance(sub, ast.Expr):
                ef = self.effect_of(sub)
                if ef is not None and ef[0] is not None:
                    add(ef[0])
                    if isinstance(ef[2], dict) and ef[2].get("vars"):
                        for v in ef[2]["vars"]:
                            add("@" + v)
        return out

    def is_pure(self, s):
        """only assigns / updates state: no yield, continue, break, return, raise, loop, try"""
        if isinstance(s, (ast.Assign, ast.AnnAssign, ast.AugAssign, ast.Pass)):
            return not any(isinstance(x, (ast.Yield, ast.YieldFrom)) for x in ast.walk(s)) and \
                not self.has_res_call(s) and not self.names_needing_match(s)
        if isinstance(s, ast.Expr):
            if isinstance(s.value, ast.Call) and isinstance(s.value.func, ast.Name) and \
                    s.value.func.id in self.closures and not s.value.args and not s.value.keywords:
                return all(self.is_pure(x) for x in self.closures[s.value.func.id])
            ef = self.effect_of(s)
            if ef is not None and isinstance(ef[2], dict) and ef[2].get("res"):
                return False
            return (isinstance(s.value, ast.Constant) and isinstance(s.value.value, str)) or ef is not None
        if isinstance(s, ast.If):
            if ast.unparse(s.test) in self.skip_tests:
                return False
            return all(self.is_pure(x) for x in s.body) and all(self.is_pure(x) for x in s.orelse)
        if isinstance(s, ast.Try) and self.next_form(s) is not None:
            return all(self.is_pure(x) for x in s.handlers[0].body)
        return False

    def has_res_call(self, node):
        for x in ast.walk(node):
            if isinstance(x, ast.Call):
                cs = self.calls.get(ast.unparse(x.func))
                if isinstance(cs, dict) and cs.get("res"):
                    return True
        return False

    def names_needing_match(self, node):
        """sum-typed names are only known by their type here; which ones need a `match` is decided in block()"""
        if not self.sums:
            return False
        return any(isinstance(x, ast.Name) and x.id in self.sum_names for x in ast.walk(node))

    def any_mut_shape(self, value):
        """any(<generator whose element calls a method that updates its receiver>) -> the list name, or None"""
        if not (isinstance(value, ast.Call) and isinstance(value.func, ast.Name) and value.func.id == "any"
                and len(value.args) == 1 and not value.keywords and isinstance(value.args[0], ast.GeneratorExp)
                and self.mut_call_in(value.args[0].elt)):
            return None
        g = value.args[0]
        c = g.elt
        if len(g.generators) != 1 or g.generators[0].ifs or g.generators[0].is_async or \
                not isinstance(g.generators[0].target, ast.Name) or \
                not (isinstance(c, ast.Call) and isinstance(c.func, ast.Attribute) and not c.keywords):
            raise Unsupported("shape of any(..) over calls that update their receiver")
        gen, recv = g.generators[0], c.func.value
        x = gen.target.id
        if isinstance(recv, ast.Name) and recv.id == x and isinstance(gen.iter, ast.Name):
            return gen.iter.id
        if isinstance(recv, ast.Subscript) and isinstance(recv.value, ast.Name) and \
                isinstance(recv.slice, ast.Name) and recv.slice.id == x:
            return recv.value.id
        raise Unsupported("shape of any(..) over calls that update their receiver")

    def any_mut_assign(self, s, rest, env, fin, ind):
        """x = any(v.m(args) for v in L)  /  x = any(L[i].m(args) for i in IDX), m updating its receiver"""
        pad = "  " * ind
        lst = self.any_mut_shape(s.value)
        if "any" in env or len(s.targets) != 1 or not isinstance(s.targets[0], ast.Name):
            raise Unsupported("shape of any(..) over calls that update their receiver")
        g = s.value.args[0]
        gen, c = g.generators[0], g.elt
        x = gen.target.id
        if lst not in env or not self.is_list(env[lst]) or self.item_of(env[lst]) not in self.records:
            raise Unsupported(f"{lst} is not a local list of records")
        self.check_mutable_here(lst)
        rty = self.item_of(env[lst])
        md = self.rec_methods.get((rty, c.func.attr))
        if md is None or not md["mutates"] or md["ret"] != "B" or len(c.args) != len(md["args"]):
            raise Unsupported(f"method {c.func.attr} of {rty}")
        for a in c.args:
            if any(isinstance(n, ast.Name) and n.id in (x, lst) for n in ast.walk(a)):
                raise Unsupported("arguments that depend on the item or on the list")
        ts = [self.expr(a, env, t)[0] for a, t in zip(c.args, md["args"])]
        m = "(fun v_ => (" + " ".join([md["coq"], "v_"] + ts) + "))"
        if isinstance(c.func.value, ast.Name):
            text = f"(any_mut {m} {cname(lst)})"
        else:
            idxs, ity = self.expr0(gen.iter, env)
            if not self.is_list(ity) or self.item_of(ity) != "Z":
                raise Unsupported(f"indices of type {ity}")
            text = f"(any_mut_at {self.defaults[rty]} {m} {cname(lst)} {idxs})"
        env2 = self.bind(env, lst, env[lst])                 # (drops the aliases into the list)
        env2 = self.bind(env2, s.targets[0].id, "B")
        return f"{pad}let '({cname(lst)}, {cname(s.targets[0].id)}) := {text} in\n" + self.block(rest, env2, fin, ind)

    def borrow(self, env, name):
        """the target of a `for` / comprehension over a list of records is an item of that list: an update
        through it would have to reach the list, which is not translated"""
        if env.get(name) in self.records:
            env = dict(env)
            env["$borrowed"] = frozenset(env.get("$borrowed", ())) | {name}
        return env

    def check_mutable_here(self, name, env=None):
        """an update of a parameter would be invisible to the caller of the generated definition"""
        if name in self.pyargs and not (name == "self" and self.self_is_record()):
            raise Unsupported(f"update of the parameter {name}")
        if env is not None and name in env.get("$borrowed", ()):
            raise Unsupported(f"update of {name}, an item of the list being iterated")

    def kill_path(self, env, path):
        keep = frozenset(f for f in env.get("$nn", frozenset())
                         if f != path and not f.startswith(path + ".") and not f.startswith(path + "["))
        env = dict(env)
        env["$nn"] = keep
        return env

    def record_field(self, t, env):
        """assignment target v.attr with v a local record -> (v, record description, (py, proj, type)) or None"""
        if not (isinstance(t, ast.Attribute) and isinstance(t.value, ast.Name)):
            return None
        v = t.value.id
        if v == "self" and not self.self_is_record():
            return None
        if v not in env or env[v] not in self.records:
            return None
        rd = self.records[env[v]]
        for f in rd["fields"]:
            if f[0] == t.attr:
                return v, rd, f
        raise Unsupported(f"{v}.{t.attr} is not a declared field of {env[v]}")

    def set_field(self, v, rd, attr, val):
        comps = [val if py == attr else f"({proj} {cname(v)})" for py, proj, _ in rd["fields"]]
        return f"({rd['mk']} {' '.join(comps)})"

    def field_store(self, s, rf, rest, env, fin, ind):
        """v.attr = e  ->  let v := mk .. e .. in   (and the write-back into the list v is an alias into)"""
        pad = "  " * ind
        v, rd, (attr, _proj, fty) = rf
        self.check_mutable_here(v, env)
        if isinstance(s, ast.AnnAssign) and ann_type(s.annotation) != fty:
            raise Unsupported(f"{v}.{attr} is annotated {ast.unparse(s.annotation)}, declared {fty}")
        (val, _), hs = self.hoisted(s.value, env, lambda: self.expr(s.value, env, fty))
        pre, post, env = self.hoist_prefix(hs, env, pad)
        text = f"{pad}let {cname(v)} := {self.set_field(v, rd, attr, val)} in\n" + self.write_back(env, v, pad)
        env2 = self.kill_path(env, f"{v}.{attr}")
        return pre + text + self.block(rest, env2, fin, ind) + post

    def next_form(self, s):
        """try: x = next(it)  except StopIteration: H   ->  (x, it) or None"""
        if s.orelse or s.finalbody or len(s.handlers) != 1 or len(s.body) != 1:
            return None
        h, b = s.handlers[0], s.body[0]
        if h.name is not None or not isinstance(h.type, ast.Name) or h.type.id != "StopIteration":
            return None
        if isinstance(b, ast.Assign) and len(b.targets) == 1 and isinstance(b.targets[0], ast.Name) and \
                isinstance(b.value, ast.Call) and isinstance(b.value.func, ast.Name) and b.value.func.id == "next" \
                and len(b.value.args) == 1 and not b.value.keywords and isinstance(b.value.args[0], ast.Name):
            return b.targets[0].id, b.value.args[0].id
        return None

    def state_type(self, key):
        if key.startswith("@"):
            return self.genparams[key[1:]]
        return None

    def assign(self, key, text, ty, env, pad, rest, fin, ind):
        if key.startswith("@"):
            env2 = dict(env)
            env2[key] = self.genparams[key[1:]]
        else:
            env2 = self.bind(env, key, ty)
        return f"{pad}let {cname(key)} := {text} in\n" + self.block(rest, env2, fin, ind)

    def block(self, stmts, env, fin, ind):
        """Translate a statement list; `fin(env, kind, value=None)` gives the text for leaving the block
        (kind in end/continue/break/return/raise)."""
        pad = "  " * ind
        if not stmts:
            return pad + fin(env, "end")
        s, rest = stmts[0], list(stmts[1:])
        if self.spec.get("rec_ext"):
            for h in REC_STMT_HOOKS:                             # (before the other extensions' readings)
                r = h(self, stmts, env, fin, ind)
                if r is not None:
                    return r
        # ---- third extension (metrics): match on string literals, declared closures, unit calls, d[k].append(v)
        if isinstance(s, getattr(ast, "Match", ())) and not any(isinstance(c.pattern, ast.MatchClass) for c in s.cases):
            return self.block([self.met_desugar_match(s, env)] + rest, env, fin, ind)      # (class patterns: extension mem)
        r3 = self.met_stmt(s, rest, env, fin, ind)
        if r3 is not None:
            return r3
        if self.spec.get("filt_ext"):                    # (tag filt: handlers in pysrc_filt.py)
            from . import pysrc_filt
            r = pysrc_filt.filt_stmt(self, s, rest, env, fin, ind)
            if r is not None:
                return r
        if isinstance(s, ast.Expr) and isinstance(s.value, ast.Constant) and isinstance(s.value.value, str):
            return self.block(rest, env, fin, ind)           # docstring
        if isinstance(s, ast.Pass):
            return self.block(rest, env, fin, ind)
        for h in REC_STMT_HOOKS:                                 # (act on specs with "rec_ext" only)
            r = h(self, stmts, env, fin, ind)
            if r is not None:
                return r
        r = pysrc_mem.stmt_hook(self, s, rest, env, fin, ind)    # (extension mem)
        if r is not None:
            return r
        if isinstance(s, ast.With):
            if not all(ast.unparse(it.context_expr) in self.with_ok and it.optional_vars is None for it in s.items):
                raise Unsupported("with")
            if self.loop_depth or any(isinstance(x, (ast.Yield, ast.YieldFrom, ast.Return)) for b in s.body
                                      for x in ast.walk(b)):
                raise Unsupported("with inside a loop, or a yield / return inside with")
            return self.block(list(s.body) + rest, env, fin, ind)
        if self.sums:
            x = self.needs_match(s, env)
            if x is not None:
                return self.sum_match(x, stmts, env, fin, ind)
        if isinstance(s, ast.AugAssign):
            s = ast.Assign(targets=[s.target], value=ast.BinOp(left=self.as_load(s.target), op=s.op, right=s.value))
        if isinstance(s, ast.Assign) and isinstance(s.value, ast.Call) and ast.unparse(s.value.func) in self.pops:
            return self.pop_assign(s, rest, env, fin, ind)
        if isinstance(s, ast.Assign) and self.any_mut_shape(s.value) is not None:
            return self.any_mut_assign(s, rest, env, fin, ind)
        if isinstance(s, (ast.Assign, ast.AnnAssign)) and s.value is not None:
            tg = s.targets[0] if isinstance(s, ast.Assign) and len(s.targets) == 1 else getattr(s, "target", None)
            rf = self.record_field(tg, env) if tg is not None else None
            if rf is not None:
                return self.field_store(s, rf, rest, env, fin, ind)
        if isinstance(s, ast.Assign) and len(s.targets) == 1 and isinstance(s.targets[0], ast.Tuple) and \
                isinstance(s.value, ast.Tuple):
            # a, b = e1, e2: the right-hand sides are evaluated first
            tg, vs = s.targets[0].elts, s.value.elts
            if len(tg) != len(vs) or not all(isinstance(t, ast.Name) for t in tg) or \
                    len({t.id for t in tg}) != len(tg):
                raise Unsupported("tuple assignment")
            vals = [self.expr(v, env, self.declared.get(t.id, env.get(t.id))) for t, v in zip(tg, vs)]
            if any(ty == "NONE" for _, ty in vals):
                raise Unsupported("tuple assignment of an untyped None")
            env2 = env
            for t, (_, ty) in zip(tg, vals):
                env2 = self.bind(env2, t.id, ty)
            return (f"{pad}let '({', '.join(cname(t.id) for t in tg)}) := ({', '.join(v for v, _ in vals)}) in\n"
                    + self.block(rest, env2, fin, ind))
        if isinstance(s, ast.Expr) and isinstance(s.value, ast.Call) and isinstance(s.value.func, ast.Attribute) \
                and s.value.func.attr in self.mut_names and ast.unparse(s.value.func) not in self.effects:
            # v.m(args) as a statement, m updating v
            _, hs = self.hoisted(s.value, env, lambda: self.call(s.value, env))
            pre, post, env2 = self.hoist_prefix(hs, env, pad)
            return pre + self.block(rest, env2, fin, ind) + post
        if isinstance(s, (ast.Assign, ast.AnnAssign)):
            if isinstance(s, ast.Assign):
                if len(s.targets) != 1:
                    raise Unsupported("assignment target")
                key, value, decl = self.target_key(s.targets[0]), s.value, None
            else:
                if s.value is None:
                    raise Unsupported("annotated assignment")
                decl = self.annotations.get(ast.unparse(s.annotation)) or ann_type(s.annotation)
                key, value = self.target_key(s.target), s.value
            if key.startswith("@"):
                want = self.genparams[key[1:]]
            else:
                want = decl or self.declared.get(key)
                if want is None and isinstance(value, ast.Constant) and value.value is None and key in env:
                    # `x = None` for a variable that already has a type: the option form of that type
                    want = SOME.get(env[key], env[key])
            (t, ty), hs = self.hoisted(value, env, lambda: self.expr(value, env, want))
            pre, post, env = self.hoist_prefix(hs, env, pad)
            if ty == "NONE":
                raise Unsupported(f"type of {key} = None unknown (annotate it)")
            if decl:
                self.declared[key] = decl
            if ty in self.records and not key.startswith("@"):
                return pre + self.record_assign(key, value, t, ty, env, pad, rest, fin, ind) + post
            if self.is_list(ty) and self.item_of(ty) in self.records and \
                    not isinstance(value, (ast.ListComp, ast.List)):
                raise Unsupported(f"{key} = {ast.unparse(value)[:40]}: a second name for a list of mutable records")
            return pre + self.assign(key, t, ty, env, pad, rest, fin, ind) + post
        if isinstance(s, ast.FunctionDef):
            # a local closure without parameters whose assigned names are all nonlocal: inlined at its calls
            a = s.args
            if s.name not in self.inline or s.decorator_list or a.args or a.posonlyargs or a.kwonlyargs or \
                    a.vararg or a.kwarg or self.loop_depth or s.name in env:
                raise Unsupported(f"local function {s.name}")
            nonlocals, body = set(), []
            for x in s.body:
                if isinstance(x, ast.Nonlocal):
                    nonlocals |= set(x.names)
                else:
                    body.append(x)
            for sub in ast.walk(ast.Module(body=body, type_ignores=[])):
                if isinstance(sub, (ast.Return, ast.Yield, ast.YieldFrom, ast.FunctionDef, ast.Lambda, ast.Nonlocal,
                                    ast.Global, ast.For, ast.While, ast.Break, ast.Continue)):
                    raise Unsupported(f"{type(sub).__name__} in the local function {s.name}")
            iters = {self.next_form(x)[1] for x in ast.walk(ast.Module(body=body, type_ignores=[]))
                     if isinstance(x, ast.Try) and self.next_form(x) is not None}
            for k in self.assigned(body):
                if k in iters and k in env and k not in nonlocals:
                    continue                     # next(it) consumes the enclosing iterator object
                if k.startswith("@") or k not in nonlocals or k not in env:
                    raise Unsupported(f"the local function {s.name} assigns {k}, which is not a nonlocal defined before it")
            self.closures[s.name] = body
            self.bind(env, s.name, "U")          # (only the name check)
            return self.block(rest, env, fin, ind)
        if isinstance(s, ast.Expr) and isinstance(s.value, ast.Call) and isinstance(s.value.func, ast.Name) and \
                s.value.func.id in self.closures and s.value.func.id not in env:
            if s.value.args or s.value.keywords:
                raise Unsupported(f"call shape of {s.value.func.id}")
            if rest and self.is_pure(s):
                return self.join_if(s, rest, env, fin, ind)
            return self.block(list(self.closures[s.value.func.id]) + rest, env, fin, ind)
        if isinstance(s, ast.Expr) and isinstance(s.value, ast.Yield):
            if not self.may_yield() or s.value.value is None:
                raise Unsupported("yield")
            t, _ = self.expr(s.value.value, env, self.yield_type)
            env2 = dict(env)
            env2["$y"] = True
            return f"{pad}let out := out ++ [{t}] in\n" + self.block(rest, env2, fin, ind)
        if isinstance(s, ast.Expr) and isinstance(s.value, ast.YieldFrom):
            if not self.may_yield():
                raise Unsupported("yield from")
            t, _ = self.expr(s.value.value, env, "LIST" if self.yield_type == "IVL" else "L:" + self.yield_type)
            env2 = dict(env)
            env2["$y"] = True
            return f"{pad}let out := out ++ {t} in\n" + self.block(rest, env2, fin, ind)
        if isinstance(s, ast.Expr):
            ef = self.effect_of(s)
            if ef is None:
                raise Unsupported(f"statement {ast.unparse(s)[:80]}")
            key, c, how = ef
            if how == "append":
                if key not in env or not self.is_list(env[key]) or len(c.args) != 1 or c.keywords:
                    raise Unsupported(f"statement {ast.unparse(s)[:80]}")
                if self.item_of(env[key]) in self.records:
                    raise Unsupported("append of a mutable record to a list")
                x, _ = self.expr(c.args[0], env, self.item_of(env[key]))
                return self.assign(key, f"({cname(key)} ++ [{x}])", env[key], env, pad, rest, fin, ind)
            if how == "extend":
                # (tsmall) xs.extend(ys): the items of ys appended in order (ys a list that is not xs itself)
                if key not in env or not self.is_list(env[key]) or env[key] == "FS" or len(c.args) != 1 or c.keywords \
                        or key in self.pyargs:
                    raise Unsupported(f"statement {ast.unparse(s)[:80]}")
                if self.item_of(env[key]) in self.records:
                    raise Unsupported("extend of a list of mutable records")
                if any(isinstance(n_, ast.Name) and n_.id == key for n_ in ast.walk(c.args[0])):
                    raise Unsupported("extend of a list by itself")
                x, _ = self.expr(c.args[0], env, env[key])
                return self.assign(key, f"({cname(key)} ++ {x})", env[key], env, pad, rest, fin, ind)
            kwmap = how.get("kwmap", {})          # keyword -> {source text of the value: coq text}
            kws = {k.arg: ast.unparse(k.value) for k in c.keywords}
            if set(kws) != set(kwmap) or len(kws) != len(c.keywords) or len(c.args) != len(how.get("args", [])) or \
                    any(kws[k] not in kwmap[k] for k in kws):
                raise Unsupported(f"call shape of {ast.unparse(c.func)}")
            kwt = {k: kwmap[k][kws[k]] for k in kws}
            if how.get("raises") and how.get("must_try") and not self.in_try:
                raise Unsupported(f"{ast.unparse(c.func)} may raise: only inside try")
            self.in_try = False
            ts = [self.expr(a, env, t)[0] for a, t in zip(c.args, how["args"])]     # (type-checked even if unused)
            if how.get("vars"):
                # an effect on several state variables: the update gives their tuple (a res of it with res=True)
                vs = how["vars"]
                if any("@" + v not in env for v in vs):
                    raise Unsupported(f"{ast.unparse(c.func)} updates a variable that is not a state variable")
                if how.get("fuel"):
                    self.uses_fuel = True
                text = how["update"].format(*ts, **kwt)
                pat = "'(" + ", ".join(vs) + ")"
                if how.get("res"):
                    if not self.res or self.plain or self.loop_depth:
                        raise Unsupported(f"{ast.unparse(c.func)} returns a res: only outside loops, in a res function")
                    return f"{pad}res_bind {text} (fun {pat} =>\n" + self.block(rest, env, fin, ind) + ")"
                return f"{pad}let {pat} := {text} in\n" + self.block(rest, env, fin, ind)
            if key is None:
                # a call the spec declares to have no effect on the modelled state (it may only raise)
                return self.block(rest, env, fin, ind)
            text = how["update"].format(*ts, var=cname(key), **kwt)
            return self.assign(key, text, self.genparams[key[1:]], env, pad, rest, fin, ind)
        if isinstance(s, ast.Continue):
            return pad + fin(env, "continue")
        if isinstance(s, ast.Break):
            return pad + fin(env, "break")
        if isinstance(s, ast.Return):
            if s.value is not None:
                if self.kind != "expr":
                    raise Unsupported("return with a value outside a value-returning function")
                (t, _), hs = self.hoisted(s.value, env, lambda: self.expr(s.value, env, self.ret_type))
                pre, post, env = self.hoist_prefix(hs, env, pad)
                return pre + pad + fin(env, "return", t) + post
            if self.kind == "expr":
                raise Unsupported("bare return in a value-returning function")
            return pad + fin(env, "return")
        if isinstance(s, ast.Raise):
            if s.cause is not None or s.exc is None:
                return pad + fin(env, "raise", None if s.exc is None else "?")
            name = s.exc.func.id if isinstance(s.exc, ast.Call) and isinstance(s.exc.func, ast.Name) else \
                (s.exc.id if isinstance(s.exc, ast.Name) else None)
            if name not in EXCEPTIONS:
                raise Unsupported(f"raise {ast.unparse(s.exc)[:40]}")
            return pad + fin(env, "raise", name)
        if isinstance(s, ast.If):
            return self.if_stmt(s, rest, env, fin, ind)
        if isinstance(s, (ast.For, ast.While)):
            return self.loop(s, rest, env, fin, ind)
        if isinstance(s, ast.Try):
            if rest and self.is_pure(s):
                return self.join_if(s, rest, env, fin, ind)
            return self.try_stmt(s, rest, env, fin, ind)
        raise Unsupported(f"statement {type(s).__name__}: {ast.unparse(s)[:80]}")

    def record_assign(self, key, value, t, ty, env, pad, rest, fin, ind):
        """x = <a record>: a record object is mutable, so the only accepted sources are a fresh object (a
        constructor call) and an item of a local list — then x is an ALIAS into that list"""
        if isinstance(value, ast.Call) and isinstance(value.func, ast.Name) and value.func.id in self.known \
                and value.func.id not in env:
            return self.assign(key, t, ty, env, pad, rest, fin, ind)
        if isinstance(value, ast.Subscript) and isinstance(value.value, ast.Name) and value.value.id in env and \
                (isinstance(value.slice, ast.Name) or
                 (isinstance(value.slice, ast.Constant) and isinstance(value.slice.value, int))):
            lst = value.value.id
            idx, _ = self.expr(value.slice, env, "Z")
            names = {value.slice.id} if isinstance(value.slice, ast.Name) else set()
            if key == lst or key in names:
                raise Unsupported("alias of itself")
            if any(l2 == lst and a != key for a, (l2, _i, _n) in env.get("$alias", {}).items()):
                raise Unsupported(f"two names for items of {lst}")
            env2 = dict(self.bind(env, key, ty))
            al = dict(env2.get("$alias", {}))
            al[key] = (lst, idx, names)
            env2["$alias"] = al
            return f"{pad}let {cname(key)} := {t} in\n" + self.block(rest, env2, fin, ind)
        raise Unsupported(f"{key} = {ast.unparse(value)[:40]}: a second name for a mutable record")

    def needs_match(self, s, env):
        """a name of a sum type, used by this statement's own expression while its constructor is unknown"""
        if isinstance(s, (ast.If, ast.While)):
            node = s.test
        elif isinstance(s, (ast.Assign, ast.AnnAssign, ast.AugAssign, ast.Return, ast.Expr)):
            node = s.value
        else:
            node = None
        if node is None:
            return None
        known = env.get("$ctor", {})
        for x in ast.walk(node):
            if isinstance(x, ast.Name) and x.id in env and env[x.id] in self.sums and x.id not in known:
                return x.id
        return None

    def sum_match(self, x, stmts, env, fin, ind):
        """match x with | C fields => <the statements, knowing x is a C> | ... end"""
        pad = "  " * ind
        if self.loop_depth:
            raise Unsupported("a test on a sum-typed value inside a loop")
        sd = self.sums[env[x]]
        arms = []
        for ctor, fields in sd["ctors"]:
            env2 = dict(env)
            for f, fty in fields:
                fname = f"{x}_{f}"
                if fname in self.all_names:
                    raise Unsupported(f"the name {fname} is used by the function")
                env2 = self.bind(env2, fname, fty)
            env2 = dict(env2)
            ct = dict(env2.get("$ctor", {}))
            ct[x] = ctor
            env2["$ctor"] = ct
            pat = " ".join([ctor] + [f"{cname(x)}_{f}" for f, _ in fields])
            arms.append(f"{pad}| {pat} =>\n" + self.block(stmts, env2, fin, ind + 1))
        return f"{pad}match {cname(x)} with\n" + "\n".join(arms) + f"\n{pad}end"

    def may_yield(self):
        """a generator; or a procedure that also yields (spec "yields"), outside its loops"""
        return self.kind == "gen" or (self.kind == "proc" and self.spec.get("yields") and not self.loop_depth)

    def pop_assign(self, s, rest, env, fin, ind):
        """x = pop(container) / a, b, c = pop(container): the value the spec gives, then the update of the
        state variable that holds the container"""
        pad = "  " * ind
        c = s.value
        ps = self.pops[ast.unparse(c.func)]
        if c.keywords or len(c.args) != 1 or ast.unparse(c.args[0]) != ps["arg"] or len(s.targets) != 1:
            raise Unsupported(f"call shape of {ast.unparse(c.func)}")
        key = "@" + ps["var"]
        if key not in env:
            raise Unsupported(f"{ps['var']} is not a state variable")
        val = ps["result"].format(var=ps["var"])
        upd = ps["update"].format(var=ps["var"])
        t = s.targets[0]
        env2 = dict(env)
        if isinstance(t, ast.Name):
            env2 = self.bind(env2, t.id, ps["ret"])
            head = f"{pad}let {cname(t.id)} := {val} in\n"
        elif isinstance(t, ast.Tuple) and ps["ret"] in self.tuples and len(t.elts) == len(self.tuples[ps["ret"]]) \
                and all(isinstance(el, ast.Name) for el in t.elts):
            names = []
            for el, ty in zip(t.elts, self.tuples[ps["ret"]]):
                if el.id == "_":
                    names.append("_")
                else:
                    if el.id in names:
                        raise Unsupported("repeated name in a tuple target")
                    env2 = self.bind(env2, el.id, ty)
                    names.append(cname(el.id))
            head = f"{pad}let '({', '.join(names)}) := {val} in\n"
        else:
            raise Unsupported(f"assignment target {ast.unparse(t)}")
        return head + f"{pad}let {ps['var']} := {upd} in\n" + self.block(rest, env2, fin, ind)

    @staticmethod
    def as_load(t):
        if isinstance(t, ast.Name):
            return ast.Name(id=t.id, ctx=ast.Load())
        if isinstance(t, ast.Attribute):
            return ast.Attribute(value=t.value, attr=t.attr, ctx=ast.Load())
        raise Unsupported("augmented assignment target")

    def if_stmt(self, s, rest, env, fin, ind):
        pad = "  " * ind
        test_text = ast.unparse(s.test)
        if test_text in self.skip_tests:
            # a branch the spec declares untranslated: reaching it is an explicit RSkip
            if not self.res or self.plain:
                raise Unsupported("skip_branches needs a res result")
            c, _ = self.expr(s.test, env, "B")
            b = self.block(list(s.orelse) + rest, self.refine(s.test, env, False), fin, ind + 1)
            return f"{pad}if {c} then\n{pad}  RSkip\n{pad}else\n{b}"
        if rest and self.is_pure(s):
            return self.join_if(s, rest, env, fin, ind)
        ref = self.refine_name(s.test)
        if ref is not None and self.spec.get("match_options") and isinstance(env.get(ref[0]), str) and \
                env[ref[0]].startswith("O:"):
            return self.met_option_match(s, ref, rest, env, fin, ind)     # (third extension, metrics)
        if ref is not None and env.get(ref[0]) in OPT:
            n, some_in_body = ref
            x = cname(n)
            inner = dict(env)
            inner[n] = OPT[env[n]]
            some_blk, none_blk = (s.body, s.orelse) if some_in_body else (s.orelse, s.body)
            a = self.block(list(some_blk) + rest, inner, fin, ind + 1)
            b = self.block(list(none_blk) + rest, env, fin, ind + 1)
            # inside the None branch the name still has its option type and equals None
            return f"{pad}match {x} with\n{pad}| Some {x} =>\n{a}\n{pad}| None =>\n{b}\n{pad}end"
        c, _ = self.expr(s.test, env, "B")
        if c in ("true", "false") and env.get("$ctor"):
            # a test decided by a known constructor: only the branch that runs is translated
            live = s.body if c == "true" else s.orelse
            return self.block(list(live) + rest, self.refine(s.test, env, c == "true"), fin, ind)
        a = self.block(list(s.body) + rest, self.refine(s.test, env, True), fin, ind + 1)
        b = self.block(list(s.orelse) + rest, self.refine(s.test, env, False), fin, ind + 1)
        return f"{pad}if {c} then\n{a}\n{pad}else\n{b}"

    def join_if(self, s, rest, env, fin, ind):
        """an `if` whose branches only assign, followed by more statements: bind the joined values"""
        pad = "  " * ind
        leaves = []

        def probe(e2, k, v=None):
            if k != "end":
                raise Unsupported(f"{k} in an assignment-only branch")
            leaves.append(e2)
            return "?"
        self.block([s], env, probe, 0)
        keys = [k for k in self.assigned([s], env) if all(k in e2 for e2 in leaves)]
        tys = {}
        for k in keys:
            if k.startswith("@"):
                tys[k] = self.genparams[k[1:]]
                continue
            ty = self.declared.get(k)
            if ty is None:
                ty = leaves[0][k]
                for e2 in leaves[1:]:
                    ty = self.unify(ty, e2[k])
            if ty == "NONE":
                raise Unsupported(f"type of {k} unknown at the join")
            tys[k] = ty

        def join(e2, k, v=None):
            items = [self.coerce(cname(x), e2[x], tys[x], f"(joined variable {x})") for x in keys]
            return items[0] if len(items) == 1 else "(" + ", ".join(items) + ")"
        env2 = dict(env)
        for k in self.assigned([s], env):
            if not k.startswith("@"):
                env2 = self.kill(env2, k)
                if k not in keys:
                    env2.pop(k, None)          # maybe unbound after the `if`: not in scope
        for k in keys:
            if k.startswith("@"):
                env2[k] = tys[k]
            else:
                env2 = self.bind(env2, k, tys[k])
        if not keys:
            return self.block(rest, env2, fin, ind)
        t = self.block([s], env, join, ind + 1)
        pat = cname(keys[0]) if len(keys) == 1 else "'(" + ", ".join(cname(k) for k in keys) + ")"
        return f"{pad}let {pat} :=\n{t} in\n" + self.block(rest, env2, fin, ind)

    def try_stmt(self, s, rest, env, fin, ind):
        """try: return f(..)  except E: H   with f declared to raise E (its Coq form returns an option)"""
        pad = "  " * ind
        if self.spec.get("try_collect"):
            r_ = self.try_collect(s, rest, env, fin, ind)          # (tsmall)
            if r_ is not None:
                return r_
        nf = self.next_form(s)
        if nf is not None:
            x, it = nf
            if it not in env or not self.is_list(env[it]):
                raise Unsupported(f"next of {it}")
            ity = self.item_of(env[it])
            want = self.declared.get(x)
            val = self.coerce("v_", ity, want, f"(next({it}))")
            env_ok = self.bind(self.bind(env, x, want or ity), it, env[it])
            ok = self.block(rest, env_ok, fin, ind + 2)
            hb = self.block(list(s.handlers[0].body) + rest, env, fin, ind + 1)
            return (f"{pad}match {cname(it)} with\n{pad}| v_ :: it_ =>\n{pad}  let {cname(x)} := {val} in\n"
                    f"{pad}  let {cname(it)} := it_ in\n{ok}\n{pad}| [] =>\n{hb}\n{pad}end")
        nx = self.next_form_ext(s, env)
        if nx is not None:
            return self.try_next_ext(s, nx, rest, env, fin, ind)
        if s.orelse or s.finalbody or len(s.handlers) != 1 or len(s.body) != 1:
            raise Unsupported("try shape")
        h = s.handlers[0]
        if h.name is not None or not isinstance(h.type, ast.Name) or h.type.id not in EXCEPTIONS:
            raise Unsupported("except clause")
        b = s.body[0]
        ef = self.effect_of(b)
        if ef is not None and isinstance(ef[2], dict) and ef[2].get("raises"):
            # try: <effect that raises E when its precondition fails>  except E: H
            key, c, how = ef
            exc, present = how["raises"]
            if exc != h.type.id or key is None or c.keywords or len(c.args) != len(how["args"]):
                raise Unsupported("try around an effect that is not declared to raise this exception")
            ts = [self.expr(a, env, t)[0] for a, t in zip(c.args, how["args"])]
            test = present.format(*ts, var=cname(key))
            self.in_try = True
            try:
                ok = self.block([b] + rest, env, fin, ind + 1)
            finally:
                self.in_try = False
            hb = self.block(list(h.body) + rest, env, fin, ind + 1)
            return f"{pad}if {test} then\n{ok}\n{pad}else\n{hb}"
        if not (isinstance(b, ast.Return) and isinstance(b.value, ast.Call) and self.kind == "expr"):
            raise Unsupported("try body other than `return f(..)`")
        self.in_try = True
        try:
            t, ty = self.call(b.value, env)
        finally:
            self.in_try = False
        cs = self.last_raises
        if cs is None or cs.get("raises") != h.type.id or ty != SOME.get(self.ret_type, "O:" + self.ret_type):
            raise Unsupported("try around a call that is not declared to raise this exception")

        def fin_h(e2, k, v=None):
            if k == "raise" and v is None:
                return fin(e2, "raise", h.type.id)         # bare `raise` re-raises
            return fin(e2, k, v)
        ok = fin(env, "return", "v_")
        hb = self.block(list(h.body) + rest, env, fin_h, ind + 1)
        return f"{pad}match {t} with\n{pad}| Some v_ =>\n{pad}  {ok}\n{pad}| None =>\n{hb}\n{pad}end"

    def try_collect(self, s, rest, env, fin, ind):
        """(tsmall)  try: return tuple(GET(obj, f) for f in XS)
                     except E as e: raise T(..) from e
        with GET declared by spec "try_collect" (getter, coq, recv, item, exc, ret): its Coq form returns an option
        (None = it raises E).  The generator is consumed left to right by tuple(); the first failing call raises:
            match opt_all (map (fun f => GET obj f) XS) with Some v_ => return v_ | None => raise T end"""
        tc = self.spec["try_collect"]
        pad = "  " * ind
        if s.orelse or s.finalbody or len(s.handlers) != 1 or len(s.body) != 1:
            return None
        h, b = s.handlers[0], s.body[0]
        if not (isinstance(h.type, ast.Name) and h.type.id == tc["exc"] and h.name and len(h.body) == 1):
            return None
        r = h.body[0]
        if not (isinstance(r, ast.Raise) and isinstance(r.exc, ast.Call) and isinstance(r.exc.func, ast.Name)
                and r.exc.func.id in EXCEPTIONS and isinstance(r.cause, ast.Name) and r.cause.id == h.name):
            raise Unsupported("try_collect: handler shape")
        c = b.value if isinstance(b, ast.Return) else None
        if not (isinstance(c, ast.Call) and isinstance(c.func, ast.Name) and c.func.id == "tuple" and len(c.args) == 1
                and not c.keywords and isinstance(c.args[0], ast.GeneratorExp)):
            raise Unsupported("try_collect: body shape")
        g = c.args[0]
        if len(g.generators) != 1 or g.generators[0].ifs or g.generators[0].is_async or \
                not isinstance(g.generators[0].target, ast.Name):
            raise Unsupported("try_collect: generator shape")
        gen, elt = g.generators[0], g.elt
        f = gen.target.id
        if not (isinstance(elt, ast.Call) and isinstance(elt.func, ast.Name) and elt.func.id == tc["getter"]
                and len(elt.args) == 2 and not elt.keywords and isinstance(elt.args[1], ast.Name)
                and elt.args[1].id == f):
            raise Unsupported("try_collect: element shape")
        if self.kind != "expr" or not self.res or self.plain or rest or self.loop_depth or \
                any(n in env for n in ("tuple", tc["getter"])) or "opt_all" in self.all_names:
            raise Unsupported("try_collect: context")
        if any(isinstance(n, ast.Name) and n.id == f for n in ast.walk(elt.args[0])):
            raise Unsupported("try_collect: the receiver depends on the item")
        obj, _ = self.expr(elt.args[0], env, tc["recv"])
        xs, xty = self.expr0(gen.iter, env)
        if xty.startswith("O:") and is_path(gen.iter) and self.known_some(gen.iter, env):
            xs, xty = f"(match {xs} with Some v_ => v_ | None => [] end)", xty[2:]
        coqt = self.coq_type(xty)
        if not (coqt.strip("()").startswith("list ") or self.is_list(xty)) or \
                coqt.strip("()") != "list " + self.coq_type(tc["item"]):
            raise Unsupported(f"try_collect: iteration over {xty}")
        inner = self.bind(env, f, tc["item"])            # (the name check)
        val = self.coerce("v_", tc["ret"], self.ret_type, "(tuple(..))")
        ok = fin(env, "return", val)
        bad = fin(env, "raise", r.exc.func.id)
        return (f"{pad}match opt_all (map (fun {cname(f)} => {tc['coq']} {obj} {cname(f)}) {xs}) with\n"
                f"{pad}| Some v_ => {ok}\n{pad}| None => {bad}\n{pad}end")

    def next_form_ext(self, s, env):
        """try: T = next(IT); <statements without any call or raise>  except StopIteration: H
        with T / IT a local name or a field of a local record -> (target node, iterator node)"""
        if s.orelse or s.finalbody or len(s.handlers) != 1 or not s.body:
            return None
        h, b = s.handlers[0], s.body[0]
        if h.name is not None or not isinstance(h.type, ast.Name) or h.type.id != "StopIteration":
            return None
        if not (isinstance(b, ast.Assign) and len(b.targets) == 1 and isinstance(b.value, ast.Call)
                and isinstance(b.value.func, ast.Name) and b.value.func.id == "next" and "next" not in env
                and len(b.value.args) == 1 and not b.value.keywords):
            return None
        for x in s.body[1:]:
            for sub in ast.walk(x):
                if isinstance(sub, (ast.Call, ast.Raise, ast.Try, ast.For, ast.While, ast.Yield, ast.YieldFrom,
                                    ast.Subscript, ast.BinOp, ast.Await)):
                    # only next() may raise StopIteration inside this try
                    raise Unsupported("try: x = next(..) followed by a statement that could raise")
        return b.targets[0], b.value.args[0]

    def try_next_ext(self, s, nx, rest, env, fin, ind):
        pad = "  " * ind
        tg, it = nx
        # the iterator: its remaining items
        if isinstance(it, ast.Name):
            if it.id not in env or not self.is_list(env[it.id]):
                raise Unsupported(f"next of {ast.unparse(it)}")
            self.check_mutable_here(it.id)
            ity = self.item_of(env[it.id])
            it_text = cname(it.id)
            adv = f"{pad}  let {cname(it.id)} := it_ in\n"
            env_ok = self.bind(env, it.id, env[it.id])
        else:
            rf = self.record_field(it, env)
            if rf is None or not self.is_list(rf[2][2]):
                raise Unsupported(f"next of {ast.unparse(it)}")
            v, rd, (attr, proj, fty) = rf
            self.check_mutable_here(v, env)
            ity = self.item_of(fty)
            it_text = f"({proj} {cname(v)})"
            adv = f"{pad}  let {cname(v)} := {self.set_field(v, rd, attr, 'it_')} in\n" + self.write_back(env, v, pad + "  ")
            env_ok = env
        # the target
        if isinstance(tg, ast.Name):
            want = self.declared.get(tg.id)
            val = self.coerce("v_", ity, want, "(next(..))")
            env_ok = self.bind(env_ok, tg.id, want or ity)
            store = f"{pad}  let {cname(tg.id)} := {val} in\n"
        else:
            rf = self.record_field(tg, env_ok)
            if rf is None:
                raise Unsupported(f"assignment target {ast.unparse(tg)}")
            v, rd, (attr, proj, fty) = rf
            self.check_mutable_here(v, env_ok)
            val = self.coerce("v_", ity, fty, "(next(..))")
            store = f"{pad}  let {cname(v)} := {self.set_field(v, rd, attr, val)} in\n" + \
                self.write_back(env_ok, v, pad + "  ")
            env_ok = self.kill_path(env_ok, f"{v}.{attr}")
            if fty in OPT and ity == OPT[fty]:
                env_ok = self.with_nn(env_ok, {f"{v}.{attr}"})
        ok = self.block(list(s.body[1:]) + rest, env_ok, fin, ind + 1)
        hb = self.block(list(s.handlers[0].body) + rest, env, fin, ind + 1)
        # (next() consumes the item first, then the target is stored)
        return (f"{pad}match {it_text} with\n{pad}| v_ :: it_ =>\n{adv}{store}{ok}\n{pad}| [] =>\n{hb}\n{pad}end")

    # ---------------------------------------------------------------- loops
    def inner_for(self, s, rest, env, fin, ind):
        """a `for` directly in the body of a generator's loop: sub_for"""
        if s.orelse or not isinstance(s.target, ast.Name):
            raise Unsupported("nested loop shape")
        pad, p1, p2 = "  " * ind, "  " * (ind + 1), "  " * (ind + 2)
        nil = f"@nil {self.out_type}"
        state = [k for k in self.assigned(s.body, env) if k in env]
        if s.target.id in state:
            raise Unsupported("loop target is a variable that exists before the loop")
        state_ty = {k: (self.genparams[k[1:]] if k.startswith("@") else self.declared.get(k, env[k])) for k in state}

        def pack(e2):
            items = [self.coerce(cname(v), e2[v], state_ty[v], f"(state variable {v})") for v in state]
            return "tt" if not items else (items[0] if len(items) == 1 else "(" + ", ".join(items) + ")")
        names = [cname(v) for v in state]
        unpack = "_" if not names else (names[0] if len(names) == 1 else "'(" + ", ".join(names) + ")")
        (stream, sty), hs = self.hoisted(s.iter, env, lambda: self.expr0(s.iter, env))
        pre, post, env = self.hoist_prefix(hs, env, pad)
        if not self.is_list(sty):
            raise Unsupported(f"loop over {sty}")
        env_loop = dict(env)
        for v in state:
            env_loop = self.bind(env_loop, v, state_ty[v]) if not v.startswith("@") else env_loop
            env_loop[v] = state_ty[v]
        env_body = self.borrow(self.bind(env_loop, s.target.id, self.item_of(sty)), s.target.id)
        env_body["$y"] = False

        def fin_in(e2, k, v=None):
            if k in ("end", "continue"):
                return f"(out, {pack(e2)}, true)"
            if k == "break":
                return f"(out, {pack(e2)}, false)"
            raise Unsupported(f"{k} inside a nested loop")
        self.loop_depth += 1
        saved_opt, self.opt_body = self.opt_body, False
        try:
            body_t = self.block(s.body, env_body, fin_in, ind + 3)
        finally:
            self.loop_depth -= 1
            self.opt_body = saved_opt
        env_after = dict(env_loop)
        env_after["$y"] = True
        rest_t = self.block(rest, env_after, fin, ind)
        saved_rb, self.res_body = self.res_body, False
        try:
            pass
        finally:
            self.res_body = saved_rb
        return (f"{pre}{pad}let '(out1_, {unpack.lstrip(chr(39))}) :=\n{p1}sub_for\n{p2}(fun {unpack} {cname(s.target.id)} =>\n"
                f"{p2}  let out := {nil} in\n{body_t})\n{p2}{pack(env)} {stream} in\n"
                f"{pad}let out := out ++ out1_ in\n{rest_t}{post}")

    def inner_while(self, s, rest, env, fin, ind):
        """a `while` directly in the body of a generator's `for` (run_for_o): sub_while"""
        if s.orelse:
            raise Unsupported("loop with else")
        pad, p1, p2 = "  " * ind, "  " * (ind + 1), "  " * (ind + 2)
        nil = f"@nil {self.out_type}"
        state = [k for k in self.assigned(s.body, env) if k in env]
        state_ty = {k: (self.genparams[k[1:]] if k.startswith("@") else self.declared.get(k, env[k])) for k in state}

        def pack(e2):
            items = [self.coerce(cname(v), e2[v], state_ty[v], f"(state variable {v})") for v in state]
            return "tt" if not items else (items[0] if len(items) == 1 else "(" + ", ".join(items) + ")")
        names = [cname(v) for v in state]
        unpack = "_" if not names else (names[0] if len(names) == 1 else "'(" + ", ".join(names) + ")")
        env_loop = dict(env)
        for v in state:
            env_loop = self.kill(env_loop, v) if not v.startswith("@") else env_loop
            env_loop[v] = state_ty[v]
        cond, _ = self.expr(s.test, env_loop, "B")
        env_body = self.refine(s.test, env_loop, True)
        env_body["$y"] = False

        def fin_in(e2, k, v=None):
            if k in ("end", "continue"):
                return f"(out, {pack(e2)}, true)"
            if k == "break":
                return f"(out, {pack(e2)}, false)"
            raise Unsupported(f"{k} inside a nested loop")
        self.loop_depth += 1
        try:
            body_t = self.block(s.body, env_body, fin_in, ind + 3)
        finally:
            self.loop_depth -= 1
        env_after = dict(env_loop)
        env_after["$y"] = True
        rest_t = self.block(rest, env_after, fin, ind + 1)
        return (f"{pad}match sub_while fuel\n{p2}(fun {unpack} => {cond})\n{p2}(fun {unpack} =>\n{p2}  let out := {nil} in\n"
                f"{body_t})\n{p2}{pack(env)} with\n{pad}| None => None\n"
                f"{pad}| Some (out1_, {unpack.lstrip(chr(39))}) =>\n{p1}let out := out ++ out1_ in\n{rest_t}\n{pad}end")

    def loop(self, s, rest, env, fin, ind):
        if self.spec.get("for_r") and isinstance(s, ast.For) and self.loop_depth == 0 and self.kind == "expr" and \
                self.res and not self.plain:
            return self.met_loop_for_r(s, rest, env, fin, ind)            # (third extension, metrics)
        if self.loop_depth == 1 and self.opt_body and isinstance(s, ast.While) and self.kind == "gen":
            return self.inner_while(s, rest, env, fin, ind)
        if self.loop_depth == 1 and isinstance(s, ast.For) and self.kind == "gen":
            return self.inner_for(s, rest, env, fin, ind)
        if self.loop_depth > 0:
            raise Unsupported("nested loop")
        if s.orelse:
            raise Unsupported("loop with else")
        is_for = isinstance(s, ast.For)
        if is_for and not isinstance(s.target, ast.Name):
            raise Unsupported("tuple loop target")
        if not is_for and (not self.res or self.plain):
            raise Unsupported("while loop in a function without a res result")
        pad = "  " * ind
        nil = f"@nil {self.out_type}"
        gen = self.kind == "gen"
        assigned = self.assigned(s.body, env)
        state = [k for k in assigned if k in env]
        if is_for and s.target.id in state:
            raise Unsupported("loop target is a variable that exists before the loop")
        state_ty = {k: (self.genparams[k[1:]] if k.startswith("@") else self.declared.get(k, env[k])) for k in state}

        def pack(e2):
            items = [self.coerce(cname(v), e2[v], state_ty[v], f"(state variable {v})") for v in state]
            return "tt" if not items else (items[0] if len(items) == 1 else "(" + ", ".join(items) + ")")

        names = [cname(v) for v in state]
        unpack = "_" if not names else (names[0] if len(names) == 1 else "'(" + ", ".join(names) + ")")
        env_loop = dict(env)
        for v in state:
            env_loop = self.kill(env_loop, v) if not v.startswith("@") else env_loop
            env_loop[v] = state_ty[v]
        env_loop["$y"] = False
        # facts about loop-carried variables do not survive an iteration; the others do
        if is_for:
            stream, sty = self.expr0(s.iter, env)
            if not self.is_list(sty):
                raise Unsupported(f"loop over {sty}")
            ity = self.item_of(sty)
            env_body = self.borrow(self.bind(env_loop, s.target.id, ity), s.target.id)
            head = f"(fun {unpack} {cname(s.target.id)} =>"
        else:
            cond, _ = self.expr(s.test, env_loop, "B")
            env_body = self.refine(s.test, env_loop, True)
            head = f"(fun {unpack} =>"
        p2 = "  " * (ind + 2)
        p1 = "  " * (ind + 1)
        if gen:
            if not is_for and env.get("$y"):
                raise Unsupported("while loop after a yield")
            opt = is_for and any(isinstance(x, ast.While) for b in s.body for x in ast.walk(b))
            if opt and (not self.res or self.plain or env.get("$y")):
                raise Unsupported("a loop nested in a loop needs a res result")
            resb = is_for and not opt and any(self.has_res_call(b) for b in s.body)
            if resb and (not self.res or self.plain or env.get("$y")):
                raise Unsupported("a loop that calls a function with a res result needs a res result")

            def fin_body(e2, k, v=None):
                ctl = {"end": "Cont", "continue": "Cont", "break": "Brk", "return": "Ret"}.get(k)
                if ctl is None:
                    raise Unsupported(f"{k} inside a loop")
                if resb:
                    return f"RDone (out, {pack(e2)}, {ctl})"
                return f"Some (out, {pack(e2)}, {ctl})" if opt else f"(out, {pack(e2)}, {ctl})"

            def fin_post(e2, k, v=None):
                if k in ("end", "return"):
                    return "out"
                raise Unsupported(f"{k} after the loop")
            self.loop_depth += 1
            self.plain += 1
            self.opt_body = opt
            self.res_body = resb
            try:
                body_t = self.block(s.body, env_body, fin_body, ind + 2)
            finally:
                self.loop_depth -= 1
                self.opt_body = False
                self.res_body = False
            try:
                # (variables assigned only inside the loop body are not in scope after the loop: a use
                #  there is an unknown name, i.e. Unsupported)
                post_t = self.block(rest, env_loop, fin_post, ind + 2)
            finally:
                self.plain -= 1
            fns = (f"{p1}{head}\n{p2}let out := {nil} in\n{body_t})\n"
                   f"{p1}(fun {unpack} =>\n{p2}let out := {nil} in\n{post_t})\n")
            if opt:
                return f"{pad}run_for_o\n{fns}{p1}{pack(env)} {stream}"
            if resb:
                return f"{pad}run_for_r\n{fns}{p1}{pack(env)} {stream}"
            if is_for:
                text = f"run_for\n{fns}{p1}{pack(env)} {stream}"
                if env.get("$y"):
                    text = f"out ++ {text}"
                if self.res and not self.plain:
                    return f"{pad}RDone ({text})"
                return pad + text
            return f"{pad}run_while fuel\n{p1}(fun {unpack} => {cond})\n{fns}{p1}{pack(env)}"
        # value-returning functions and procedures
        def fin_body(e2, k, v=None):
            if k in ("end", "continue"):
                return f"(SCont {pack(e2)})"
            if k == "break":
                return f"(SBrk {pack(e2)})"
            return f"(SRet {fin(e2, k, v)})"
        self.loop_depth += 1
        try:
            body_t = self.block(s.body, env_body, fin_body, ind + 2)
        finally:
            self.loop_depth -= 1
        post_t = self.block(rest, env_loop, fin, ind + 2)
        fns = f"{p1}{head}\n{body_t})\n{p1}(fun {unpack} =>\n{post_t})\n"
        if is_for:
            return f"{pad}iter_for\n{fns}{p1}{pack(env)} {stream}"
        return f"{pad}iter_while fuel\n{p1}(fun {unpack} => {cond})\n{fns}{p1}{pack(env)}"

    # ---------------------------------------------------------------- functions
    def function(self, fdef: ast.FunctionDef):
        spec = self.spec
        self.declared = dict(spec.get("locals", {}))
        self.yield_type = spec.get("yield_type", "IVL")
        self.in_try = False
        self.last_raises = None
        kind = self.kind
        for h in REC_FUNC_HOOKS:
            fdef = h(self, fdef)
        a = fdef.args
        # (tsmall) spec["vararg"] / spec["kwarg"] name the parameter; (extension mem) spec["kwarg"] may instead
        # give the dict type of **kw (an upper-case type name)
        kwspec = spec.get("kwarg")
        kw_ok = a.kwarg is None or (kwspec and (kwspec == a.kwarg.arg or kwspec.isupper()))
        if (a.vararg and a.vararg.arg != spec.get("vararg")) or not kw_ok:
            raise Unsupported("*args / **kwargs parameters")
        pyargs = [x.arg for x in a.posonlyargs + a.args + a.kwonlyargs]
        pyargs += [x.arg for x in (a.vararg, a.kwarg) if x is not None]      # (tsmall) declared by the spec
        self.pyargs = set(pyargs)
        self.sum_names = set()
        self.all_names = {x.id for x in ast.walk(fdef) if isinstance(x, ast.Name)} | set(pyargs)
        self.fdef = fdef                                 # (third extension, metrics)
        env = {"$nn": frozenset(), "$y": False}
        params = [f"{{{v} : Type}}" for v in spec.get("tyvars", [])]
        body = list(fdef.body)
        if spec.get("returned_generator"):
            body = self.inline_returned_generator(body, spec["returned_generator"])
        if spec.get("stop_after_loop"):
            # only the statements up to and including the first loop are translated
            idx = [i for i, s in enumerate(body) if isinstance(s, (ast.For, ast.While))]
            if not idx:
                raise Unsupported("no loop")
            body = body[:idx[0] + 1]
        has_while = self.has_while(body)
        if has_while:
            if not self.res:
                raise Unsupported("while loop in a function without a res result")
            params.append("(fuel : nat)")
        self.genparams = {}
        for pname, pty in spec["params"]:
            if self.is_type(pty):
                params.append(f"({cname(pname)} : {self.coq_type(pty)})")
                if pname in pyargs:
                    env[pname] = pty
                    if pty in self.sums:
                        self.sum_names.add(pname)
                else:
                    self.genparams[pname] = pty      # never visible as a Python name
            else:                                    # a function-typed parameter given as Coq text
                params.append(f"({pname} : {pty})")
                self.genparams[pname] = None
        if has_while:
            self.genparams["fuel"] = None
        if spec.get("check_arg_order"):
            # (third extension, metrics) the spec lists the Python parameters in the order the `def` has them
            # (callers of the generated definition pass positional arguments in the spec's order);
            # spec dropped_args: Python parameters that are deliberately not in scope (e.g. tz)
            want_order = [p for p in pyargs if p not in set(spec.get("dropped_args", []))]
            if [p for p, _ in spec["params"] if p in pyargs] != want_order:
                raise Unsupported(f"the parameters of {fdef.name} are {pyargs}: not the order the spec declares")
        for st_ in self.state:
            if not self.is_type(self.genparams.get(st_)):
                raise Unsupported(f"state variable {st_} is not a typed generated parameter")
            env["@" + st_] = self.genparams[st_]
        self.spec_names = set()
        for cs in list(self.calls.values()) + list(self.methods.values()):
            for c in (cs if isinstance(cs, list) else [cs]):
                self.spec_names.add((c[0] if isinstance(c, tuple) else c["coq"]).split()[0])
        for fn_, _t in list(self.attrs.values()) + list(self.binops.values()):
            self.spec_names.add(fn_)
        for eqb, lits in self.enums.values():
            self.spec_names.add(eqb)
            self.spec_names |= set(lits.values())
        name = spec["name"]
        for s in body:
            for sub in ast.walk(s):
                if isinstance(sub, ast.With) and all(ast.unparse(it.context_expr) in self.with_ok and
                                                     it.optional_vars is None for it in sub.items):
                    continue        # `with self._lock:` — the lock discipline is tie B's subject (C11)
                if isinstance(sub, (ast.With, ast.AsyncFunctionDef, ast.ClassDef, ast.Global,
                                    ast.Delete, ast.Await, ast.NamedExpr)):
                    raise Unsupported(f"construct {type(sub).__name__}")
                if isinstance(sub, ast.Try) and len(sub.handlers) == 1 and \
                        isinstance(sub.handlers[0].type, ast.Name) and sub.handlers[0].type.id == "StopIteration":
                    continue        # try: x = next(it) except StopIteration: .. needs no res
                if pysrc_mem.try_effect_form(self, sub) is not None:
                    continue        # (extension mem) try: <effect>; return .. except E: .. needs no res
                if isinstance(sub, (ast.Raise, ast.Try)) and not self.res:
                    raise Unsupported(f"{type(sub).__name__} in a function without a res result")
        wrap = (lambda t: f"(RDone {t})") if self.res else (lambda t: t)

        def raise_text(e2, v):
            if not self.res or self.plain:
                raise Unsupported("raise in a function (or a loop) without a res result")
            if v is None or v == "?":
                raise Unsupported("raise without a known exception class")
            if e2.get("$y"):
                raise Unsupported("raise after a yield")
            return f"(RRaise {v})"

        def add_fuel():
            if self.uses_fuel and not has_while:
                params.insert(len(spec.get("tyvars", [])), "(fuel : nat)")

        if kind in ("check", "ctor"):
            return self.function_small(fdef, body, env, params, raise_text, wrap)
        if kind == "method":
            # a method of a record class that updates self: the result is (self afterwards, returned value)
            if self.res or "self" not in env or env["self"] not in self.records:
                raise Unsupported("a method needs a record-typed self and a plain result")
            self.ret_type = spec["ret"]
            rty = self.coq_type(self.ret_type)

            def fin(e2, k, v=None):
                if k == "return" and v is not None:
                    return f"(self, {v})"
                if k in ("end", "return") and self.ret_type == "U":
                    return "(self, tt)"
                raise Unsupported("method falls off its end without returning a value" if k == "end"
                                  else f"{k} outside a loop")
            self.kind = "expr"          # (statements are those of a value-returning function)
            try:
                text = self.block(body, env, fin, 1)
            finally:
                self.kind = "method"
            return f"Definition {name} {' '.join(params)} : {self.coq_type(env['self'])} * {rty} :=\n{text}.\n"
        if kind == "init":
            # __init__: first every field is stored, once, from expressions that do not mention self; then
            # the object exists and the remaining statements run on it
            rt = spec["record"]
            rd = self.records[rt]
            self.check_class_fields(rd)
            vals, i = {}, 0
            stmts = [x for x in body if not (isinstance(x, ast.Expr) and isinstance(x.value, ast.Constant))]
            while i < len(stmts) and len(vals) < len(rd["fields"]):
                x = stmts[i]
                tg = x.targets[0] if isinstance(x, ast.Assign) and len(x.targets) == 1 else getattr(x, "target", None)
                if not (isinstance(x, (ast.Assign, ast.AnnAssign)) and x.value is not None and
                        isinstance(tg, ast.Attribute) and isinstance(tg.value, ast.Name) and tg.value.id == "self"):
                    break
                f = [fd for fd in rd["fields"] if fd[0] == tg.attr]
                if not f or tg.attr in vals:
                    raise Unsupported(f"self.{tg.attr} in __init__")
                if isinstance(x, ast.AnnAssign) and ann_type(x.annotation) != f[0][2]:
                    raise Unsupported(f"self.{tg.attr} is annotated {ast.unparse(x.annotation)}, declared {f[0][2]}")
                if any(isinstance(n, ast.Name) and n.id == "self" for n in ast.walk(x.value)):
                    raise Unsupported("a field initialised from self")
                vals[tg.attr] = self.expr(x.value, env, f[0][2])[0]
                i += 1
            if len(vals) != len(rd["fields"]):
                raise Unsupported("__init__ does not start by storing every declared field")
            env = self.bind(env, "self", rt)

            def fin(e2, k, v=None):
                if k == "end" or (k == "return" and v is None):
                    return "self"
                raise Unsupported(f"{k} in __init__")
            self.ret_type = None
            text = self.block(stmts[i:], env, fin, 1)
            mk = f"({rd['mk']} {' '.join(vals[fd[0]] for fd in rd['fields'])})"
            return f"Definition {name} {' '.join(params)} : {rd['coq']} :=\n  let self := {mk} in\n{text}.\n"
        if kind == "expr":
            self.ret_type = spec["ret"]
            rty = self.coq_type(self.ret_type)

            def fin(e2, k, v=None):
                if k == "return":
                    return wrap(v)
                if k == "raise":
                    return raise_text(e2, v)
                if k == "end" and self.ret_type == "U" and spec.get("unit_fn"):
                    return wrap("tt")                    # (third extension, metrics) a `-> None` function
                raise Unsupported("function falls off its end without returning a value" if k == "end"
                                  else f"{k} outside a loop")
            text = self.block(body, env, fin, 1)
            add_fuel()
            full = f"res {rty if ' ' not in rty else '(' + rty + ')'}" if self.res else rty
            return f"Definition {name} {' '.join(params)} : {full} :=\n{text}.\n"
        self.ret_type = None
        if kind == "proc":
            if not self.state:
                raise Unsupported("a proc needs state variables")
            tup = " * ".join(self.coq_type(self.genparams[v]) for v in self.state)
            if spec.get("ret"):                                  # (extension mem) a procedure with a result
                rt_ = self.coq_type(spec["ret"])
                tup += f" * {rt_ if ' ' not in rt_ else '(' + rt_ + ')'}"
            if spec.get("yields"):
                tup += f" * list {self.out_type}"
            tup = f"({tup})" if (" " in tup) else tup

            def fin(e2, k, v=None):
                if spec.get("ret") and k in ("end", "return"):       # (extension mem)
                    if k == "end" or v is None or spec.get("yields"):
                        raise Unsupported("a procedure with a result falls off its end / returns nothing")
                    return wrap("(" + ", ".join([v2 for v2 in self.state] + [v]) + ")")
                if k in ("end", "return"):
                    items = [v2 for v2 in self.state] + (["out"] if spec.get("yields") else [])
                    return wrap(items[0] if len(items) == 1 else "(" + ", ".join(items) + ")")
                if k == "raise":
                    return raise_text(e2, v)
                raise Unsupported(f"{k} outside a loop")
            text = self.block(body, env, fin, 1)
            add_fuel()
            full = f"res {tup}" if self.res else tup
            head = f"  let out := @nil {self.out_type} in\n" if spec.get("yields") else ""
            return f"Definition {name} {' '.join(params)} : {full} :=\n{head}{text}.\n"
        # generator
        out_list = f"list {self.out_type}"

        def fin(e2, k, v=None):
            if k in ("end", "return"):
                return "out" if self.plain else wrap("out")
            if k == "raise":
                return raise_text(e2, v)
            raise Unsupported(f"{k} outside a loop")
        text = self.block(body, env, fin, 1)
        add_fuel()
        full = f"res ({out_list})" if self.res else out_list
        has_loop = any(isinstance(s, (ast.For, ast.While)) for s in body)
        head = "" if (has_loop and not self.uses_out_before_loop(body)) else f"  let out := @nil {self.out_type} in\n"
        return f"Definition {name} {' '.join(params)} : {full} :=\n{head}{text}.\n"

    @staticmethod
    def inline_returned_generator(body, gname):
        """def f(..): PRE; def g(): GEN_BODY; return g()   — f returns the generator g() —   is read as the
        generator  PRE; GEN_BODY  where an earlier `return e` of f becomes `yield from e; return`.
        Accepted only if g has no parameters, no nonlocal/global, is defined at the top level of f just
        before the final `return g()`, and is mentioned nowhere else."""
        if len(body) < 2:
            raise Unsupported("returned generator shape")
        g, last = body[-2], body[-1]
        if not (isinstance(g, ast.FunctionDef) and g.name == gname and not g.decorator_list and
                not (g.args.args or g.args.posonlyargs or g.args.kwonlyargs or g.args.vararg or g.args.kwarg) and
                isinstance(last, ast.Return) and isinstance(last.value, ast.Call) and
                isinstance(last.value.func, ast.Name) and last.value.func.id == gname and
                not last.value.args and not last.value.keywords):
            raise Unsupported("returned generator shape")
        for sub in ast.walk(g):
            if isinstance(sub, (ast.Nonlocal, ast.Global)) or (isinstance(sub, ast.Name) and sub.id == gname):
                raise Unsupported("returned generator shape")
        if not any(isinstance(sub, (ast.Yield, ast.YieldFrom)) for sub in ast.walk(g)):
            raise Unsupported(f"{gname} is not a generator")
        pre = body[:-2]
        for x in pre:
            for sub in ast.walk(x):
                if (isinstance(sub, ast.Name) and sub.id == gname) or \
                        isinstance(sub, (ast.Yield, ast.YieldFrom, ast.FunctionDef, ast.Lambda)):
                    raise Unsupported("returned generator shape")

        class R(ast.NodeTransformer):
            def visit_Return(self, node):
                if node.value is None:
                    raise Unsupported("bare return before the returned generator")
                return [ast.Expr(value=ast.YieldFrom(value=node.value)), ast.Return(value=None)]
        pre = [R().visit(x) for x in pre]
        out = []
        for x in pre:
            out.extend(x if isinstance(x, list) else [x])
        return [ast.fix_missing_locations(x) for x in out] + list(g.body)

    def check_class_fields(self, rd):
        """every attribute any method of the class stores on self is a declared field of the record"""
        cd = self.classdef
        if cd is None or cd.name != rd["cls"]:
            raise Unsupported("record class not found")
        declared = {f[0] for f in rd["fields"]}
        for sub in ast.walk(cd):
            if isinstance(sub, ast.Attribute) and isinstance(sub.ctx, (ast.Store, ast.Del)) and \
                    isinstance(sub.value, ast.Name) and sub.value.id == "self" and sub.attr not in declared:
                raise Unsupported(f"class {cd.name} stores self.{sub.attr}, which is not a declared field")
        if any(isinstance(b, ast.Name) and b.id != "object" or not isinstance(b, ast.Name) for b in cd.bases) or \
                cd.keywords or cd.decorator_list:
            raise Unsupported(f"class {cd.name} has base classes or decorators")
        for n in cd.body:
            if isinstance(n, ast.FunctionDef) and n.name in ("__setattr__", "__getattr__", "__getattribute__",
                                                             "__slots__", "__del__"):
                raise Unsupported(f"class {cd.name} defines {n.name}")

    # ---------------------------------------------------------------- (tsmall) kinds "check" and "ctor"
    def function_small(self, fdef, body, env, params, raise_text, wrap):
        """kind "check": a function that returns None and whose only effect is that it may raise
                         (result: res unit; spec res=True).
           kind "ctor":  an __init__ that only stores fields (result: the record of the stored fields, spec
                         "record").  Accepted statements: `self.f = e` / `self.f: T = e` for a declared field f,
                         `if`, `raise`, docstrings; nothing may READ self (a read of a field that is not stored
                         yet would be an AttributeError); every field must be stored on every path that ends
                         normally; the stores the spec lists in "ignore_stores" (exact text of the right-hand
                         side, top level only, e.g. a lock) are not part of the record."""
        spec, name = self.spec, self.spec["name"]
        if self.kind == "check":
            if not self.res:
                raise Unsupported("a check needs a res result")

            def fin(e2, k, v=None):
                if k == "end" or (k == "return" and v is None):
                    return "(RDone tt)"
                if k == "raise":
                    return raise_text(e2, v)
                raise Unsupported(f"{k} outside a loop")
            text = self.block(body, env, fin, 1)
            return f"Definition {name} {' '.join(params)} : res unit :=\n{text}.\n"
        rt = spec["record"]
        rd = self.records[rt]
        self.check_ctor_class(rd)
        if fdef.name != "__init__" or "self" in env:
            raise Unsupported("a ctor is an __init__ whose self is not a parameter of the generated definition")
        ignore = spec.get("ignore_stores", {})
        fields = {py: ty for py, _proj, ty in rd["fields"]}
        ok_self = set()

        def prepare(stmts, top):
            out = []
            for x in stmts:
                if isinstance(x, ast.Expr) and isinstance(x.value, ast.Constant) and isinstance(x.value.value, str):
                    continue
                if isinstance(x, (ast.Pass, ast.Raise)):
                    out.append(x)
                    continue
                if isinstance(x, ast.If):
                    out.append(ast.If(test=x.test, body=prepare(x.body, False) or [ast.Pass()],
                                      orelse=prepare(x.orelse, False)))
                    continue
                tg = x.targets[0] if isinstance(x, ast.Assign) and len(x.targets) == 1 else \
                    (x.target if isinstance(x, ast.AnnAssign) else None)
                if not (isinstance(tg, ast.Attribute) and isinstance(tg.value, ast.Name) and tg.value.id == "self"
                        and getattr(x, "value", None) is not None):
                    raise Unsupported(f"statement in __init__: {ast.unparse(x)[:60]}")
                ok_self.add(id(tg.value))
                if top and tg.attr in ignore:
                    if ast.unparse(x.value) != ignore[tg.attr] or tg.attr in fields:
                        raise Unsupported(f"self.{tg.attr} is not stored as {ignore[tg.attr]}")
                    continue
                if tg.attr not in fields:
                    raise Unsupported(f"self.{tg.attr} is not a declared field of {rt}")
                if isinstance(x, ast.AnnAssign):
                    at = ast.unparse(x.annotation)
                    decl = self.annotations.get(at) or ann_type(x.annotation)
                    if decl != fields[tg.attr] and not (isinstance(decl, (list, tuple)) and fields[tg.attr] in decl):
                        raise Unsupported(f"self.{tg.attr} is annotated {at}, declared {fields[tg.attr]}")
                    # (an annotation has no run-time effect)
                    x = ast.copy_location(ast.Assign(targets=[x.target], value=x.value), x)
                out.append(x)
            return out
        stmts = prepare(body, True)
        for sub in ast.walk(ast.Module(body=body, type_ignores=[])):
            if isinstance(sub, ast.Name) and sub.id == "self" and id(sub) not in ok_self:
                raise Unsupported("__init__ reads self")
        self.selfattrs = dict(self.selfattrs)
        self.state = []
        for py, _proj, ty in rd["fields"]:
            p = "self_" + py.lstrip("_")
            if p in self.genparams or p in self.all_names:
                raise Unsupported(f"the name {p} is used by the function")
            self.genparams[p] = ty
            self.selfattrs[py] = (p, ty)
            self.state.append(p)

        def fin(e2, k, v=None):
            if k == "end" or (k == "return" and v is None):
                missing = [p for p in self.state if "@" + p not in e2]
                if missing:
                    raise Unsupported(f"__init__ can end without storing {', '.join(missing)}")
                return wrap(f"({rd['mk']} {' '.join(self.state)})")
            if k == "raise":
                return raise_text(e2, v)
            raise Unsupported(f"{k} in __init__")
        self.ret_type = None
        text = self.block(stmts, env, fin, 1)
        rty = self.coq_type(rt)
        full = f"res {rty if ' ' not in rty else '(' + rty + ')'}" if self.res else rty
        return f"Definition {name} {' '.join(params)} : {full} :=\n{text}.\n"

    def check_ctor_class(self, rd):
        """as check_class_fields, for a class with base classes: the bases must be spelled exactly as the
        spec's "bases" says (what they define is checked by the spec's "facts")"""
        cd = self.classdef
        if cd is None or cd.name != rd["cls"]:
            raise Unsupported("record class not found")
        declared = {f[0] for f in rd["fields"]} | set(self.spec.get("ignore_stores", {}))
        for sub in ast.walk(cd):
            if isinstance(sub, ast.Attribute) and isinstance(sub.ctx, (ast.Store, ast.Del)) and \
                    isinstance(sub.value, ast.Name) and sub.value.id == "self" and sub.attr not in declared:
                raise Unsupported(f"class {cd.name} stores self.{sub.attr}, which is not a declared field")
        mutable = set(self.spec.get("mutable_fields", ())) | set(self.spec.get("ignore_stores", {}))
        for n in cd.body:
            # outside __init__, only the fields the spec declares mutable are ever stored again
            if isinstance(n, (ast.FunctionDef, ast.AsyncFunctionDef)) and n.name != "__init__":
                for sub in ast.walk(n):
                    if isinstance(sub, ast.Attribute) and isinstance(sub.ctx, (ast.Store, ast.Del)) and \
                            sub.attr in {f[0] for f in rd["fields"]} and sub.attr not in mutable:
                        raise Unsupported(f"{cd.name}.{n.name} stores .{sub.attr}, not declared a mutable field")
        for sub in ast.walk(cd):
            # no attribute store that is not spelled `self.f = ..`
            if (isinstance(sub, ast.Name) and sub.id in ("setattr", "delattr", "vars")) or \
                    (isinstance(sub, ast.Attribute) and sub.attr in ("__dict__", "__setattr__", "__delattr__")):
                raise Unsupported(f"class {cd.name} uses {ast.unparse(sub)[:30]}")
        if [ast.unparse(b) for b in cd.bases] != list(self.spec.get("bases", [])) or cd.keywords:
            raise Unsupported(f"the base classes of {cd.name} are not {self.spec.get('bases', [])}")
        for d in cd.decorator_list:
            raise Unsupported(f"class {cd.name} has decorators")
        for n in cd.body:
            if isinstance(n, ast.FunctionDef) and n.name in ("__setattr__", "__getattr__", "__getattribute__",
                                                             "__new__", "__init_subclass__", "__del__"):
                raise Unsupported(f"class {cd.name} defines {n.name}")
            if isinstance(n, (ast.Assign, ast.AnnAssign)) and any(
                    isinstance(t, ast.Name) and t.id == "__slots__"
                    for t in (n.targets if isinstance(n, ast.Assign) else [n.target])):
                raise Unsupported(f"class {cd.name} defines __slots__")

    def has_while(self, stmts):
        """is there a `while` outside the branches the spec declares untranslated?"""
        for s in stmts:
            if isinstance(s, ast.While):
                return True
            if isinstance(s, ast.If):
                if ast.unparse(s.test) not in self.skip_tests and self.has_while(s.body):
                    return True
                if self.has_while(s.orelse):
                    return True
            elif isinstance(s, (ast.For, ast.Try)):
                if any(isinstance(x, ast.While) for x in ast.walk(s)):
                    return True
        return False

    @staticmethod
    def uses_out_before_loop(body):
        """does anything outside the (single, top-level) loop mention `out`?"""
        for s in body:
            if isinstance(s, (ast.For, ast.While)):
                return False
            for sub in ast.walk(s):
                if isinstance(sub, (ast.Yield, ast.YieldFrom, ast.For, ast.While, ast.Return)):
                    return True
        return False

    # ================================================================ third extension (metrics.py)
    # Everything below is additive; each construct is switched on by a spec key only the metrics specs use
    # (harness/translate/srcspecs_met.py lists the TRUSTED readings).
    def met_stored_names(self):
        """names bound anywhere inside the function being translated (assignment / loop / comprehension /
        with / except / match targets, nested defs, imports, global / nonlocal declarations)"""
        out = set()
        for x in ast.walk(self.fdef):
            if isinstance(x, ast.Name) and isinstance(x.ctx, (ast.Store, ast.Del)):
                out.add(x.id)
            elif isinstance(x, (ast.FunctionDef, ast.AsyncFunctionDef, ast.ClassDef)) and x is not self.fdef:
                out.add(x.name)
            elif isinstance(x, ast.alias):
                out.add((x.asname or x.name).split(".")[0])
            elif isinstance(x, ast.ExceptHandler) and x.name:
                out.add(x.name)
            elif isinstance(x, (ast.Global, ast.Nonlocal)):
                out |= set(x.names)
            elif isinstance(x, (getattr(ast, "MatchAs", ()), getattr(ast, "MatchStar", ()))) and x.name:
                out.add(x.name)
            elif isinstance(x, getattr(ast, "MatchMapping", ())) and x.rest:
                out.add(x.rest)
        return out

    def met_global_name(self, name, env):
        """is `name` here the module-level / builtin name (not a parameter, not a local of this function)?"""
        return name not in env and name not in self.pyargs and name not in self.met_stored_names()

    def met_passthrough(self, a, name, env, fn):
        if not (isinstance(a, ast.Name) and a.id == name and name in self.pyargs and name not in env
                and name not in self.met_stored_names()):
            raise Unsupported(f"argument of {fn} is not the untouched parameter {name}")

    def fun_arg(self, e, env):
        """a function passed as a value: a closure the spec declares (closure_defs, defined on this path) or a
        module-level / builtin function the spec declares (funargs)"""
        if not isinstance(e, ast.Name):
            raise Unsupported(f"function argument {ast.unparse(e)[:40]}")
        n = e.id
        if env.get(n) == "FUNV":
            return self.__dict__.setdefault("funvals", {})[n]
        if n in self.spec.get("funargs", {}) and self.met_global_name(n, env):
            return self.spec["funargs"][n]
        raise Unsupported(f"function value {n}")

    def met_float_const(self, e):
        """TRUSTED reading (ratio_type): the float 0.0 is the exact ratio 0 / 1"""
        if repr(e.value) != "0.0":
            raise Unsupported(f"constant {e.value!r}")
        return "(0, 1)", self.spec["ratio_type"]

    def met_ratio(self, e, env):
        """TRUSTED reading (ratio_type): int / int (a float) is the exact pair (numerator, denominator);
        that the denominator is positive wherever a pair is built is PROVED of the generated text"""
        a, _ = self.expr(e.left, env, "Z")
        b, _ = self.expr(e.right, env, "Z")
        return f"({a}, {b})", self.spec["ratio_type"]

    def met_slice(self, e, env):
        """x[a:b] with x of a declared timeline type: a call into the expression layer (spec slices)"""
        sl = e.slice
        if sl.lower is None or sl.upper is None or sl.step is not None:
            raise Unsupported(f"slice {ast.unparse(e)[:40]}")
        xs, xty = self.expr0(e.value, env)
        if xty not in self.spec["slices"]:
            raise Unsupported(f"slice of {xty}")
        fnc, ret = self.spec["slices"][xty]
        a, _ = self.expr(sl.lower, env, "Z")
        b, _ = self.expr(sl.upper, env, "Z")
        return f"({fnc} {xs} {a} {b})", ret

    def met_defaultdict(self, e, env, want):
        """defaultdict(list) for a declared dict type marked defaultdict: the empty dictionary"""
        dd = self.dicts[want]
        if not self.met_global_name("defaultdict", env) or not self.met_global_name("list", env) or \
                not self.is_list(dd["val"]):
            raise Unsupported("defaultdict(list)")
        return f"(@nil ({self.coq_type(dd['key'])} * ({self.coq_type(dd['val'])})))", want

    def met_call(self, e, fn, env):
        if fn == "sum" and len(e.args) == 1 and not e.keywords and self.met_global_name("sum", env):
            # sum(xs) of ints: 0 + x1 + x2 + .., left to right
            t, ty = self.expr0(e.args[0], env)
            if not self.same(ty, "L:Z"):
                raise Unsupported(f"sum of {ty}")
            return f"(fold_left Z.add {t} 0)", "Z"
        if fn == "isinstance" and self.spec.get("isinstance") and len(e.args) == 2 and not e.keywords and \
                isinstance(e.args[1], ast.Name) and self.met_global_name("isinstance", env):
            # a value of an abstract type the spec declares to be (or not to be) an instance of a class
            _t, ty = self.expr0(e.args[0], env)
            key = (ty, e.args[1].id)
            if key not in self.spec["isinstance"] or not self.met_global_name(e.args[1].id, env):
                raise Unsupported(f"isinstance of {ty}")
            return self.spec["isinstance"][key], "B"
        cs = self.calls.get(fn)
        if isinstance(cs, dict) and cs.get("star"):
            # f(*xs): every item of the stream is a positional argument
            if len(e.args) != 1 or not isinstance(e.args[0], ast.Starred) or e.keywords or fn in env:
                raise Unsupported(f"call shape of {fn}")
            t, _ = self.expr(e.args[0].value, env, cs["star"])
            return f"({cs['coq']} {t})", cs["ret"]
        if fn == "sorted" and self.spec.get("sorted_items") and len(e.args) == 1 and not e.keywords and \
                isinstance(e.args[0], ast.GeneratorExp) and self.met_global_name("sorted", env):
            return self.met_sorted_items(e.args[0], env)
        return None

    def met_sorted_items(self, g, env):
        """sorted((k, f(k, v)) for k, v in d.items()) with int keys: the first components are the keys of a
        dictionary, hence pairwise different, so the second components are never compared and the result is
        the pairs in ascending key order (pym_sort_fst)"""
        if len(g.generators) != 1:
            raise Unsupported("nested comprehension")
        gen = g.generators[0]
        tg, it = gen.target, gen.iter
        if gen.ifs or gen.is_async or not (isinstance(tg, ast.Tuple) and len(tg.elts) == 2 and
                                           all(isinstance(t, ast.Name) for t in tg.elts)) or \
                not (isinstance(it, ast.Call) and isinstance(it.func, ast.Attribute) and it.func.attr == "items"
                     and not it.args and not it.keywords):
            raise Unsupported("sorted(..) over something else than `for k, v in d.items()`")
        if not (isinstance(g.elt, ast.Tuple) and len(g.elt.elts) == 2 and isinstance(g.elt.elts[0], ast.Name)
                and g.elt.elts[0].id == tg.elts[0].id and tg.elts[0].id != tg.elts[1].id):
            raise Unsupported("sorted(..): the first component must be the dictionary key")
        self.cond_depth += 1
        try:
            src, _sty, x, inner = self.comp_parts(g, env)
            dty = self.expr0(it.func.value, env)[1]
            if dty not in self.dicts or self.dicts[dty]["key"] != "Z":
                raise Unsupported(f"sorted(..) over the items of {dty}")
            b, bty = self.expr0(g.elt.elts[1], inner)
        finally:
            self.cond_depth -= 1
        cands = [n for n, comps in self.tuples.items() if list(comps) == ["Z", bty]]
        if len(cands) != 1:
            raise Unsupported(f"no declared tuple type for (int, {bty})")
        return f"(pym_sort_fst (map (fun {x} => ({cname(tg.elts[0].id)}, {b})) {src}))", "L:" + cands[0]

    def met_comp_parts_tuple(self, e, env):
        """`for a, b, c in xs` with xs a list of a declared tuple type, or `for k, v in d.items()`"""
        g = e.generators[0]
        it = g.iter
        if not isinstance(g.target, ast.Tuple) or not (self.tuples or self.dicts) or \
                (isinstance(it, ast.Call) and isinstance(it.func, ast.Name) and it.func.id == "enumerate"):
            return None
        names = g.target.elts
        if not all(isinstance(t, ast.Name) for t in names) or len({t.id for t in names}) != len(names):
            raise Unsupported("comprehension target")
        if isinstance(it, ast.Call) and isinstance(it.func, ast.Attribute) and it.func.attr == "items" \
                and not it.args and not it.keywords:
            src, dty = self.expr0(it.func.value, env)
            if dty not in self.dicts:
                raise Unsupported(f".items() of {dty}")
            comps = [self.dicts[dty]["key"], self.dicts[dty]["val"]]
        else:
            src, sty = self.expr0(it, env)
            if not self.is_list(sty) or sty == "FS" or self.item_of(sty) not in self.tuples:
                raise Unsupported(f"tuple target over {sty}")
            comps = list(self.tuples[self.item_of(sty)])
        if len(comps) != len(names) or any(c in self.records for c in comps):
            raise Unsupported("comprehension target")
        inner = env
        for t, c in zip(names, comps):
            inner = self.bind(inner, t.id, c)
        x = "'(" + ", ".join(cname(t.id) for t in names) + ")"
        for cond in g.ifs:
            c, _ = self.expr(cond, inner, "B")
            src = f"(filter (fun {x} => {c}) {src})"
            inner = self.refine(cond, inner, True)
        return src, None, x, inner

    def met_dd_append_shape(self, s):
        """d[k].append(v) as a statement (only in a spec that declares a defaultdict type) -> the name d"""
        if not any(d.get("defaultdict") for d in self.dicts.values()):
            return None
        if not (isinstance(s, ast.Expr) and isinstance(s.value, ast.Call)):
            return None
        f = s.value.func
        if isinstance(f, ast.Attribute) and f.attr == "append" and isinstance(f.value, ast.Subscript) and \
                isinstance(f.value.value, ast.Name):
            return f.value.value.id
        return None

    def met_dd_append(self, s, rest, env, fin, ind):
        """d[k].append(v) on a defaultdict(list): a missing key is inserted (at the end) with [v], a present
        key keeps its position and gets v appended"""
        pad = "  " * ind
        c = s.value
        name = c.func.value.value.id
        if name not in env or env[name] not in self.dicts or not self.dicts[env[name]].get("defaultdict") or \
                name in self.pyargs:
            raise Unsupported(f"statement {ast.unparse(s)[:80]}")
        dd = self.dicts[env[name]]
        if not self.is_list(dd["val"]) or self.item_of(dd["val"]) in self.records or len(c.args) != 1 or \
                c.keywords or isinstance(c.func.value.slice, ast.Slice):
            raise Unsupported(f"statement {ast.unparse(s)[:80]}")
        k, _ = self.expr(c.func.value.slice, env, dd["key"])
        v, _ = self.expr(c.args[0], env, self.item_of(dd["val"]))
        text = f"(pym_dd_append {dd['eqb']} {k} {v} {cname(name)})"
        return self.assign(name, text, env[name], env, pad, rest, fin, ind)

    def met_stmt(self, s, rest, env, fin, ind):
        """statements of the third extension; None = not one of them"""
        pad = "  " * ind
        if isinstance(s, ast.FunctionDef) and s.name in self.spec.get("closure_defs", {}):
            # a local closure translated on its own (another spec, `nested`): here only its name is bound,
            # as a function value that may be passed on (fun_arg)
            same = [x for x in ast.walk(self.fdef)
                    if (isinstance(x, (ast.FunctionDef, ast.AsyncFunctionDef, ast.ClassDef)) and x.name == s.name
                        and x is not self.fdef) or
                    (isinstance(x, ast.Name) and x.id == s.name and isinstance(x.ctx, (ast.Store, ast.Del)))]
            if self.loop_depth or s.name in env or s.name in self.pyargs or len(same) != 1:
                raise Unsupported(f"local function {s.name}")
            env2 = self.bind(env, s.name, "FUNV")
            self.__dict__.setdefault("funvals", {})[s.name] = self.spec["closure_defs"][s.name]
            return self.block(rest, env2, fin, ind)
        if self.sums and self.needs_match(s, env) is not None:
            return None
        if isinstance(s, ast.Expr) and isinstance(s.value, ast.Call):
            fn = ast.unparse(s.value.func)
            cs = self.calls.get(fn)
            if isinstance(cs, dict) and cs.get("res") and cs.get("ret") == "U" and fn not in env:
                # a call made for its exceptions only: f(..) returns None or raises
                _, hs = self.hoisted(s.value, env, lambda: self.call(s.value, env))
                pre, post, env2 = self.hoist_prefix(hs, env, pad)
                return pre + self.block(rest, env2, fin, ind) + post
            if self.met_dd_append_shape(s) is not None:
                return self.met_dd_append(s, rest, env, fin, ind)
        if isinstance(s, ast.Return) and s.value is None and self.kind == "expr" and self.spec.get("unit_fn") and \
                self.ret_type == "U":
            return pad + fin(env, "return", "tt")
        return None

    def met_option_match(self, s, ref, rest, env, fin, ind):
        """`if x is None` / `if x is not None` on a name of type O:T: a match that rebinds x at type T"""
        pad = "  " * ind
        n, some_in_body = ref
        x = cname(n)
        inner = dict(env)
        inner[n] = env[n][2:]
        if inner[n] in self.sums:
            self.sum_names.add(n)
        some_blk, none_blk = (s.body, s.orelse) if some_in_body else (s.orelse, s.body)
        a = self.block(list(some_blk) + rest, inner, fin, ind + 1)
        b = self.block(list(none_blk) + rest, env, fin, ind + 1)
        return f"{pad}match {x} with\n{pad}| Some {x} =>\n{a}\n{pad}| None =>\n{b}\n{pad}end"

    def met_desugar_match(self, s, env):
        """match NAME: case "lit": A ... [case _: Z]   ->   if NAME == "lit": A elif ... [else: Z]
        (TRUSTED reading: a literal pattern matches iff subject == literal; no guards, no captures)"""
        if not isinstance(s.subject, ast.Name):
            raise Unsupported("match subject")
        items, orelse = [], []
        for i, c in enumerate(s.cases):
            p = c.pattern
            if c.guard is not None:
                raise Unsupported("match guard")
            if isinstance(p, ast.MatchValue) and isinstance(p.value, ast.Constant) and isinstance(p.value.value, str):
                items.append((p.value, c.body))
            elif isinstance(p, ast.MatchAs) and p.pattern is None and p.name is None and i == len(s.cases) - 1:
                orelse = list(c.body)
            else:
                raise Unsupported("match pattern")
        if not items:
            raise Unsupported("match without literal cases")
        node = None
        for lit, body in reversed(items):
            test = ast.Compare(left=ast.Name(id=s.subject.id, ctx=ast.Load()), ops=[ast.Eq()], comparators=[lit])
            node = ast.If(test=test, body=list(body), orelse=(orelse if node is None else [node]))
        return ast.fix_missing_locations(ast.copy_location(node, s))

    def met_loop_for_r(self, s, rest, env, fin, ind):
        """a `for` of a value-returning function with a res result whose body may call generated functions
        with a res result; the target is a name or a tuple of names over a list of a declared tuple type:
              pym_iter_for_r (fun state target => BODY) (fun state => rest) state stream
        BODY ends in RDone (SCont state) | RDone (SBrk state) | RDone (SRet <result>) or is an abnormal res"""
        if s.orelse:
            raise Unsupported("loop with else")
        pad, p1 = "  " * ind, "  " * (ind + 1)
        stream, sty = self.expr0(s.iter, env)
        if not self.is_list(sty) or sty == "FS":
            raise Unsupported(f"loop over {sty}")
        ity = self.item_of(sty)
        if isinstance(s.target, ast.Name):
            tnames, ttys, pat = [s.target.id], [ity], cname(s.target.id)
        elif isinstance(s.target, ast.Tuple) and ity in self.tuples and \
                all(isinstance(t, ast.Name) for t in s.target.elts) and \
                len({t.id for t in s.target.elts}) == len(s.target.elts) == len(self.tuples[ity]):
            tnames, ttys = [t.id for t in s.target.elts], list(self.tuples[ity])
            pat = "'(" + ", ".join(cname(t) for t in tnames) + ")"
        else:
            raise Unsupported("loop target")
        if any(t in self.records for t in ttys):
            raise Unsupported("loop over mutable records")
        state = [k for k in self.assigned(s.body, env) if k in env]
        if any(t in state for t in tnames):
            raise Unsupported("loop target is a variable that exists before the loop")
        state_ty = {k: (self.genparams[k[1:]] if k.startswith("@") else self.declared.get(k, env[k])) for k in state}

        def pack(e2):
            items = [self.coerce(cname(v), e2[v], state_ty[v], f"(state variable {v})") for v in state]
            return "tt" if not items else (items[0] if len(items) == 1 else "(" + ", ".join(items) + ")")
        names = [cname(v) for v in state]
        unpack = "_" if not names else (names[0] if len(names) == 1 else "'(" + ", ".join(names) + ")")
        env_loop = dict(env)
        for v in state:
            env_loop = self.kill(env_loop, v) if not v.startswith("@") else env_loop
            env_loop[v] = state_ty[v]
        env_body = env_loop
        for t, ty in zip(tnames, ttys):
            env_body = self.bind(env_body, t, ty)

        def fin_body(e2, k, v=None):
            if k in ("end", "continue"):
                return f"(RDone (SCont {pack(e2)}))"
            if k == "break":
                return f"(RDone (SBrk {pack(e2)}))"
            if k == "raise":
                return fin(e2, k, v)
            return f"(RDone (SRet {fin(e2, k, v)}))"
        self.loop_depth += 1
        try:
            body_t = self.block(s.body, env_body, fin_body, ind + 2)
        finally:
            self.loop_depth -= 1
        post_t = self.block(rest, env_loop, fin, ind + 2)
        return (f"{pad}pym_iter_for_r\n{p1}(fun {unpack} {pat} =>\n{body_t})\n{p1}(fun {unpack} =>\n{post_t})\n"
                f"{p1}{pack(env)} {stream}")


def find_class(tree, cls):
    found = [n for n in tree.body if isinstance(n, ast.ClassDef) and n.name == cls]
    return found[0] if len(found) == 1 else None


def find_function(tree, cls, func):
    scope = tree.body
    if cls:
        cd = find_class(tree, cls)
        if cd is None:
            raise Unsupported(f"class {cls} not found (or defined twice)")
        scope = cd.body
    found = [n for n in scope if isinstance(n, ast.FunctionDef) and n.name == func]
    if len(found) > 1 and not found[-1].decorator_list and \
            all([ast.unparse(d) for d in n.decorator_list] == ["overload"] for n in found[:-1]):
        # (tag filt) typing.overload stubs followed by the one real definition, which is the last binding
        found = found[-1:]
    if len(found) == 1:
        return found[0]
    raise Unsupported(f"function {cls + '.' if cls else ''}{func} " + ("not found" if not found else "defined twice"))


def find_function_ov(tree, cls, func):
    """(tsmall) as find_function, for a function that also has @overload stubs: the stubs must all come
    before the one undecorated definition (the last `def` is the one Python keeps)"""
    scope = tree.body
    if cls:
        cd = find_class(tree, cls)
        if cd is None:
            raise Unsupported(f"class {cls} not found (or defined twice)")
        scope = cd.body
    found = [n for n in scope if isinstance(n, ast.FunctionDef) and n.name == func]
    if not found:
        raise Unsupported(f"function {func} not found")
    for n in found[:-1]:
        if [ast.unparse(d) for d in n.decorator_list] != ["overload"] or \
                not (len(n.body) == 1 and isinstance(n.body[0], ast.Expr) and isinstance(n.body[0].value, ast.Constant)
                     and n.body[0].value.value is Ellipsis):
            raise Unsupported(f"function {func} defined twice")
    if found[-1].decorator_list:
        raise Unsupported(f"the last definition of {func} is decorated")
    return found[-1]


def translate_const(tree, spec):
    """(tsmall) kind "const": a module-level integer constant `NAME = <int expression>`, assigned exactly once in
    the whole module.  The expression: int literals, unary minus, + - *, parentheses, names of constants
    translated before (spec "consts": python name -> generated name) and the exact texts of spec "text_exprs"."""
    cname_ = spec["const"]
    stores = [n for n in ast.walk(tree) if isinstance(n, ast.Name) and n.id == cname_ and
              isinstance(n.ctx, (ast.Store, ast.Del))]
    tops = [n for n in tree.body if isinstance(n, (ast.Assign, ast.AnnAssign)) and
            any(isinstance(t, ast.Name) and t.id == cname_
                for t in (n.targets if isinstance(n, ast.Assign) else [n.target]))]
    if len(stores) != 1 or len(tops) != 1 or getattr(tops[0], "value", None) is None or \
            (isinstance(tops[0], ast.Assign) and len(tops[0].targets) != 1):
        raise Unsupported(f"{cname_} is not assigned exactly once, at module level")
    for n in ast.walk(tree):
        if isinstance(n, (ast.Global, ast.Nonlocal)) and cname_ in n.names:
            raise Unsupported(f"global {cname_}")
        if isinstance(n, ast.ImportFrom) and any(al.name == "*" for al in n.names):
            raise Unsupported("import *")
        if isinstance(n, (ast.Import, ast.ImportFrom)) and any((al.asname or al.name).split(".")[0] == cname_
                                                               for al in n.names):
            raise Unsupported(f"{cname_} is also imported")
        if isinstance(n, (ast.FunctionDef, ast.ClassDef)) and n.name == cname_:
            raise Unsupported(f"{cname_} is also a function / class")

    def ev(e):
        t = ast.unparse(e)
        if t in spec.get("text_exprs", {}):
            return spec["text_exprs"][t][0]
        if isinstance(e, ast.Constant) and isinstance(e.value, int) and not isinstance(e.value, bool):
            return f"({e.value})" if e.value < 0 else str(e.value)
        if isinstance(e, ast.UnaryOp) and isinstance(e.op, ast.USub):
            return f"(- {ev(e.operand)})"
        if isinstance(e, ast.BinOp) and type(e.op) in (ast.Add, ast.Sub, ast.Mult):
            return f"({ev(e.left)} {({ast.Add: '+', ast.Sub: '-', ast.Mult: '*'})[type(e.op)]} {ev(e.right)})"
        if isinstance(e, ast.Name) and e.id in spec.get("consts", {}):
            return spec["consts"][e.id]
        raise Unsupported(f"constant expression {t[:60]}")
    return f"Definition {spec['name']} : Z :=\n  {ev(tops[0].value)}.\n"


def check_facts(repo, trees, spec):
    """(tsmall) spec "facts": structural facts about OTHER parts of the tree that the reading of this function
    depends on; each is checked on the source text, and the translation fails closed when one does not hold.
       ("lacks", file, cls, [names])       class cls of file defines none of these methods / class attributes
       ("bases", file, cls, [texts])       the base classes of cls are spelled exactly so
       ("sole_definer", [files], m, cls)   in these files, cls is the only class that defines m
       ("module_has", file, text)          the module has exactly this top-level statement, and the name it
                                           assigns is assigned nowhere else in the module"""
    def tree_of(f):
        path = repo / f
        if path not in trees:
            trees[path] = ast.parse(path.read_text())
        return trees[path]

    def defined(cd):
        names = set()
        for n in cd.body:
            if isinstance(n, (ast.FunctionDef, ast.AsyncFunctionDef, ast.ClassDef)):
                names.add(n.name)
            elif isinstance(n, (ast.Assign, ast.AnnAssign, ast.AugAssign)):
                for t in (n.targets if isinstance(n, ast.Assign) else [n.target]):
                    names |= {x.id for x in ast.walk(t) if isinstance(x, ast.Name)}
            elif not (isinstance(n, ast.Expr) and isinstance(n.value, ast.Constant)) and not isinstance(n, ast.Pass):
                raise Unsupported(f"class {cd.name} has a body statement that is not a definition")
        return names
    for fact in spec.get("facts", []):
        if fact[0] in ("lacks", "bases"):
            _, f, cls, items = fact
            cd = find_class(tree_of(f), cls)
            if cd is None:
                raise Unsupported(f"class {cls} not found (or defined twice) in {f}")
            if fact[0] == "lacks":
                both = defined(cd) & set(items)
                if both:
                    raise Unsupported(f"class {cls} defines {', '.join(sorted(both))}")
            elif [ast.unparse(b) for b in cd.bases] != list(items) or cd.keywords or cd.decorator_list:
                raise Unsupported(f"the base classes of {cls} are not {items}")
        elif fact[0] == "sole_definer":
            _, files, m, cls = fact
            for f in files:
                for cd in ast.walk(tree_of(f)):
                    if isinstance(cd, ast.ClassDef) and cd.name != cls and m in defined(cd):
                        raise Unsupported(f"class {cd.name} of {f} defines {m}")
            if not any(isinstance(cd, ast.ClassDef) and cd.name == cls and m in defined(cd)
                       for f in files for cd in tree_of(f).body):
                raise Unsupported(f"class {cls} does not define {m}")
        elif fact[0] == "module_has":
            _, f, text = fact
            tr = tree_of(f)
            hits = [n for n in tr.body if ast.unparse(n) == text]
            if len(hits) != 1 or not isinstance(hits[0], (ast.Assign, ast.AnnAssign)):
                raise Unsupported(f"the module {f} does not say `{text}`")
            tg = hits[0].targets[0] if isinstance(hits[0], ast.Assign) else hits[0].target
            if not isinstance(tg, ast.Name) or sum(1 for n in ast.walk(tr) if isinstance(n, ast.Name) and n.id == tg.id
                                                   and isinstance(n.ctx, (ast.Store, ast.Del))) != 1:
                raise Unsupported(f"{ast.unparse(tg)} is assigned more than once in {f}")
            for n in ast.walk(tr):
                if isinstance(n, (ast.Global, ast.Nonlocal)) and tg.id in n.names:
                    raise Unsupported(f"global {tg.id}")
        else:
            raise Unsupported(f"unknown fact {fact[0]}")
def find_nested(outer, name):
    """(third extension, metrics) the local function `name` defined (once) inside `outer`.  It is translated as
    a function of its own parameters only: it must not capture a local of the enclosing function."""
    found = [n for n in ast.walk(outer) if isinstance(n, ast.FunctionDef) and n is not outer and n.name == name]
    if len(found) != 1:
        raise Unsupported(f"local function {name} of {outer.name} " + ("not found" if not found else "defined twice"))
    inner = found[0]
    a = inner.args
    if a.defaults or a.kw_defaults or a.vararg or a.kwarg or a.kwonlyargs or a.posonlyargs:
        raise Unsupported(f"parameters of the local function {name}")

    def bound(fn):
        out = {x.arg for x in fn.args.posonlyargs + fn.args.args + fn.args.kwonlyargs}
        out |= {x.arg for x in (fn.args.vararg, fn.args.kwarg) if x is not None}
        for n in ast.walk(fn):
            if isinstance(n, ast.Name) and isinstance(n.ctx, (ast.Store, ast.Del)):
                out.add(n.id)
            elif isinstance(n, (ast.FunctionDef, ast.AsyncFunctionDef, ast.ClassDef)) and n is not fn:
                out.add(n.name)
            elif isinstance(n, ast.alias):
                out.add((n.asname or n.name).split(".")[0])
            elif isinstance(n, ast.ExceptHandler) and n.name:
                out.add(n.name)
        return out
    if sum(1 for n in ast.walk(outer) if isinstance(n, ast.Name) and n.id == name
           and isinstance(n.ctx, (ast.Store, ast.Del))):
        raise Unsupported(f"{name} is also assigned in {outer.name}")
    outer_bound, inner_bound = bound(outer), bound(inner)
    for n in ast.walk(inner):
        if isinstance(n, (ast.Nonlocal, ast.Global)):
            raise Unsupported(f"{type(n).__name__} in the local function {name}")
        if isinstance(n, ast.Name) and isinstance(n.ctx, ast.Load) and n.id in outer_bound and n.id not in inner_bound:
            raise Unsupported(f"the local function {name} captures {n.id} of {outer.name}")
    return inner


HEADER = """(* GENERATED on every run by harness/translate/pysrc.py from the Python sources of the tree
   under test — do not edit.  Each definition is the translation of one function's source text;
   Proofs/GenEq*.v prove it equal to the hand-written model for all inputs. *)
From CG Require Import Model.Loop.

"""


def translate_all(repo: Path, specs, header=HEADER):
    """-> (coq text, {name: error})"""
    out = [header]
    errors = {}
    known = {}
    trees = {}
    for spec in specs:
        name = spec["name"]
        try:
            path = repo / spec["file"]
            if path not in trees:
                trees[path] = ast.parse(path.read_text())
            check_facts(repo, trees, spec)                                   # (tsmall)
            if spec["kind"] == "const":                                      # (tsmall)
                out.append(f"(* {spec['file']}: {spec['const']} *)\n" + translate_const(trees[path], spec))
                continue
            fdef = (find_function_ov if spec.get("overloads") else find_function)(
                trees[path], spec.get("cls"), spec["func"])
            if spec.get("nested") and not spec.get("filt_ext"):
                fdef = find_nested(fdef, spec["nested"])         # (third extension, metrics) a local closure
            if spec.get("filt_ext"):                     # (tag filt: nested functions, *args as a list)
                from . import pysrc_filt
                fdef = pysrc_filt.filt_prepare(fdef, spec)
            for line in spec.get("file_has", []):
                # a module-level statement the spec's reading of a name depends on (e.g. an import)
                if not any(ast.unparse(n) == line for n in trees[path].body):
                    raise Unsupported(f"the module does not say `{line}`")
            tr = Tr(spec, known)
            tr.classdef = find_class(trees[path], spec["cls"]) if spec.get("cls") else None
            tr.module = trees[path]
            for d in fdef.decorator_list:
                if ast.unparse(d) not in ("override", "property") and \
                        ast.unparse(d) not in spec.get("decorators_ok", ()):             # (tsmall)
                    raise Unsupported(f"decorator {ast.unparse(d)[:40]}")
            text = tr.function(fdef)
            # a definition that mentions a generated definition which could not be translated is not
            # emitted either (Gen/Source.v must always compile: only the proofs about what is missing break)
            for bad in errors:
                if re.search(r"(?<![A-Za-z0-9_'])" + re.escape(bad) + r"(?![A-Za-z0-9_'])", text):
                    raise Unsupported(f"uses {bad}, which was not translated")
            out.append(f"(* {spec['file']}: {(spec.get('cls') + '.') if spec.get('cls') else ''}{spec['func']} *)\n" + text)
            if spec["kind"] == "expr" and not spec.get("res"):
                argtys = [t for _, t in spec["params"]]
                if spec.get("method_of"):
                    # a method that does not update self (any store / updating call on self is Unsupported
                    # in a value-returning function)
                    known[(spec["method_of"], spec["func"])] = dict(coq=name, args=argtys[1:], ret=spec["ret"],
                                                                    mutates=False)
                elif all(isinstance(t, str) and t in COQ_TYPE for t in argtys):
                    known[spec.get("pyname", spec["func"])] = (name, argtys, spec["ret"])
            if spec["kind"] == "method":
                known[(spec["params"][0][1], spec["func"])] = dict(coq=name, args=[t for _, t in spec["params"][1:]],
                                                                  ret=spec["ret"], mutates=True)
            if spec["kind"] == "init":
                known[spec["cls"]] = (name, [t for _, t in spec["params"]], spec["record"])
            if spec["kind"] == "ctor" and not spec.get("res") and all(tr.is_type(t) for _, t in spec["params"]):
                known[spec["cls"]] = (name, [t for _, t in spec["params"]], spec["record"])     # (tsmall)
        except (Unsupported, SyntaxError, OSError, KeyError) as ex:
            errors[name] = f"{type(ex).__name__}: {ex}"
            out.append(f"(* {name}: NOT TRANSLATED — {str(ex).replace('*)', '* )')} *)\n")
    return "\n".join(out), errors


from . import pysrc_mem  # noqa: E402  (extension mem: hooks called from Tr; imported last, it imports this module)
