"""Tie C, third extension (tag: rec) — calgebra/recurrence.py: the public fetch() dispatcher, the RRULE text
(rrule_kwargs_to_rrule_string / to_rrule_string) and RecurringPattern.__init__.

TRUSTED readings (everything the equivalence theorems of coq/Proofs/GenEq_rec.v rely on besides the
translator's older subset; the library models are in coq/Model/RecSrc.v):

 T1  Strings are token lists (type `text` = list token of Model/Ical.v).  A string literal is the token list the
     spec gives for exactly that literal ("FREQ=" -> [TKey KFreq], "," -> [TComma], ";" -> [TSemi], ...); a literal
     that is not listed is Unsupported.  An f-string is the concatenation, left to right, of its pieces; the
     concatenation is tok_cat, which joins the digits of an int directly followed by a weekday code into ONE token
     (f"{wd.n}{weekday_str}" = "1MO" = TDay 0 (Some 1)); `{e}` for an int is str(e) = [TInt e] (tok_int); `{e}`
     for a string is the string; conversions (!r) and format specs are Unsupported.
 T2  sep.join(xs) = tok_join sep xs (x1 ++ sep ++ x2 ++ ...; "" for no item); map(str, ns) = map tok_int ns.
 T3  rrule_kwargs (what RecurringPattern.__init__ stores; the only callers pass that) is a dict whose keys are
     among freq, interval, byweekday, bymonth, bymonthday, byweekno, byyearday, bysetpos, byhour, byminute,
     bysecond, wkst, each present or not: the record `kwargs`; d.get("k") is the field (an option), d.get("k", v)
     the field or v.  Types of the values: freq one of the four dateutil constants DAILY/WEEKLY/MONTHLY/YEARLY
     (the inductive `freq`), interval an int, byweekday a LIST of dateutil weekday objects (weekday 0..6 or any
     int, n an int or None: a pair), the list fields LISTS of ints (what _to_int_list returns), wkst a weekday
     object (WkObj) or an int (WkInt).  Hence isinstance(byweekday, list), isinstance(wd, weekday),
     isinstance(val, list) are True and the other arm of those tests is not translated (it cannot run).
 T4  The names DAILY .. YEARLY, MO .. SU, weekday (and datetime, for the constructor) are what the module
     imports from dateutil.rrule / datetime and nothing else binds them (checked on the module's AST).
     The module-level tables, pinned by their exact source text (file_has; a change is Unsupported):
     _FREQ_TO_STRING[f] = the name of f (tok_freq), `f not in _FREQ_TO_STRING` is False for the four constants;
     _WEEKDAY_INT_TO_STRING.get(w) = the code of weekday w for 0 <= w <= 6, else None (wd_text);
     _WEEKDAY_INT_TO_STRING[w] / `w in _WEEKDAY_INT_TO_STRING` likewise.
 T5  `for key, ical_key in _RRULE_LIST_FIELDS.items():` over a module-level dict literal with constant keys and
     values that the module only reads (checked on the module's AST: one assignment, otherwise only .items() /
     .get / [..] / in) is the loop body repeated once per entry, in the literal's order, with the two names
     replaced by the constants.  (Nobody outside the module mutates the private table.)
 T6  `if s:` on a str | None is true iff s is a non-empty string (otext_true).
 T7  fetch(): self._fetch_reverse / self._fetch_forward are parameters of the generated definition with an
     abstract result type R (a generator object is returned as it is).
"""
from . import pysrc_rec  # noqa: F401  (registers the handlers)

REC = "calgebra/recurrence.py"

# imports Gen/Source.v needs in front of its other imports (names of the older models keep priority)
HEADER_PRE = "From CG Require Import Model.RecSrc.\n"

FREQ = {"FREQ": ("freq_eqb", {"daily": "Daily", "weekly": "Weekly", "monthly": "Monthly", "yearly": "Yearly"})}

LITS = {"FREQ=": "[TKey KFreq]", "INTERVAL=": "[TKey KInterval]", "BYDAY=": "[TKey KByDay]",
        "BYMONTH=": "[TKey KByMonth]", "BYMONTHDAY=": "[TKey KByMonthDay]", "BYWEEKNO=": "[TKey KByWeekNo]",
        "BYYEARDAY=": "[TKey KByYearDay]", "BYSETPOS=": "[TKey KBySetPos]", "BYHOUR=": "[TKey KByHour]",
        "BYMINUTE=": "[TKey KByMinute]", "BYSECOND=": "[TKey KBySecond]", "WKST=": "[TKey KWkst]",
        ",": "[TComma]", ";": "[TSemi]"}

STRS = dict(type="STR", lits=LITS, of={"Z": "tok_int"}, cat="tok_cat", join="tok_join", truthy_opt="otext_true")

KW_FIELDS = [("freq", "kw_freq", "O:FREQ"), ("interval", "kw_interval", "OZ"), ("byweekday", "kw_byweekday", "O:L:WD"),
             ("bymonth", "kw_bymonth", "O:L:Z"), ("bymonthday", "kw_bymonthday", "O:L:Z"),
             ("byweekno", "kw_byweekno", "O:L:Z"), ("byyearday", "kw_byyearday", "O:L:Z"),
             ("bysetpos", "kw_bysetpos", "O:L:Z"), ("byhour", "kw_byhour", "O:L:Z"),
             ("byminute", "kw_byminute", "O:L:Z"), ("bysecond", "kw_bysecond", "O:L:Z"),
             ("wkst", "kw_wkst", "O:WKST")]
KWDICTS = {"KW": dict(mk="mkKW", fields=KW_FIELDS, set="set_{key}")}

# wkst as stored in rrule_kwargs: a dateutil weekday object or an int
WKST_SUM = {"WKST": dict(
    coq="wkst_v", ctors=[("WkObj", [("w", "Z")]), ("WkInt", [("z", "Z")])],
    exprs={"WkObj": {"isinstance({x}, weekday)": ("true", "B"), "{x}.weekday": ("{w}", "Z")},
           "WkInt": {"isinstance({x}, weekday)": ("false", "B"), "isinstance({x}, int)": ("true", "B"),
                     "{x} in _WEEKDAY_INT_TO_STRING": ("((0 <=? {z}) && ({z} <? 7))", "B"),
                     "_WEEKDAY_INT_TO_STRING[{x}]": ("(tok_wd {z})", "STR")}})}

TABLES = [
    "_FREQ_TO_STRING = {DAILY: 'DAILY', WEEKLY: 'WEEKLY', MONTHLY: 'MONTHLY', YEARLY: 'YEARLY'}",
    "_WEEKDAY_INT_TO_STRING = {0: 'MO', 1: 'TU', 2: 'WE', 3: 'TH', 4: 'FR', 5: 'SA', 6: 'SU'}",
]
RRULE_NAMES = [("dateutil.rrule", n) for n in ("DAILY", "WEEKLY", "MONTHLY", "YEARLY", "MO", "TU", "WE", "TH", "FR", "SA",
                                                "SU", "weekday")]
DT_NAMES = [("datetime", "datetime")]

SPECS_REC = [
    # ---- the public dispatcher
    dict(name="g_recur_fetch", file=REC, cls="RecurringPattern", func="fetch", kind="expr", ret="R",
         tyvars=["R"], types={"R": "R"},
         params=[("fetch_reverse", "option Z -> option Z -> R"), ("fetch_forward", "option Z -> option Z -> R"),
                 ("start", "OZ"), ("end", "OZ"), ("reverse", "B")],
         calls={"self._fetch_reverse": ("fetch_reverse", ["OZ", "OZ"], "R"),
                "self._fetch_forward": ("fetch_forward", ["OZ", "OZ"], "R")}),
    # ---- the RRULE text
    dict(name="g_rrule_text", file=REC, func="rrule_kwargs_to_rrule_string", kind="expr", res=True, ret="STR",
         file_has=TABLES,
         types={"STR": "text", "FREQ": "freq", "WD": "(Z * option Z)", "KW": "kwargs"}, enums=FREQ, sums=WKST_SUM,
         defaults={"STR": "(@nil token)"},
         annotations={"list[str]": "L:STR"},
         params=[("rrule_kwargs", "KW")],
         attrs={("WD", "weekday"): ("fst", "Z"), ("WD", "n"): ("snd", "OZ")},
         calls={"_WEEKDAY_INT_TO_STRING.get": ("wd_text", ["Z"], "O:STR")},
         text_exprs={"freq not in _FREQ_TO_STRING": ("false", "B"),
                     "_FREQ_TO_STRING[freq]": ("(tok_freq freq)", "STR")},
         rec_ext=dict(strs=STRS, kwdicts=KWDICTS, opt_if=True, const_dicts=["_RRULE_LIST_FIELDS"],
                      isinstance={("WD", "weekday"): True}, imports=RRULE_NAMES)),
    dict(name="g_to_rrule_string", file=REC, cls="RecurringPattern", func="to_rrule_string", kind="expr", res=True,
         ret="STR", types={"STR": "text", "KW": "kwargs"},
         params=[("self_rrule_kwargs", "KW")], selfattrs={"rrule_kwargs": ("self_rrule_kwargs", "KW")},
         calls={"rrule_kwargs_to_rrule_string": dict(coq="g_rrule_text", args=["KW"], ret="STR", res=True)}),
]


# ================================================================================================
# RecurringPattern.__init__ — translated as SEVEN consecutive fragments that tile its body (checked on the
# source on every run) and their mechanically generated sequence g_rp_init.
#
# TRUSTED readings, continued:
#  T8  Argument shapes.  start is an int (StInt), a datetime with a tzinfo (StAware) or one without (StNaive);
#      bool/float starts are outside the reading.  day is one str (DayStr) or a list of str (DayList) — dateutil
#      weekday objects inside `day` are outside it (the kwargs builder calls d.upper() on them: AttributeError);
#      day_of_month / month / bysetpos / by*: one int (IOne) or a list of ints (IList) (numeric strings, which
#      int() also accepts, are outside it); wkst: a weekday object, a str or an int; tz: a str naming a zone
#      (abstract type TZ) or None; exdates: None or an iterable read as the list of its items.  The tests the
#      source makes on these values (isinstance, .tzinfo, ...) are read per shape: tables START_*, DAYARG, ...
#  T9  datetime / ZoneInfo operations are typed parameters of the generated definitions (abstract types DT, ZONE,
#      TZ): ZoneInfo(name), ZoneInfo("UTC"), x.tzinfo, x.replace(tzinfo=z), x.timestamp() (a whole number of
#      seconds for the datetimes built here), datetime.fromtimestamp(t, tz=z), x.hour/.minute/.second,
#      x.weekday(), datetime(1970, 1, 1, tzinfo=z).  A tzinfo object is truthy.
# T10  Strings of the day specs are values of an abstract type DS with the operations as parameters: d.upper(),
#      d.lower(), len(s), s[-2:] (ds_suffix s 2), s[:-2] (ds_drop_suffix s 2), int(prefix) (ds_int: None = the
#      ValueError int() raises).  _DAY_MAP (pinned by its exact source text) is read through two parameters:
#      `k in _DAY_MAP` = daymap_has k, `_DAY_MAP[k]` = the dateutil constant of weekday daymap_get k with n = None:
#      the pair (daymap_get k, None).
# T11  dateutil: weekday.__call__(n) raises ValueError for n == 0 and otherwise returns the weekday with that n
#      (wd_call).  `x = wd(n)` / `L.append(wd(n))` / `n = int(prefix)` raise ValueError exactly when the option
#      is None; inside `try: .. except ValueError: H` control then passes to H (nothing else in that try body
#      raises); outside a try the function raises ValueError.
# T12  `set()` used only through .add, truthiness and `in` is the list of the added items (valid_weekdays).
#      frozenset(exdates) is fs_of_list (ascending distinct members; only membership is ever asked of it).
#      `if exdates` on an iterator object is true even when it is empty; frozenset() of it is then empty too,
#      so reading the iterator as its list of items gives the same result.
# T13  A run of assignments to plain names directly followed by `raise E(...)`, whose right-hand sides are built
#      from names, constants, dict/list literals, f-strings, str / sorted / repr and .get / .keys / .join, only
#      feeds the exception message (not modelled): skipped.
# T14  rrule_kwargs is the record `kwargs`: {"freq": a, "interval": b} builds it, d["k"] = v sets field k to
#      Some v — or to v itself when v is Optional (a key bound to None and an absent key read the same through
#      .get and through rrule(**kwargs)); _FREQ_MAP[freq] is the dateutil constant of that name (pinned table),
#      identified with the constructor of `freq`.  `for key, val in list_args.items()` over the LOCAL dict
#      literal list_args (string keys, values that are parameters no statement assigns) is unrolled like T5.
# T15  A variable annotated Optional[T] is a T after `x = <a T>` (flow typing), and `if a is not None and
#      b is not None:` is the nested match.  self.<attr> = e inside __init__ binds the local self_<attr>; the
#      object under construction is not visible to anything __init__ calls.
# T16  Fragments: statements i..j of a function, with the variables bound before them as parameters and the tuple
#      of the listed variables as result, are a function; the function is the sequence of its fragments, each
#      variable flowing from the last fragment that assigns it (checked on the source by the translator).

INIT = dict(file=REC, cls="RecurringPattern", func="__init__")
TILING = [("self.freq = freq", "if tz is not None:"),
          ("anchor_dt: datetime | None = None", "if isinstance(start, datetime):"),
          ("if day is not None and anchor_dt is not None:", "if day is not None and anchor_dt is not None:"),
          ("self.day = day", "self.wkst = wkst"),
          ("rrule_kwargs: dict[str, Any] = ", "if day is not None:"),
          ("list_args = ", "self.rrule_kwargs: dict[str, Any] = rrule_kwargs"),
          ("self._epoch = ", "self._epoch = ")]
RAW = ["day", "week", "day_of_month", "month", "bysetpos", "byweekno", "byyearday", "byhour", "byminute", "bysecond",
       "wkst"]
SELF_LOCALS = ["freq", "interval", "duration_seconds", "interval_class", "metadata", "exdates", "zone",
               "anchor_timestamp", "start_seconds", "rrule_kwargs", "_epoch"] + RAW


def frag(i, outs, **more):
    return dict(more, imports=RRULE_NAMES + DT_NAMES, fragment=dict(tiling=TILING, index=i, outs=outs, self_locals=SELF_LOCALS,
                                    sets=["valid_weekdays"], kwlocals=["rrule_kwargs"]))


DAY_MAP_PIN = ("_DAY_MAP: dict[str, weekday] = {'monday': MO, 'tuesday': TU, 'wednesday': WE, 'thursday': TH, "
               "'friday': FR, 'saturday': SA, 'sunday': SU, 'MO': MO, 'TU': TU, 'WE': WE, 'TH': TH, 'FR': FR, "
               "'SA': SA, 'SU': SU, 'mo': MO, 'tu': TU, 'we': WE, 'th': TH, 'fr': FR, 'sa': SA, 'su': SU}")
FREQ_MAP_PIN = "_FREQ_MAP = {'daily': DAILY, 'weekly': WEEKLY, 'monthly': MONTHLY, 'yearly': YEARLY}"

_ST = [("StInt", [("z", "Z")]), ("StAware", [("dt", "DT")]), ("StNaive", [("dt", "DT")])]
START_HEAD = {"START": dict(coq="(start_arg DT)", ctors=_ST, exprs={
    # (`x.tzinfo is not None` for an int is never evaluated: the `and` stops before it)
    "StInt": {"isinstance({x}, datetime)": ("false", "B"), "{x}.tzinfo is not None": ("false", "B")},
    "StAware": {"isinstance({x}, datetime)": ("true", "B"), "{x}.tzinfo is not None": ("true", "B"),
                "{x}.tzinfo": ("(dt_tzinfo {dt})", "ZONE")},
    "StNaive": {"isinstance({x}, datetime)": ("true", "B"), "{x}.tzinfo is not None": ("false", "B")}})}
START_START = {"START": dict(coq="(start_arg DT)", ctors=_ST, exprs={
    "StInt": {"isinstance({x}, datetime)": ("false", "B"), "{x}": ("{z}", "Z")},
    "StAware": {"isinstance({x}, datetime)": ("true", "B"), "{x}.tzinfo": ("true", "B"), "{x}": ("{dt}", "DT")},
    "StNaive": {"isinstance({x}, datetime)": ("true", "B"), "{x}.tzinfo": ("false", "B"),
                "{x}.replace(tzinfo=self_zone)": ("(dt_with_zone {dt} self_zone)", "DT")}})}
DAYARG = {"DAYARG": dict(coq="(dayarg DS)", ctors=[("DayStr", [("s", "DS")]), ("DayList", [("l", "L:DS")])], exprs={
    "DayStr": {"isinstance({x}, (str, weekday))": ("true", "B"), "isinstance({x}, str)": ("true", "B"),
               "{x}": ("{s}", "DS")},
    "DayList": {"isinstance({x}, (str, weekday))": ("false", "B"), "isinstance({x}, str)": ("false", "B"),
                "{x}": ("{l}", "L:DS")}})}
INTARG = {"INTARG": dict(coq="intarg", ctors=[("IOne", [("z", "Z")]), ("IList", [("l", "L:Z")])], exprs={
    "IOne": {"isinstance({x}, list)": ("false", "B"), "{x}": ("{z}", "Z")},
    "IList": {"isinstance({x}, list)": ("true", "B"), "{x}": ("{l}", "L:Z")}})}
WKARG = {"WKARG": dict(coq="(wkarg DS)", ctors=[("WaObj", [("w", "Z")]), ("WaStr", [("s", "DS")]), ("WaInt", [("z", "Z")])],
                       exprs={
    "WaObj": {"isinstance({x}, weekday)": ("true", "B"), "{x}": ("(WkObj {w})", "WKST")},
    # (`x in _WEEKDAY_INT_TO_STRING` for a str is never evaluated: the `and` stops before it)
    "WaStr": {"isinstance({x}, weekday)": ("false", "B"), "isinstance({x}, str)": ("true", "B"),
              "isinstance({x}, int)": ("false", "B"), "{x} in _WEEKDAY_INT_TO_STRING": ("false", "B"),
              "{x}.lower() in _DAY_MAP": ("(daymap_has (ds_lower {s}))", "B"),
              "_DAY_MAP[{x}.lower()]": ("(WkObj (daymap_get (ds_lower {s})))", "WKST")},
    # (`x.lower() in _DAY_MAP` for an int is never evaluated)
    "WaInt": {"isinstance({x}, weekday)": ("false", "B"), "isinstance({x}, str)": ("false", "B"),
              "{x}.lower() in _DAY_MAP": ("false", "B"),
              "isinstance({x}, int)": ("true", "B"),
              "{x} in _WEEKDAY_INT_TO_STRING": ("((0 <=? {z}) && ({z} <? 7))", "B"), "{x}": ("(WkInt {z})", "WKST")}})}

BASE_T = {"FREQ": "Recur.freq", "WD": "(Z * option Z)", "KW": "kwargs", "WKST": "wkst_v"}
RAW_T = ["O:DAYARG", "OZ"] + ["O:INTARG"] * 8 + ["O:WKARG"]
PLAIN_ARGS = {"DAYARG": "(dayarg DS)", "INTARG": "intarg", "WKARG": "(wkarg DS)"}

DS_LIB = [("ds_upper", "DS -> DS"), ("ds_lower", "DS -> DS"), ("ds_len", "DS -> Z"), ("ds_suffix", "DS -> Z -> DS"),
          ("ds_drop_suffix", "DS -> Z -> DS"), ("ds_int", "DS -> option Z"),
          ("daymap_has", "DS -> bool"), ("daymap_get", "DS -> Z")]
ABSSTR = dict(type="DS", len="ds_len", suffix="ds_suffix", drop_suffix="ds_drop_suffix", int="ds_int")

HEAD_P = [("freq", "FREQ"), ("interval", "Z"), ("duration", "Z"), ("interval_class", "IC"), ("metadata", "MD"),
          ("exdates", "O:L:Z"), ("tz", "O:TZ"), ("start", "START")]
HEAD_F = [("zoneinfo", "TZ -> ZONE"), ("zone_utc", "ZONE"), ("dt_tzinfo", "DT -> ZONE")]
HEAD_O = ["self_freq", "self_interval", "self_duration_seconds", "self_exdates", "self_zone"]
START_P = [("start", "START"), ("self_zone", "ZONE")]
START_F = [("dt_with_zone", "DT -> ZONE -> DT"), ("dt_timestamp", "DT -> Z"), ("dt_fromtimestamp", "Z -> ZONE -> DT"),
           ("dt_hour", "DT -> Z"), ("dt_minute", "DT -> Z"), ("dt_second", "DT -> Z")]
START_O = ["anchor_dt", "self_anchor_timestamp", "self_start_seconds"]
CHECK_P = [("day", "O:DAYARG"), ("anchor_dt", "O:DT")]
CHECK_F = [("dt_weekday", "DT -> Z"), ("ds_lower", "DS -> DS"), ("daymap_has", "DS -> bool"), ("daymap_get", "DS -> Z")]
STORE_P = list(zip(RAW, RAW_T))
STORE_O = ["self_" + n for n in RAW]
DAYS_P = [("freq", "FREQ"), ("interval", "Z"), ("day", "O:DAYARG"), ("week", "OZ")]
DAYS_F = DS_LIB
LISTS_P = [("rrule_kwargs", "KW")] + list(zip(RAW[2:], RAW_T[2:]))
LISTS_F = [("ds_lower", "DS -> DS"), ("daymap_has", "DS -> bool"), ("daymap_get", "DS -> Z")]
EPOCH_P = [("self_zone", "ZONE")]
EPOCH_F = [("dt_make", "Z -> Z -> Z -> ZONE -> DT")]

TUPLES = {"HEADOUT": ["FREQ", "Z", "Z", "FS", "ZONE"], "STARTOUT": ["O:DT", "OZ", "Z"], "STOREOUT": RAW_T,
          "RPOUT": ["FREQ", "Z", "Z", "FS", "ZONE", "OZ", "Z"] + RAW_T + ["KW", "DT"]}
TUPLE_T = {"HEADOUT": "(Recur.freq * Z * Z * list Z * ZONE)", "STARTOUT": "(option DT * option Z * Z)",
           "STOREOUT": "(option (dayarg DS) * option Z * option intarg * option intarg * option intarg * option intarg "
                       "* option intarg * option intarg * option intarg * option intarg * option (wkarg DS))",
           "RPOUT": "(Recur.freq * Z * Z * list Z * ZONE * option Z * Z * option (dayarg DS) * option Z * option intarg * "
                    "option intarg * option intarg * option intarg * option intarg * option intarg * option intarg * "
                    "option intarg * option (wkarg DS) * kwargs * DT)"}

DAY_TEXTS = {"_FREQ_MAP[freq]": ("freq", "FREQ"),
             "d.lower() in _DAY_MAP": ("(daymap_has (ds_lower d))", "B"),
             "_DAY_MAP[d.lower()]": ("((daymap_get (ds_lower d)), (@None Z))", "WD"),
             "code.lower() in _DAY_MAP": ("(daymap_has (ds_lower code))", "B"),
             "_DAY_MAP[code.lower()]": ("((daymap_get (ds_lower code)), (@None Z))", "WD")}


def frag_call(name, fparams, params, ret):
    return dict(coq=name, pre=[n for n, _ in fparams], args=[t for _, t in params], ret=ret, res=True)


PARTS = [("frag_head", "g_rp_head", HEAD_F, HEAD_P, HEAD_O, "HEADOUT"),
         ("frag_start", "g_rp_start", START_F, START_P, START_O, "STARTOUT"),
         ("frag_check", "g_rp_check", CHECK_F, CHECK_P, [], "B"),
         ("frag_store", "g_rp_store", [], STORE_P, STORE_O, "STOREOUT"),
         ("frag_days", "g_rp_days", DAYS_F, DAYS_P, ["rrule_kwargs"], "KW"),
         ("frag_lists", "g_rp_lists", LISTS_F, LISTS_P, ["self_rrule_kwargs"], "KW"),
         ("frag_epoch", "g_rp_epoch", EPOCH_F, EPOCH_P, ["self__epoch"], "DT")]


def _uniq(pairs):
    out = []
    for p in pairs:
        if p not in out:
            out.append(p)
    return out


SEQ_F = _uniq([p for _c, _n, f, _p, _o, _r in PARTS for p in f])
SEQ_P = [("freq", "FREQ"), ("interval", "Z")] + list(zip(RAW[:4], RAW_T[:4])) + \
        [("start", "START"), ("duration", "Z"), ("tz", "O:TZ"), ("interval_class", "IC"), ("exdates", "O:L:Z")] + \
        list(zip(RAW[4:], RAW_T[4:])) + [("metadata", "MD")]

SPECS_REC += [
    dict(name="g_to_int_list", file=REC, func="_to_int_list", kind="expr", ret="O:L:Z", sums=INTARG,
         params=[("val", "O:INTARG")], rec_ext=dict(opt_if=True, isinstance={})),
    dict(INIT, name="g_rp_head", kind="expr", res=True, ret="HEADOUT", tyvars=["DT", "ZONE", "TZ", "IC", "MD"],
         types=dict(BASE_T, DT="DT", ZONE="ZONE", TZ="TZ", IC="IC", MD="MD", HEADOUT=TUPLE_T["HEADOUT"]),
         tuples={"HEADOUT": TUPLES["HEADOUT"]}, enums=FREQ, sums=START_HEAD, 
         params=HEAD_F + HEAD_P,
         calls={"ZoneInfo": ("zoneinfo", ["TZ"], "ZONE")}, text_exprs={"ZoneInfo('UTC')": ("zone_utc", "ZONE")},
         rec_ext=frag(0, HEAD_O, opt_if=True, empty_sets=True, isinstance={})),
    dict(INIT, name="g_rp_start", kind="expr", res=True, ret="STARTOUT", tyvars=["DT", "ZONE"],
         types=dict(BASE_T, DT="DT", ZONE="ZONE", STARTOUT=TUPLE_T["STARTOUT"]), tuples={"STARTOUT": TUPLES["STARTOUT"]},
         sums=START_START,  params=START_F + START_P,
         locals={"anchor_dt": "O:DT", "self_anchor_timestamp": "OZ"}, annotations={"datetime | None": "O:DT"},
         calls={"datetime.fromtimestamp": dict(coq="dt_fromtimestamp", args=["Z"], kw=[("tz", "ZONE")], ret="DT")},
         methods={("DT", "timestamp"): dict(coq="dt_timestamp", args=[], ret="Z")},
         attrs={("DT", "hour"): ("dt_hour", "Z"), ("DT", "minute"): ("dt_minute", "Z"), ("DT", "second"): ("dt_second", "Z")},
         rec_ext=frag(1, START_O, opt_if=True, isinstance={})),
    dict(INIT, name="g_rp_check", kind="expr", res=True, ret="B", tyvars=["DT", "DS"],
         types=dict(BASE_T, DT="DT", DS="DS"), sums=DAYARG, file_has=[DAY_MAP_PIN],
         params=CHECK_F + CHECK_P, locals={"valid_weekdays": "L:Z"},
         methods={("DT", "weekday"): dict(coq="dt_weekday", args=[], ret="Z"),
                  ("DS", "lower"): dict(coq="ds_lower", args=[], ret="DS")},
         text_exprs={"d_lower in _DAY_MAP": ("(daymap_has d_lower)", "B"),
                     "_DAY_MAP[d_lower].weekday": ("(daymap_get d_lower)", "Z")},
         rec_ext=frag(2, [], opt_if=True, empty_sets=True, skip_message_assigns=True,
                      isinstance={("DS", "weekday"): False})),
    dict(INIT, name="g_rp_store", kind="expr", res=True, ret="STOREOUT", tyvars=["DS"],
         types=dict(BASE_T, DS="DS", STOREOUT=TUPLE_T["STOREOUT"], **PLAIN_ARGS), tuples={"STOREOUT": TUPLES["STOREOUT"]},
         params=STORE_P, rec_ext=frag(3, STORE_O)),
    dict(INIT, name="g_rp_days", kind="expr", res=True, ret="KW", tyvars=["DS"],
         types=dict(BASE_T, DS="DS"), enums=FREQ, sums=DAYARG, file_has=[DAY_MAP_PIN, FREQ_MAP_PIN],
         params=DAYS_F + DAYS_P, annotations={"dict[str, Any]": "KW", "list[weekday]": "L:WD"},
         methods={("DS", "lower"): dict(coq="ds_lower", args=[], ret="DS"),
                  ("DS", "upper"): dict(coq="ds_upper", args=[], ret="DS")},
         text_exprs=DAY_TEXTS,
         rec_ext=frag(4, ["rrule_kwargs"], opt_if=True, isinstance={}, kwdicts=KWDICTS, absstr=ABSSTR,
                      wd_call=dict(type="WD", coq="wd_call"), try_value_error=True, skip_message_assigns=True)),
    dict(INIT, name="g_rp_lists", kind="expr", res=True, ret="KW", tyvars=["DS"],
         types=dict(BASE_T, DS="DS", INTARG="intarg"), sums=WKARG, file_has=[DAY_MAP_PIN] + TABLES[1:2],
         params=LISTS_F + LISTS_P, annotations={"dict[str, Any]": "KW"},
         calls={"_to_int_list": dict(coq="g_to_int_list", args=["O:INTARG"], ret="O:L:Z")},
         rec_ext=frag(5, ["self_rrule_kwargs"], opt_if=True, isinstance={}, kwdicts=KWDICTS, dictlits=["list_args"])),
    dict(INIT, name="g_rp_epoch", kind="expr", res=True, ret="DT", tyvars=["DT", "ZONE"],
         types=dict(BASE_T, DT="DT", ZONE="ZONE"),  params=EPOCH_F + EPOCH_P,
         calls={"datetime": dict(coq="dt_make", args=["Z", "Z", "Z"], kw=[("tzinfo", "ZONE")], ret="DT")},
         rec_ext=frag(6, ["self__epoch"])),
    # the whole constructor: the fragments in sequence (generated from their inputs / outputs; T16)
    dict(INIT, name="g_rp_init", kind="expr", res=True, ret="RPOUT", tyvars=["DT", "ZONE", "TZ", "IC", "MD", "DS"],
         types=dict(BASE_T, DT="DT", ZONE="ZONE", TZ="TZ", IC="IC", MD="MD", DS="DS", START="(start_arg DT)",
                    **PLAIN_ARGS, **TUPLE_T),
         tuples=TUPLES, enums=FREQ, params=SEQ_F + SEQ_P,
         calls={c: frag_call(n, f, p, r) for c, n, f, p, _o, r in PARTS},
         rec_ext=dict(imports=RRULE_NAMES + DT_NAMES, seq=dict(tiling=TILING, self_locals=SELF_LOCALS, sets=["valid_weekdays"], kwlocals=["rrule_kwargs"],
                               parts=[(c, [x for x, _ in p], o) for c, _n, _f, p, o, _r in PARTS],
                               finals=HEAD_O + START_O[1:] + STORE_O + ["self_rrule_kwargs", "self__epoch"]))),
]
