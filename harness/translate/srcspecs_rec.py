"""Tie C, third extension (tag: rec) — calgebra/recurrence.py: the public fetch() dispatcher, the RRULE text
(rrule_kwargs_to_rrule_string / to_rrule_string) and RecurringPattern.__init__.

TRUSTED readings (everything the equivalence theorems of coq/Proofs/GenEq_rec.v rely on besides the
translator's older subset; the library models are in coq/Model/RecSrc.v):

 T1  Strings are token lists (type `text` = list token of Model/Ical.v).  A string literal is the token list the
     spec gives for exactly that literal ("FREQ=" -> [TKey KFreq], "," -> [TComma], ";" -> [TSemi], ...); a literal
     that is not listed is Unsupported.  An f-string is the concatenation, left to right, of its pieces; the
     concatenation is tok_cat, which joins the digits of an int directly followed by a weekday code into ONE token
     (f"{wd.n}{weekday_str}" = "1MO" = TDay 0 (Some 1)); `{e}` for an int is str(e) = [TInt e] (tok_int); `{e}`
     for a string is the string; conversions (!r) and format specs are Unsupported.
 T2  sep.join(xs) = tok_join sep xs (x1 ++ sep ++ x2 ++ ...; "" for no item); map(str, ns) = map tok_int ns.
 T3  rrule_kwargs (what RecurringPattern.__init__ stores; the only callers pass that) is a dict whose keys are
     among freq, interval, byweekday, bymonth, bymonthday, byweekno, byyearday, bysetpos, byhour, byminute,
     bysecond, wkst, each present or not: the record `kwargs`; d.get("k") is the field (an option), d.get("k", v)
     the field or v.  Types of the values: freq one of the four dateutil constants DAILY/WEEKLY/MONTHLY/YEARLY
     (the inductive `freq`), interval an int, byweekday a LIST of dateutil weekday objects (weekday 0..6 or any
     int, n an int or None: a pair), the list fields LISTS of ints (what _to_int_list returns), wkst a weekday
     object (WkObj) or an int (WkInt).  Hence isinstance(byweekday, list), isinstance(wd, weekday),
     isinstance(val, list) are True and the other arm of those tests is not translated (it cannot run).
 T4  The module-level tables, pinned by their exact source text (file_has; a change is Unsupported):
     _FREQ_TO_STRING[f] = the name of f (tok_freq), `f not in _FREQ_TO_STRING` is False for the four constants;
     _WEEKDAY_INT_TO_STRING.get(w) = the code of weekday w for 0 <= w <= 6, else None (wd_text);
     _WEEKDAY_INT_TO_STRING[w] / `w in _WEEKDAY_INT_TO_STRING` likewise.
 T5  `for key, ical_key in _RRULE_LIST_FIELDS.items():` over a module-level dict literal with constant keys and
     values that the module only reads (checked on the module's AST: one assignment, otherwise only .items() /
     .get / [..] / in) is the loop body repeated once per entry, in the literal's order, with the two names
     replaced by the constants.  (Nobody outside the module mutates the private table.)
 T6  `if s:` on a str | None is true iff s is a non-empty string (otext_true).
 T7  fetch(): self._fetch_reverse / self._fetch_forward are parameters of the generated definition with an
     abstract result type R (a generator object is returned as it is).
"""
from . import pysrc_rec  # noqa: F401  (registers the handlers)

REC = "calgebra/recurrence.py"

# imports Gen/Source.v needs in front of its other imports (names of the older models keep priority)
HEADER_PRE = "From CG Require Import Model.RecSrc.\n"

FREQ = {"FREQ": ("freq_eqb", {"daily": "Daily", "weekly": "Weekly", "monthly": "Monthly", "yearly": "Yearly"})}

LITS = {"FREQ=": "[TKey KFreq]", "INTERVAL=": "[TKey KInterval]", "BYDAY=": "[TKey KByDay]",
        "BYMONTH=": "[TKey KByMonth]", "BYMONTHDAY=": "[TKey KByMonthDay]", "BYWEEKNO=": "[TKey KByWeekNo]",
        "BYYEARDAY=": "[TKey KByYearDay]", "BYSETPOS=": "[TKey KBySetPos]", "BYHOUR=": "[TKey KByHour]",
        "BYMINUTE=": "[TKey KByMinute]", "BYSECOND=": "[TKey KBySecond]", "WKST=": "[TKey KWkst]",
        ",": "[TComma]", ";": "[TSemi]"}

STRS = dict(type="STR", lits=LITS, of={"Z": "tok_int"}, cat="tok_cat", join="tok_join", truthy_opt="otext_true")

KW_FIELDS = [("freq", "kw_freq", "O:FREQ"), ("interval", "kw_interval", "OZ"), ("byweekday", "kw_byweekday", "O:L:WD"),
             ("bymonth", "kw_bymonth", "O:L:Z"), ("bymonthday", "kw_bymonthday", "O:L:Z"),
             ("byweekno", "kw_byweekno", "O:L:Z"), ("byyearday", "kw_byyearday", "O:L:Z"),
             ("bysetpos", "kw_bysetpos", "O:L:Z"), ("byhour", "kw_byhour", "O:L:Z"),
             ("byminute", "kw_byminute", "O:L:Z"), ("bysecond", "kw_bysecond", "O:L:Z"),
             ("wkst", "kw_wkst", "O:WKST")]
KWDICTS = {"KW": dict(mk="mkKW", fields=KW_FIELDS)}

# wkst as stored in rrule_kwargs: a dateutil weekday object or an int
WKST_SUM = {"WKST": dict(
    coq="wkst_v", ctors=[("WkObj", [("w", "Z")]), ("WkInt", [("z", "Z")])],
    exprs={"WkObj": {"isinstance({x}, weekday)": ("true", "B"), "{x}.weekday": ("{w}", "Z")},
           "WkInt": {"isinstance({x}, weekday)": ("false", "B"), "isinstance({x}, int)": ("true", "B"),
                     "{x} in _WEEKDAY_INT_TO_STRING": ("((0 <=? {z}) && ({z} <? 7))", "B"),
                     "_WEEKDAY_INT_TO_STRING[{x}]": ("(tok_wd {z})", "STR")}})}

TABLES = [
    "_FREQ_TO_STRING = {DAILY: 'DAILY', WEEKLY: 'WEEKLY', MONTHLY: 'MONTHLY', YEARLY: 'YEARLY'}",
    "_WEEKDAY_INT_TO_STRING = {0: 'MO', 1: 'TU', 2: 'WE', 3: 'TH', 4: 'FR', 5: 'SA', 6: 'SU'}",
    "from dateutil.rrule import DAILY, FR, MO, MONTHLY, SA, SU, TH, TU, WE, WEEKLY, YEARLY, rrule, weekday",
]

SPECS_REC = [
    # ---- the public dispatcher
    dict(name="g_recur_fetch", file=REC, cls="RecurringPattern", func="fetch", kind="expr", ret="R",
         tyvars=["R"], types={"R": "R"},
         params=[("fetch_reverse", "option Z -> option Z -> R"), ("fetch_forward", "option Z -> option Z -> R"),
                 ("start", "OZ"), ("end", "OZ"), ("reverse", "B")],
         calls={"self._fetch_reverse": ("fetch_reverse", ["OZ", "OZ"], "R"),
                "self._fetch_forward": ("fetch_forward", ["OZ", "OZ"], "R")}),
    # ---- the RRULE text
    dict(name="g_rrule_text", file=REC, func="rrule_kwargs_to_rrule_string", kind="expr", res=True, ret="STR",
         file_has=TABLES,
         types={"STR": "text", "FREQ": "freq", "WD": "(Z * option Z)", "KW": "kwargs"}, enums=FREQ, sums=WKST_SUM,
         defaults={"STR": "(@nil token)"},
         annotations={"list[str]": "L:STR"},
         params=[("rrule_kwargs", "KW")],
         attrs={("WD", "weekday"): ("fst", "Z"), ("WD", "n"): ("snd", "OZ")},
         calls={"_WEEKDAY_INT_TO_STRING.get": ("wd_text", ["Z"], "O:STR")},
         text_exprs={"freq not in _FREQ_TO_STRING": ("false", "B"),
                     "_FREQ_TO_STRING[freq]": ("(tok_freq freq)", "STR")},
         rec_ext=dict(strs=STRS, kwdicts=KWDICTS, opt_if=True, const_dicts=["_RRULE_LIST_FIELDS"],
                      isinstance={("WD", "weekday"): True})),
    dict(name="g_to_rrule_string", file=REC, cls="RecurringPattern", func="to_rrule_string", kind="expr", res=True,
         ret="STR", types={"STR": "text", "KW": "kwargs"},
         params=[("self_rrule_kwargs", "KW")], selfattrs={"rrule_kwargs": ("self_rrule_kwargs", "KW")},
         calls={"rrule_kwargs_to_rrule_string": dict(coq="g_rrule_text", args=["KW"], ret="STR", res=True)}),
]
