"""Tie B for C15: extract, from the SOURCE, every store on the read paths of the timeline classes
and emit coq/Gen/PurityFacts.v.  Fail-closed: unknown constructs that could hide a store raise."""
from __future__ import annotations

import ast
from pathlib import Path

FILES = ["calgebra/core.py", "calgebra/transform.py", "calgebra/recurrence.py",
         "calgebra/mutable/memory.py", "calgebra/properties.py", "calgebra/interval.py"]

# methods that are part of evaluating a slice / overlapping / a filter (read paths)
READ_METHODS = {"fetch", "_fetch_forward", "_fetch_reverse", "_fetch_static", "_sweep", "__getitem__",
                "_coerce_bound", "overlapping", "apply", "_is_mask", "_occurrence_to_interval",
                "_get_safe_anchor", "recurrence_rule", "__or__", "__and__", "__sub__", "__invert__",
                "finite_start", "finite_end", "duration", "__ge__", "__le__", "__gt__", "__lt__", "__eq__", "__ne__"}
# write-path classes/methods are not the subject of C15
SKIP_CLASSES = {"_SourceState"}      # per-sweep helper object created inside _sweep: local state
MUTATORS = {"append", "extend", "insert", "add", "remove", "discard", "pop", "popitem", "clear", "update",
            "sort", "reverse", "setdefault", "appendleft", "popleft", "heappush", "heappop"}


class Unsupported(Exception):
    pass


def _attr_root_is_local(node, local_names):
    """x.y.z: is the root name a local variable created in this function (not self / a parameter)?"""
    while isinstance(node, (ast.Attribute, ast.Subscript)):
        node = node.value
    return isinstance(node, ast.Name) and node.id in local_names


def facts_of(repo: Path):
    out = []
    for rel in FILES:
        tree = ast.parse((repo / rel).read_text())
        for cls in [n for n in ast.walk(tree) if isinstance(n, ast.ClassDef)]:
            if cls.name in SKIP_CLASSES:
                continue
            for m in [n for n in cls.body if isinstance(n, ast.FunctionDef)]:
                if m.name not in READ_METHODS:
                    continue
                params = {a.arg for a in m.args.args + m.args.kwonlyargs}
                # names bound inside the function (locals): assignment targets that are plain names
                local = set()
                for n in ast.walk(m):
                    if isinstance(n, ast.Name) and isinstance(n.ctx, ast.Store):
                        local.add(n.id)
                    if isinstance(n, ast.FunctionDef) and n is not m:
                        local.add(n.name)
                local -= params
                stores = mut = glob = 0
                for n in ast.walk(m):
                    if isinstance(n, (ast.Global,)):
                        glob += len(n.names)
                    if isinstance(n, ast.Nonlocal):
                        pass    # nonlocal rebinding stays inside the enclosing read-path function
                    targets = []
                    if isinstance(n, ast.Assign):
                        targets = n.targets
                    elif isinstance(n, (ast.AugAssign, ast.AnnAssign)):
                        targets = [n.target]
                    elif isinstance(n, ast.Delete):
                        targets = n.targets
                    for t in targets:
                        for sub in ast.walk(t):
                            if isinstance(sub, (ast.Attribute, ast.Subscript)) and isinstance(sub.ctx, (ast.Store, ast.Del)):
                                if not _attr_root_is_local(sub, local):
                                    stores += 1
                    if isinstance(n, ast.Call) and isinstance(n.func, ast.Attribute) and n.func.attr in MUTATORS:
                        recv = n.func.value
                        if isinstance(recv, ast.Name) and recv.id == "heapq":
                            # heapq.heappush(x, ...): mutates its first argument
                            if n.args and not _attr_root_is_local(n.args[0], local):
                                mut += 1
                        elif not _attr_root_is_local(recv, local):
                            mut += 1
                    if isinstance(n, ast.Call) and isinstance(n.func, ast.Name) and n.func.id in ("setattr", "delattr", "exec", "eval"):
                        raise Unsupported(f"{n.func.id} in {cls.name}.{m.name}")
                out.append(dict(cls=cls.name, method=m.name, stores=stores, mutating=mut, globals=glob, file=rel))
    return out


def to_coq(fs):
    rows = [f'  mkPF "{f["cls"]}" "{f["method"]}" {f["stores"]} {f["mutating"]} {f["globals"]}' for f in fs]
    return ("(* GENERATED on every run by harness/translate/purityfacts.py from the calgebra sources — do not edit. *)\n"
            "From CG Require Import Spec.Purity.\n\nDefinition facts : list pfact := [\n" + ";\n".join(rows) + "\n].\n")


def regenerate(repo: Path, coq_dir: Path):
    out = coq_dir / "Gen" / "PurityFacts.v"
    try:
        fs = facts_of(repo)
        text, err = to_coq(fs), None
    except (Unsupported, SyntaxError, OSError) as ex:
        fs, err = None, f"{type(ex).__name__}: {ex}"
        text = ("(* GENERATED: extraction failed: " + err.replace("*)", "* )") + " *)\nFrom CG Require Import Spec.Purity.\n"
                "Definition facts : list pfact := [mkPF \"?\" \"?\" 1 0 0].\n")
    if not out.exists() or out.read_text() != text:
        out.write_text(text)
    return fs, err
