"""Tie C, third extension (tag gcsa): what the translator needs for calgebra/gcsa.py.

This module EXTENDS harness/translate/pysrc.py without editing it: it wraps three methods of pysrc.Tr
(expr0, coerce, block).  The wrappers do nothing unless the spec being translated says gx=True (only the
specs of srcspecs_gcsa.py do), so every other translation is byte-for-byte what it was.  Like the rest of
the translator everything here is FAIL-CLOSED: a construct is accepted only in exactly the shapes described
below, anything else falls through to pysrc (which raises Unsupported for what it does not know).

New spec keys (all optional):

  patterns   [(python expression with holes _1 .. _9, coq text with {0} .. {8}, [hole types], result type)]
             A source expression whose AST is EXACTLY that of the template — same node types, same
             constants, same names — except that a hole stands for any sub-expression (translated at the
             hole's type) becomes the coq text.  This is how library idioms on abstract types are read:
             `isinstance(_1, date)`, `hasattr(_1, 'date')`, `'EXDATE:' + ','.join(_1)`, `f'{_1};{_2}'`.
             A hole of type "NAME:<text>" must be exactly the name <text> (no translation).
             The reading of each pattern is the spec's (TRUSTED, listed in srcspecs_gcsa.py).
  eqbs       {type: coq text of == on that type}:  `x in xs` / `x not in xs` for xs : list of that type
             -> existsb (eqb x) xs   (Python's list membership compares with ==, left to right)
  skip_stmts [exact source text of statements that have no effect on what the translation reads]
             (e.g. a store into a dictionary that is read only through an abstracted expression): dropped.
  decorators_ok  [decorators, besides @override / @property, under which the function body is translated]
             (the decorator itself is translated separately or trusted: the spec says which)
  assert_fail    coq text of the result when `assert x is not None` fails (x a NAME of type O:T; the rest
             of the block runs with x : T)
  try_calls  {callee: call spec | exact text of a call: (coq text, result type)}: calls that may raise an
             Exception and are accepted ONLY as the single statement of `try: .. except Exception [as e]: H`
             (H ending in return): see gx_try.  Their Coq form returns (result + EXC).
  setattrs   {(type, attribute): (coq function, value type)}: `v.attr = e` on a LOCAL object v of an abstract
             type -> let v := f v e in
  inner_def  the function translated is the local function of that name defined directly inside the spec's
             function (a decorator's wrapper), whose body must be: [docstring,] that def, `return <name>`;
             its *args / **kwargs parameters are dropped (they may only be passed on in a try_call given by
             its exact text)
  tail       dict(stmts=n, free=[names]): only the last n statements of the function are translated (the last
             one must be a return); the listed local names they read become parameters of the generated
             definition (whatever they hold at that point)
  truthy     [types whose values are always truthy]: an Optional of such a type used as a condition is
             `is not None`
  (tuples)   `a, b = f(..)` for a call whose declared result is a spec["tuples"] type
             -> let '(a, b) := f .. in

Optionals of declared types (O:T).  pysrc rebinds `x is None` tests only for int | None and
Interval | None.  Here, for a NAME or an attribute PATH p of type O:T:
      A if p is not None else B  /  A if p else B  /  B if p is None else A       (expression)
      if p is not None: A else: B  (and the other two spellings)                  (statement, p a NAME)
  become   match p with Some v => A' | None => B end   where A' is A with every occurrence of p replaced by
  the new variable (a NAME keeps its name: it is rebound at type T, as pysrc does for ints).  A test
  `c1 and .. and p ..` whose other conjuncts translate to the constant true is read as the test on p.
  In the None arm p keeps its option type.
"""
from __future__ import annotations

import ast
import copy

from . import pysrc
from .pysrc import Unsupported, cname, is_path


# ------------------------------------------------------------------------------------------------ helpers
def _is_opt(ty):
    return isinstance(ty, str) and ty.startswith("O:")


def _gx(self):
    return bool(self.spec.get("gx"))


def _subst(node, target_text, new_name):
    """a copy of node with every sub-expression whose source text is target_text replaced by Name(new_name)"""
    class R(ast.NodeTransformer):
        def generic_visit(self, n):
            if isinstance(n, ast.expr) and ast.unparse(n) == target_text:
                return ast.copy_location(ast.Name(id=new_name, ctx=ast.Load()), n)
            return super().generic_visit(n)

        def visit(self, n):
            if isinstance(n, ast.expr) and ast.unparse(n) == target_text:
                return ast.copy_location(ast.Name(id=new_name, ctx=ast.Load()), n)
            return super().visit(n)
    return R().visit(copy.deepcopy(node))


def _match(tmpl, node, holes):
    """structural equality of two ASTs, a Name _k of the template standing for any expression"""
    if isinstance(tmpl, ast.Name) and len(tmpl.id) == 2 and tmpl.id[0] == "_" and tmpl.id[1].isdigit():
        k = int(tmpl.id[1])
        if k in holes:
            return ast.dump(holes[k]) == ast.dump(node)
        holes[k] = node
        return True
    if type(tmpl) is not type(node):
        return False
    for f in tmpl._fields:
        if f == "ctx":
            continue
        a, b = getattr(tmpl, f, None), getattr(node, f, None)
        if isinstance(a, list):
            if not isinstance(b, list) or len(a) != len(b):
                return False
            for x, y in zip(a, b):
                if isinstance(x, ast.AST):
                    if not _match(x, y, holes):
                        return False
                elif x != y:
                    return False
        elif isinstance(a, ast.AST):
            if not isinstance(b, ast.AST) or not _match(a, b, holes):
                return False
        elif a != b:
            return False
    return True


def gx_pattern(self, e, env):
    for pat in self.spec.get("patterns", []):
        tmpl_text, coq, tys, ret = pat
        cache = self.__dict__.setdefault("_gx_tmpl", {})
        if tmpl_text not in cache:
            cache[tmpl_text] = ast.parse(tmpl_text, mode="eval").body
        holes = {}
        if not _match(cache[tmpl_text], e, holes):
            continue
        if sorted(holes) != list(range(1, len(tys) + 1)):
            raise Unsupported(f"pattern {tmpl_text}: holes and types do not agree")
        # a name the function binds locally would change what the template's free names mean
        for n in ast.walk(cache[tmpl_text]):
            if isinstance(n, ast.Name) and not (len(n.id) == 2 and n.id[0] == "_" and n.id[1].isdigit()) \
                    and n.id in env:
                raise Unsupported(f"pattern {tmpl_text}: the name {n.id} is a local here")
        ts = []
        try:
            for k, ty in enumerate(tys, start=1):
                if ty.startswith("NAME:"):
                    if not (isinstance(holes[k], ast.Name) and holes[k].id == ty[5:]):
                        raise Unsupported(f"pattern {tmpl_text}: hole {k} is not the name {ty[5:]}")
                    ts.append("")
                    continue
                # the hole must have exactly the declared type (no coercion: `_1 is None` with a hole of
                # an abstract type must not capture the same test on an Optional)
                t, hty = self.expr0(holes[k], env, ty)
                if hty != ty:
                    raise Unsupported(f"pattern {tmpl_text}: hole {k} has type {hty}, not {ty}")
                ts.append(t)
        except Unsupported:
            continue            # not this pattern: the other readings (or pysrc's Unsupported) apply
        return coq.format(*ts), ret
    return None


def gx_opt_subject(self, test, env):
    """test -> (expression p of type O:T, True if p is not None when the test holds) or None"""
    if isinstance(test, ast.UnaryOp) and isinstance(test.op, ast.Not):
        r = gx_opt_subject(self, test.operand, env)
        return None if r is None else (r[0], not r[1])
    if isinstance(test, ast.BoolOp) and isinstance(test.op, ast.And):
        # conjuncts that are the constant true (a pattern the spec reads as true) do not count
        rest = []
        for v in test.values:
            try:
                r = gx_pattern(self, v, env)
            except Unsupported:
                r = None
            if r is not None and r == ("true", "B"):
                continue
            rest.append(v)
        if len(rest) == 1 and len(test.values) > 1:
            return gx_opt_subject(self, rest[0], env)
        return None
    p, positive = None, True
    if isinstance(test, ast.Compare) and len(test.ops) == 1 and isinstance(test.comparators[0], ast.Constant) \
            and test.comparators[0].value is None and isinstance(test.ops[0], (ast.Is, ast.IsNot)):
        p, positive = test.left, isinstance(test.ops[0], ast.IsNot)
    elif is_path(test):
        p = test
    if p is None or not is_path(p):
        return None
    try:
        _, ty = self.expr0(p, env)
    except Unsupported:
        return None
    if not _is_opt(ty) or ty[2:] not in self.types:
        return None
    if p is test and ty[2:] not in self.spec.get("truthy", []):
        return None          # truthiness of a value that could be falsy without being None
    return p, positive


def gx_some_env(self, p, env, node):
    """-> (coq binder, env for the Some arm, node with p replaced by the binder)"""
    _, ty = self.expr0(p, env)
    inner = dict(env)
    if isinstance(p, ast.Name):
        inner[p.id] = ty[2:]
        return cname(p.id), inner, node
    v = self.new_var("p")
    inner[v] = ty[2:]
    text = ast.unparse(p)
    if isinstance(node, list):
        return v, inner, [_subst(n, text, v) for n in node]
    return v, inner, _subst(node, text, v)


def gx_unify(self, t1, t2):
    if t1 == t2:
        return t1
    for a, b in ((t1, t2), (t2, t1)):
        if a == "NONE" and _is_opt(b):
            return b
        if a == "NONE" and b in self.types and b not in pysrc.SOME:
            return "O:" + b
        if _is_opt(b) and b[2:] == a:
            return b
    return self.unify(t1, t2)


def gx_expr(self, e, env, want):
    if self.text_exprs and ast.unparse(e) in self.text_exprs:
        return self.text_exprs[ast.unparse(e)]
    r = gx_pattern(self, e, env)
    if r is not None:
        return r
    if isinstance(e, ast.IfExp):
        sub = gx_opt_subject(self, e.test, env)
        if sub is None:
            return None
        p, positive = sub
        some_node, none_node = (e.body, e.orelse) if positive else (e.orelse, e.body)
        ptext, _ = self.expr0(p, env)
        v, inner, some_node = gx_some_env(self, p, env, some_node)
        self.cond_depth += 1
        try:
            a, ta = self.expr0(some_node, inner, want)
            b, tb = self.expr0(none_node, env, want)
        finally:
            self.cond_depth -= 1
        ty = want if want is not None else gx_unify(self, ta, tb)
        if ty == "NONE":
            raise Unsupported("conditional expression of unknown option type")
        a = self.coerce(a, ta, ty, ast.unparse(some_node), some_node, inner)
        b = self.coerce(b, tb, ty, ast.unparse(none_node), none_node, env)
        return f"(match {ptext} with Some {v} => {a} | None => {b} end)", ty
    if isinstance(e, ast.Compare) and len(e.ops) == 1 and isinstance(e.ops[0], (ast.In, ast.NotIn)):
        b, tb = self.expr0(e.comparators[0], env)
        if self.is_list(tb) and self.item_of(tb) in self.spec.get("eqbs", {}):
            ity = self.item_of(tb)
            a, _ = self.expr(e.left, env, ity)
            r = f"(existsb ({self.spec['eqbs'][ity]} {a}) {b})"
            return (r if isinstance(e.ops[0], ast.In) else f"(negb {r})"), "B"
    return None


def gx_coerce(self, text, ty, want, e, env):
    if ty == want:
        return None
    if ty == "NONE" and _is_opt(want):
        return "None"
    if _is_opt(want) and want[2:] == ty:
        return f"(Some {text})"
    if _is_opt(ty) and want == "B" and ty[2:] in self.spec.get("truthy", []):
        return f"(negb (is_none {text}))"
    return None


def gx_try(self, s, rest, env, fin, ind):
    """try: <x = CALL | CALL | return CALL>  except Exception [as e]: H      (H ends in return)
         ->  match CALL' with inl x => .. | inr e => H end
    CALL is a call the spec lists under try_calls: its Coq form returns  (result + EXC)  — inr = it raised
    an Exception, which the handler catches.  The exception value has the abstract type EXC."""
    pad = "  " * ind
    if s.orelse or s.finalbody or len(s.handlers) != 1 or len(s.body) != 1:
        raise Unsupported("try shape")
    h, b = s.handlers[0], s.body[0]
    if not (isinstance(h.type, ast.Name) and h.type.id == "Exception") or "Exception" in env:
        raise Unsupported("except clause")
    if not h.body or not isinstance(h.body[-1], ast.Return):
        raise Unsupported("an except handler that does not end in return")
    if "EXC" not in self.types:
        raise Unsupported("try_calls needs the type EXC")
    target = None
    if isinstance(b, ast.Assign) and len(b.targets) == 1 and isinstance(b.targets[0], ast.Name):
        target, call, mode = b.targets[0].id, b.value, "assign"
    elif isinstance(b, ast.Expr):
        call, mode = b.value, "stmt"
    elif isinstance(b, ast.Return) and b.value is not None and self.kind == "expr":
        call, mode = b.value, "return"
    else:
        raise Unsupported("try body")
    if not isinstance(call, ast.Call):
        raise Unsupported("try body")
    tc = self.spec["try_calls"]
    if ast.unparse(call) in tc:
        text, ret = tc[ast.unparse(call)]               # the whole call, by its exact text
    elif ast.unparse(call.func) in tc and isinstance(tc[ast.unparse(call.func)], dict):
        text, ret = self.apply_spec(tc[ast.unparse(call.func)], ast.unparse(call.func), call.args, call.keywords, env)
    else:
        raise Unsupported(f"try around {ast.unparse(call)[:50]}: not a declared try_call")
    if self.loop_depth:
        raise Unsupported("try inside a loop")
    if mode == "assign":
        env_ok = self.bind(env, target, ret)
        ok = self.block(rest, env_ok, fin, ind + 1)
        pat = cname(target)
    elif mode == "stmt":
        ok = self.block(rest, env, fin, ind + 1)
        pat = "_"
    else:
        if ret != self.ret_type:
            raise Unsupported("try: return of another type")
        ok = "  " * (ind + 1) + fin(env, "return", "v_")
        pat = "v_"
    env_h = self.bind(env, h.name, "EXC") if h.name else env
    hb = self.block(list(h.body), env_h, fin, ind + 1)
    return f"{pad}match {text} with\n{pad}| inl {pat} =>\n{ok}\n{pad}| inr {cname(h.name) if h.name else '_'} =>\n{hb}\n{pad}end"


def gx_stmt(self, s, rest, env, fin, ind):
    pad = "  " * ind
    if self.spec.get("skip_stmts") and ast.unparse(s) in self.spec["skip_stmts"]:
        # a statement the spec declares to have no effect on anything the translation reads (exact text)
        if self.loop_depth:
            raise Unsupported("a skipped statement inside a loop")
        return self.block(rest, env, fin, ind)
    # a, b = f(..)   (the value is not a tuple display: pysrc handles `a, b = e1, e2`)
    if isinstance(s, ast.Assign) and len(s.targets) == 1 and isinstance(s.targets[0], ast.Tuple) \
            and not isinstance(s.value, ast.Tuple):
        tg = s.targets[0].elts
        if not all(isinstance(t, ast.Name) for t in tg) or len({t.id for t in tg}) != len(tg):
            raise Unsupported("tuple assignment")
        if isinstance(s.value, ast.Call) and ast.unparse(s.value.func) in self.pops:
            return None
        (t, ty), hs = self.hoisted(s.value, env, lambda: self.expr0(s.value, env))
        if hs:
            raise Unsupported("tuple assignment from a call that must be hoisted")
        if ty not in self.tuples or len(self.tuples[ty]) != len(tg):
            raise Unsupported(f"tuple assignment from a value of type {ty}")
        env2 = env
        for x, xty in zip(tg, self.tuples[ty]):
            env2 = self.bind(env2, x.id, xty)
        return (f"{pad}let '({', '.join(cname(x.id) for x in tg)}) := {t} in\n"
                + self.block(rest, env2, fin, ind))
    if isinstance(s, ast.Try) and self.spec.get("try_calls"):
        return gx_try(self, s, rest, env, fin, ind)
    if isinstance(s, ast.Assign) and len(s.targets) == 1 and isinstance(s.targets[0], ast.Attribute) \
            and isinstance(s.targets[0].value, ast.Name) and s.targets[0].value.id in env \
            and (env[s.targets[0].value.id], s.targets[0].attr) in self.spec.get("setattrs", {}):
        # v.attr = e  on a LOCAL object of an abstract type (never a parameter: the caller would not see it)
        v = s.targets[0].value.id
        fn, vty = self.spec["setattrs"][(env[v], s.targets[0].attr)]
        if v in self.pyargs or self.loop_depth:
            raise Unsupported(f"store on {v}.{s.targets[0].attr}")
        if any(t == env[v] and k != v and not k.startswith(("$", "@")) for k, t in env.items()):
            # another name of the same type could be the same object: its view of the store is not modelled
            raise Unsupported(f"store on {v}.{s.targets[0].attr} while another {env[v]} is in scope")
        (t, _), hs = self.hoisted(s.value, env, lambda: self.expr(s.value, env, vty))
        if hs:
            raise Unsupported("attribute store from a call that must be hoisted")
        ty = env[v]
        env2 = self.bind(env, v, ty)
        return f"{pad}let {cname(v)} := ({fn} {cname(v)} {t}) in\n" + self.block(rest, env2, fin, ind)
    if isinstance(s, ast.Assert):
        # assert x is not None  (x a NAME of type O:T): the rest runs with x : T; a failing assertion
        # is the value the spec names (assert_fail: a parameter of the result type)
        sub = gx_opt_subject(self, s.test, env)
        if s.msg is not None or sub is None or not isinstance(sub[0], ast.Name) or not sub[1] \
                or "assert_fail" not in self.spec or self.loop_depth or self.kind != "expr":
            raise Unsupported(f"statement {ast.unparse(s)[:60]}")
        v, inner, _ = gx_some_env(self, sub[0], env, [])
        a = self.block(rest, inner, fin, ind + 1)
        return (f"{pad}match {v} with\n{pad}| Some {v} =>\n{a}\n{pad}| None =>\n"
                f"{pad}  {fin(env, 'return', self.spec['assert_fail'])}\n{pad}end")
    if isinstance(s, ast.If):
        if ast.unparse(s.test) in self.skip_tests or (rest and self.is_pure(s)):
            return None                 # pysrc's join form comes back here with rest = []
        sub = gx_opt_subject(self, s.test, env)
        if sub is None or not isinstance(sub[0], ast.Name):
            return None
        p, positive = sub
        some_blk, none_blk = (s.body, s.orelse) if positive else (s.orelse, s.body)
        v, inner, _ = gx_some_env(self, p, env, [])
        a = self.block(list(some_blk) + rest, inner, fin, ind + 1)
        b = self.block(list(none_blk) + rest, env, fin, ind + 1)
        return f"{pad}match {v} with\n{pad}| Some {v} =>\n{a}\n{pad}| None =>\n{b}\n{pad}end"
    return None


# ------------------------------------------------------------------------------------------------ wrapping
_orig_expr0 = pysrc.Tr.expr0
_orig_coerce = pysrc.Tr.coerce
_orig_block = pysrc.Tr.block
_orig_unify = pysrc.Tr.unify


def _expr0(self, e, env, want=None):
    if _gx(self):
        r = gx_expr(self, e, env, want)
        if r is not None:
            return r
    return _orig_expr0(self, e, env, want)


def _coerce(self, text, ty, want, what="", e=None, env=None):
    if _gx(self) and want is not None:
        r = gx_coerce(self, text, ty, want, e, env)
        if r is not None:
            return r
    return _orig_coerce(self, text, ty, want, what, e, env)


def _block(self, stmts, env, fin, ind):
    if _gx(self) and stmts:
        r = gx_stmt(self, stmts[0], list(stmts[1:]), env, fin, ind)
        if r is not None:
            return r
    return _orig_block(self, stmts, env, fin, ind)


def _unify(self, t1, t2):
    if _gx(self) and t1 != t2 and (_is_opt(t1) or _is_opt(t2) or "NONE" in (t1, t2)):
        for a, b in ((t1, t2), (t2, t1)):
            if a == "NONE" and _is_opt(b):
                return b
            if a == "NONE" and b in self.types and b not in pysrc.SOME and b not in pysrc.OPT:
                return "O:" + b
            if _is_opt(b) and b[2:] == a:
                return b
    return _orig_unify(self, t1, t2)


_orig_translate_all = pysrc.translate_all


def _translate_all(repo, specs, header=pysrc.HEADER):
    """pysrc.translate_all rejects every decorator but @override / @property before it calls Tr.function.
    For a spec with decorators_ok the listed decorators are accepted: find_function is made to hand out a
    copy of the FunctionDef without them (for the specs that ask for it, matched by class and function)."""
    ok, inner, tails = {}, {}, {}
    for sp in specs:
        if sp.get("decorators_ok"):
            ok[(sp["file"], sp.get("cls"), sp["func"])] = set(sp["decorators_ok"])
        if sp.get("inner_def"):
            inner[(sp.get("cls"), sp["func"])] = sp["inner_def"]
        if sp.get("tail"):
            tails[(sp.get("cls"), sp["func"])] = sp["tail"]
    if not ok and not inner and not tails:
        return _orig_translate_all(repo, specs, header)
    orig_find = pysrc.find_function

    def find(tree, cls, func):
        fdef = orig_find(tree, cls, func)
        if (cls, func) in tails:
            # only the last statements of the function, its free local names becoming parameters
            t = tails[(cls, func)]
            w = copy.copy(fdef)
            w.body = list(fdef.body[-t["stmts"]:])
            if len(fdef.body) <= t["stmts"] or not isinstance(w.body[-1], ast.Return):
                raise Unsupported(f"{func}: no final return to translate on its own")
            w.args = copy.deepcopy(fdef.args)
            have = {x.arg for x in w.args.args}
            for n in t["free"]:
                if n in have:
                    raise Unsupported(f"{func}: {n} is already a parameter")
                w.args.args.append(ast.arg(arg=n, annotation=None))
            return w
        if (cls, func) in inner:
            name = inner[(cls, func)]
            body = [x for x in fdef.body
                    if not (isinstance(x, ast.Expr) and isinstance(x.value, ast.Constant) and isinstance(x.value.value, str))]
            if not (len(body) == 2 and isinstance(body[0], ast.FunctionDef) and body[0].name == name
                    and isinstance(body[1], ast.Return) and isinstance(body[1].value, ast.Name)
                    and body[1].value.id == name and len(fdef.args.args) == 1 and not fdef.decorator_list
                    and [ast.unparse(d) for d in body[0].decorator_list] == [f"wraps({fdef.args.args[0].arg})"]):
                raise Unsupported(f"{func} is not `def {name}(..): ..; return {name}` under @wraps")
            w = copy.copy(body[0])
            a = w.args
            if a.args or a.posonlyargs or a.kwonlyargs or a.vararg is None or a.kwarg is None \
                    or a.vararg.arg != "args" or a.kwarg.arg != "kwargs":
                raise Unsupported(f"{name} does not take exactly (*args, **kwargs)")
            w.args = ast.arguments(posonlyargs=[], args=[], vararg=None, kwonlyargs=[], kw_defaults=[], kwarg=None,
                                   defaults=[])
            w.decorator_list = []
            return w
        accepted = set()
        for (f, c, fn), decs in ok.items():
            if c == cls and fn == func:
                accepted |= decs
        if not accepted or not any(ast.unparse(d) in accepted for d in fdef.decorator_list):
            return fdef
        fdef2 = copy.copy(fdef)
        fdef2.decorator_list = [d for d in fdef.decorator_list if ast.unparse(d) not in accepted]
        return fdef2
    pysrc.find_function = find
    try:
        return _orig_translate_all(repo, specs, header)
    finally:
        pysrc.find_function = orig_find


if getattr(pysrc.Tr, "_gx_installed", False) is False:
    pysrc.translate_all = _translate_all
    pysrc.Tr.expr0 = _expr0
    pysrc.Tr.coerce = _coerce
    pysrc.Tr.block = _block
    pysrc.Tr.unify = _unify
    pysrc.Tr._gx_installed = True
