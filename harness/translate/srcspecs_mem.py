"""Tie C, third extension (tag mem): MemoryTimeline (calgebra/mutable/memory.py) and the dispatch of
MutableTimeline (calgebra/mutable/__init__.py).  Translator constructs: harness/translate/pysrc_mem.py;
library models: coq/Model/LoopMem.v; equivalence proofs: coq/Proofs/GenEq_mem.v.

TRUSTED readings (what the equivalence theorems take for granted about Python; each is a reading of the
source text the translator makes only for exactly the constructs named here):

 T1  A stored RecurringPattern is a value of an abstract type PAT, a recurring_event_id a value of an abstract
     type ID (== is the parameter id_eqb, truthiness of a str the parameter id_truthy), a frozenset of exdates
     a value of an abstract type EXS.  What the code does with them is a parameter of the generated
     definition: pattern.fetch(a, b, reverse=r) = pattern_fetch, pattern.exdates = pattern_exdates,
     `exdates | {t}` = exs_add, the attribute store `pattern.exdates = e` = pattern_set_exdates,
     getattr(interval, 'recurring_event_id', None) = recurring_id_of, f"{id(pattern)}-{self._series_seq}"
     = make_id pattern seq (id() is not a function of anything the model sees).
 T2  self._recurring_patterns is the Coq list of its (id, pattern) pairs.  The pattern objects in it are
     pairwise distinct objects that nothing else refers to (each is built by RecurringPattern(..) inside
     _add_recurring just before it is appended — the translator checks that this is the only place that
     stores into the list: spec "fresh_objects"), so `pattern.exdates = e` through the loop target changes
     exactly that entry: py_set_index L i (id, pattern').  A `for` over the list runs over the list as it was
     when the loop started; an update of it inside the loop is accepted only when the very next statement is
     `return`.
 T3  self._static_intervals is the SortedList of Model/Expr.v: .add = sl_add, .remove(x) raises ValueError
     exactly when no stored interval == x and otherwise removes the first such (sl_remove); truthiness =
     non-emptiness; the key function _interval_sort_key is translated separately (g_interval_sort_key) and
     proved to be the key sl_add sorts by.
 T4  `try: self._static_intervals.remove(x); return [WriteResult(..)]  except ValueError: H`: only .remove can
     raise inside the try — WriteResult(..) (a frozen dataclass without __post_init__), list literals and
     ValueError("..") / ValueError(f"..") do not raise; formatting an Interval / a str / an int in an f-string
     has no effect on the timeline.
 T5  An exception object is kept as its class only (its message is dropped): WriteResult.error is an
     `option exn`.  WriteResult(success=, event=, error=) is the record wres.
 T6  `a == b` for a : str and b : str | None is false when b is None (eq_opt).
 T7  heapq.merge(*iterators, key=..) with exactly the two key lambdas of MemoryTimeline.fetch is the library
     model merge_by lt_fwd / lt_rev (Model/Sweeps.v), as for Union.fetch.
 T8  `match x: case C(): ..` tests isinstance(x, C) (C a class imported at module level: checked by
     "file_has"); `case _ if g:` tests g; the first case that applies runs.  The argument of add is read as
     the sum additem (an Interval; a RecurringPattern; another Timeline; anything else = the list of the
     Intervals it yields when iterated), that of remove / remove_series as remitem.  No object is both an
     Interval and a Timeline.
 T9  A dict is the list of its (key, value) pairs in insertion order with pairwise distinct keys (== on keys
     is the parameter key_eqb); values are `option V`, None being Python's None.  dict(d) is d; {**a, **b} and
     a.update(b) are dict_update (Model/LoopMem.v); d.get(k) is None for a missing key; d.items() iterates the
     pairs in order; vars(interval) = vars_of interval; replace(interval, **d) = replace_fields interval d;
     `**metadata` in a signature is the dict of the keyword arguments.
 T10 self._series_seq is a non-negative counter (N; `+= 1` is N_plus_Z).
 T11 The abstract methods MutableTimeline._add_interval / _add_recurring / _remove_interval / _remove_series /
     and the overridable _add_many / _remove_many / _remove_many_series are parameters of the translated
     dispatch (a function from the backend state to the new state and the list of WriteResults).
"""

MEM = "calgebra/mutable/memory.py"
MUT = "calgebra/mutable/__init__.py"

# appended to the header of Gen/Source.v
HEADER_MEM = "From CG Require Import Model.LoopMem.\n"

TYPES = {"ID": "ID", "PAT": "PAT", "EXS": "EXS", "ENT": "(ID * PAT)", "WR": "wres", "EXN": "exn", "N": "N"}
TUPLES = {"ENT": ["ID", "PAT"]}

# the operations on the abstract types (T1)
PAT_PARAMS = [("recurring_id_of", "ivl -> option ID"), ("id_truthy", "ID -> bool"), ("id_eqb", "ID -> ID -> bool"),
              ("pattern_fetch", "PAT -> option Z -> option Z -> bool -> list ivl"),
              ("pattern_exdates", "PAT -> EXS"), ("exs_add", "EXS -> Z -> EXS"),
              ("pattern_set_exdates", "PAT -> EXS -> PAT")]
PAT_ARGS = " ".join(n for n, _ in PAT_PARAMS)

SELF = {"_static_intervals": ("self_static_intervals", "LIST"),
        "_recurring_patterns": ("self_recurring_patterns", "L:ENT"),
        "_series_seq": ("self_series_seq", "N")}

WRITE_RESULT = {"WriteResult": dict(coq="mkWR", args=[], kw=[("success", "B"), ("event", "OIVL"), ("error", "O:EXN")],
                                    ret="WR")}
GETID = {"getattr(interval, 'recurring_event_id', None)": ("(recurring_id_of interval_)", "O:ID")}

PAT_COMMON = dict(
    tyvars=["ID", "PAT", "EXS"], types=TYPES, tuples=TUPLES, selfattrs=SELF,
    calls=WRITE_RESULT, noraise=["WriteResult"], text_exprs=GETID,
    truthy={"ID": "id_truthy"},
    cmpops={("ID", "==", "O:ID"): "eq_opt id_eqb"},
    methods={("PAT", "fetch"): dict(coq="pattern_fetch", args=["OZ", "OZ", "B"], fetch=True, ret="LIST")},
    attrs={("PAT", "exdates"): ("pattern_exdates", "EXS")},
    binops={("EXS", "|{}", "Z"): ("exs_add", "EXS")},
    objects={"PAT": {"exdates": ("pattern_set_exdates", "EXS")}},
    fresh_objects={"_recurring_patterns": ("_add_recurring", "RecurringPattern")},
)

STATIC_EFFECTS = {
    "self._static_intervals.remove": dict(var="self_static_intervals", args=["IVL"], update="(sl_remove {0} {var})",
                                          raises=("ValueError", "(existsb (ivl_eqb {0}) {var})"), must_try=True),
}

ST2 = ["self_static_intervals", "self_recurring_patterns"]
ST2_PARAMS = [("self_static_intervals", "LIST"), ("self_recurring_patterns", "L:ENT")]

REMOVE_INSTANCE_CALL = dict(call="(g_mem_remove_recurring_instance " + PAT_ARGS + " self_recurring_patterns {0})",
                            vars=["self_recurring_patterns"], args=["IVL"], ret="L:WR")
REMOVE_INTERVAL_CALL = dict(call="(g_mem_remove_interval " + PAT_ARGS + " self_static_intervals self_recurring_patterns {0})",
                            vars=ST2, args=["IVL"], ret="L:WR")
REMOVE_SERIES_CALL = dict(call="(g_mem_remove_series " + PAT_ARGS + " self_static_intervals self_recurring_patterns {0})",
                          vars=ST2, args=["IVL"], ret="L:WR")


def S(**kw):
    d = dict(PAT_COMMON)
    d.update(kw)
    return d


SPECS_MEM = [
    # the SortedList key
    dict(name="g_interval_sort_key", file=MEM, func="_interval_sort_key", kind="expr",
         params=[("interval", "IVL")], ret="KEY2", types={"KEY2": "(Z * Z)"}, tuples={"KEY2": ["Z", "Z"]}),
    # MemoryTimeline.fetch: the pattern streams in storage order, then the static stream, merged
    S(name="g_mem_fetch", file=MEM, cls="MemoryTimeline", func="fetch", kind="expr", ret="LIST", tyvars=["ID", "PAT"],
      params=[("pattern_fetch", "PAT -> option Z -> option Z -> bool -> list ivl")] + ST2_PARAMS +
      [("start", "OZ"), ("end", "OZ"), ("reverse", "B")],
      annotations={"list[Iterable[Interval]]": "L:LIST"},
      calls=dict(WRITE_RESULT, **{
          "self._fetch_static": dict(coq="g_mem_fetch_static", pre=["self_static_intervals"], args=["OZ", "OZ", "B"],
                                     fetch=True, ret="LIST")}),
      text_exprs={"heapq.merge(*iterators, key=lambda x: (-x.finite_start, -x.finite_end))":
                  ("(merge_by lt_rev iterators)", "LIST"),
                  "heapq.merge(*iterators, key=lambda x: (x.finite_start, x.finite_end))":
                  ("(merge_by lt_fwd iterators)", "LIST")}),
    # _remove_recurring_instance: the exdate of the first stored pattern with that id
    S(name="g_mem_remove_recurring_instance", file=MEM, cls="MemoryTimeline", func="_remove_recurring_instance",
      kind="proc", ret="L:WR", state=["self_recurring_patterns"],
      params=PAT_PARAMS + [("self_recurring_patterns", "L:ENT"), ("interval", "IVL")]),
    # _remove_interval: a stored interval as such; otherwise, with a recurring_event_id, an occurrence
    S(name="g_mem_remove_interval", file=MEM, cls="MemoryTimeline", func="_remove_interval",
      kind="proc", ret="L:WR", state=ST2, params=PAT_PARAMS + ST2_PARAMS + [("interval", "IVL")],
      effects=STATIC_EFFECTS, statecalls={"self._remove_recurring_instance": REMOVE_INSTANCE_CALL}),
    # _remove_series
    S(name="g_mem_remove_series", file=MEM, cls="MemoryTimeline", func="_remove_series",
      kind="proc", ret="L:WR", state=ST2, params=PAT_PARAMS + ST2_PARAMS + [("interval", "IVL")],
      effects={"self._recurring_patterns.pop": dict(var="self_recurring_patterns", args=["Z"],
                                                    update="(py_pop {var} {0})")},
      statecalls={"self._remove_interval": REMOVE_INTERVAL_CALL}),
    # _remove_many / _remove_many_series (the overrides of MemoryTimeline)
    S(name="g_mem_remove_many", file=MEM, cls="MemoryTimeline", func="_remove_many",
      kind="proc", ret="L:WR", state=ST2, params=PAT_PARAMS + ST2_PARAMS + [("intervals", "LIST")],
      locals={"results": "L:WR"}, statecalls={"self._remove_interval": REMOVE_INTERVAL_CALL}),
    S(name="g_mem_remove_many_series", file=MEM, cls="MemoryTimeline", func="_remove_many_series",
      kind="proc", ret="L:WR", state=ST2, params=PAT_PARAMS + ST2_PARAMS + [("intervals", "LIST")],
      locals={"results": "L:WR"}, statecalls={"self._remove_series": REMOVE_SERIES_CALL}),
]

# ------------------------------------------------------------------------------------------------
# the add side: metadata dictionaries (T9).  KEY = a field name (str), VAL = a field value that is not None.
DICT_T = "list (KEY * option VAL)"
DICTS = {"DICT": dict(key="KEY", val="O:VAL", eqb="key_eqb")}
ADD_TYPES = dict(TYPES, KEY="KEY", VAL="VAL", START="START", TZ="TZ")

ANCHOR_BLOCK = dict(
    stmts=["start: datetime | int",
           "tz: str | None",
           "if pattern.anchor_timestamp is not None:\n"
           "    start = _anchor_wall_clock(pattern.anchor_timestamp, pattern.start_seconds, pattern.zone)\n"
           "    tz = None\n"
           "else:\n"
           "    start = pattern.start_seconds\n"
           "    tz = str(pattern.zone)"],
    reads=[("pattern", "PAT")],
    binds=[("start", "(anchor_start pattern)", "START"), ("tz", "(anchor_tz pattern)", "TZ")])

NEW_PATTERN = ("RecurringPattern(freq=cast(Literal['daily', 'weekly', 'monthly', 'yearly'], pattern.freq), "
               "interval=pattern.interval, duration=pattern.duration_seconds, start=start, tz=tz, "
               "interval_class=pattern.interval_class, exdates=pattern.exdates, "
               "**_get_recurrence_params(pattern), **merged_metadata)")

SPECS_MEM += [
    # _add_interval: container defaults fill the fields that are missing or None; SortedList.add
    dict(name="g_mem_add_interval", file=MEM, cls="MemoryTimeline", func="_add_interval", kind="proc", ret="L:WR",
         tyvars=["KEY", "VAL"], types=ADD_TYPES, dicts=DICTS, state=["self_static_intervals"],
         params=[("key_eqb", "KEY -> KEY -> bool"), ("replace_fields", "ivl -> " + DICT_T + " -> ivl"),
                 ("self_metadata", "DICT"), ("self_static_intervals", "LIST"), ("interval", "IVL"), ("metadata", "DICT")],
         selfattrs={"metadata": ("self_metadata", "DICT"), "_static_intervals": ("self_static_intervals", "LIST")},
         calls=dict(WRITE_RESULT, replace=dict(coq="replace_fields", args=["IVL"], kw=[("**", "DICT")], ret="IVL")),
         effects={"cast(SortedList, self._static_intervals).add":
                  dict(var="self_static_intervals", args=["IVL"], update="(sl_add {0} {var})")}),
    # _add_recurring: the id, the metadata of the stored pattern; the anchor block and the constructor call are
    # functions of what they read (T1)
    dict(name="g_mem_add_recurring", file=MEM, cls="MemoryTimeline", func="_add_recurring", kind="proc", ret="L:WR",
         tyvars=["ID", "PAT", "KEY", "VAL", "START", "TZ"], types=ADD_TYPES, tuples=TUPLES, dicts=DICTS,
         state=["self_recurring_patterns", "self_series_seq"],
         params=[("key_eqb", "KEY -> KEY -> bool"), ("make_id", "PAT -> N -> ID"),
                 ("pattern_metadata", "PAT -> " + DICT_T), ("class_has_annotations", "PAT -> bool"),
                 ("class_annotations", "PAT -> list KEY"), ("key_recurring_event_id", "KEY"),
                 ("val_of_id", "ID -> VAL"), ("anchor_start", "PAT -> START"), ("anchor_tz", "PAT -> TZ"),
                 ("make_pattern", "PAT -> START -> TZ -> " + DICT_T + " -> PAT"),
                 ("self_metadata", "DICT"), ("self_recurring_patterns", "L:ENT"), ("self_series_seq", "N"),
                 ("pattern", "PAT"), ("metadata", "DICT")],
         selfattrs={"metadata": ("self_metadata", "DICT"), "_recurring_patterns": ("self_recurring_patterns", "L:ENT"),
                    "_series_seq": ("self_series_seq", "N")},
         calls=WRITE_RESULT, binops={("N", "+", "Z"): ("N_plus_Z", "N")},
         attrs={("PAT", "metadata"): ("pattern_metadata", "DICT")},
         annotations={"set[str]": "L:KEY"}, eqbs={"KEY": "key_eqb"},
         strconsts={"recurring_event_id": ("key_recurring_event_id", "KEY")},
         casts={("ID", "O:VAL"): "(Some (val_of_id {0}))"},
         abstract_blocks=[ANCHOR_BLOCK],
         text_exprs={"f'{id(pattern)}-{self._series_seq}'": ("(make_id pattern self_series_seq)", "ID"),
                     "set()": ("(@nil KEY)", "L:KEY"),
                     "hasattr(pattern.interval_class, '__annotations__')": ("(class_has_annotations pattern)", "B"),
                     "set(pattern.interval_class.__annotations__.keys())": ("(class_annotations pattern)", "L:KEY"),
                     NEW_PATTERN: ("(make_pattern pattern start tz merged_metadata)", "PAT")},
         effects={"self._recurring_patterns.append":
                  dict(var="self_recurring_patterns", args=["ENT"], update="({var} ++ [{0}])")}),
]

# ------------------------------------------------------------------------------------------------
# MutableTimeline: the dispatch on the kind of argument (T8, T11).  ST = the state of the backend.
IMPORTS = ["from calgebra.core import Timeline", "from calgebra.interval import Interval, IvlOut",
           "from calgebra.recurrence import RecurringPattern"]
_NO = {"isinstance({x}, Interval)": ("false", "B"), "isinstance({x}, RecurringPattern)": ("false", "B"),
       "isinstance({x}, Timeline)": ("false", "B")}
ADDITEM = {"ADDITEM": dict(
    coq="(additem PAT)", ctors=[("AIvl", [("i", "IVL")]), ("APat", [("p", "PAT")]), ("ATimeline", []), ("AMany", [("l", "LIST")])],
    exprs={"AIvl": dict(_NO, **{"isinstance({x}, Interval)": ("true", "B"), "{x}": ("{i}", "IVL")}),
           "APat": dict(_NO, **{"isinstance({x}, RecurringPattern)": ("true", "B"), "isinstance({x}, Timeline)": ("true", "B"),
                                "{x}": ("{p}", "PAT")}),
           "ATimeline": dict(_NO, **{"isinstance({x}, Timeline)": ("true", "B")}),
           "AMany": dict(_NO, **{"{x}": ("{l}", "LIST")})})}
REMITEM = {"REMITEM": dict(
    coq="remitem", ctors=[("RIvl", [("i", "IVL")]), ("RMany", [("l", "LIST")])],
    exprs={"RIvl": {"isinstance({x}, Interval)": ("true", "B"), "{x}": ("{i}", "IVL")},
           "RMany": {"isinstance({x}, Interval)": ("false", "B"), "{x}": ("{l}", "LIST")}})}
MT_TYPES = dict(ADD_TYPES, ST="ST")
WR_T = "ST * list wres"


def one(name, args, ret="L:WR"):
    return dict(call="(" + name + " self_state " + " ".join("{%d}" % i for i in range(len(args))) + ")",
                vars=["self_state"], args=args, ret=ret)


SPECS_MEM += [
    dict(name="g_mt_remove", file=MUT, cls="MutableTimeline", func="remove", kind="proc", ret="L:WR", file_has=IMPORTS,
         tyvars=["ST"], types=MT_TYPES, sums=REMITEM, state=["self_state"],
         params=[("remove_interval", "ST -> ivl -> " + WR_T), ("remove_many", "ST -> list ivl -> " + WR_T),
                 ("self_state", "ST"), ("items", "REMITEM")],
         statecalls={"self._remove_interval": one("remove_interval", ["IVL"]),
                     "self._remove_many": one("remove_many", ["LIST"])}),
    dict(name="g_mt_remove_series", file=MUT, cls="MutableTimeline", func="remove_series", kind="proc", ret="L:WR",
         file_has=IMPORTS, tyvars=["ST"], types=MT_TYPES, sums=REMITEM, state=["self_state"],
         params=[("remove_series", "ST -> ivl -> " + WR_T), ("remove_many_series", "ST -> list ivl -> " + WR_T),
                 ("self_state", "ST"), ("items", "REMITEM")],
         statecalls={"self._remove_series": one("remove_series", ["IVL"]),
                     "self._remove_many_series": one("remove_many_series", ["LIST"])}),
    dict(name="g_mt_add", file=MUT, cls="MutableTimeline", func="add", kind="proc", ret="L:WR", res=True, file_has=IMPORTS,
         tyvars=["ST", "PAT", "KEY", "VAL"], types=MT_TYPES, dicts=DICTS, sums=ADDITEM, state=["self_state"], kwarg="DICT",
         params=[("key_eqb", "KEY -> KEY -> bool"), ("vars_of", "ivl -> " + DICT_T),
                 ("add_interval", "ST -> ivl -> " + DICT_T + " -> " + WR_T),
                 ("add_recurring", "ST -> PAT -> " + DICT_T + " -> " + WR_T),
                 ("add_many", "ST -> list ivl -> " + DICT_T + " -> " + WR_T),
                 ("self_state", "ST"), ("item", "ADDITEM"), ("metadata", "DICT")],
         calls={"vars": ("vars_of", ["IVL"], "DICT")},
         statecalls={"self._add_interval": one("add_interval", ["IVL", "DICT"]),
                     "self._add_recurring": one("add_recurring", ["PAT", "DICT"]),
                     "self._add_many": one("add_many", ["LIST", "DICT"])}),
    dict(name="g_mt_add_many", file=MUT, cls="MutableTimeline", func="_add_many", kind="proc", ret="L:WR",
         tyvars=["ST", "KEY", "VAL"], types=MT_TYPES, dicts=DICTS, state=["self_state"], locals={"results": "L:WR"},
         params=[("key_eqb", "KEY -> KEY -> bool"), ("vars_of", "ivl -> " + DICT_T),
                 ("add_interval", "ST -> ivl -> " + DICT_T + " -> " + WR_T),
                 ("self_state", "ST"), ("intervals", "LIST"), ("metadata", "DICT")],
         calls={"vars": ("vars_of", ["IVL"], "DICT")},
         statecalls={"self._add_interval": one("add_interval", ["IVL", "DICT"])}),
    # the default batch removals of the base class (MemoryTimeline overrides them with the same text)
    dict(name="g_mt_remove_many", file=MUT, cls="MutableTimeline", func="_remove_many", kind="proc", ret="L:WR",
         tyvars=["ST"], types=MT_TYPES, state=["self_state"], locals={"results": "L:WR"},
         params=[("remove_interval", "ST -> ivl -> " + WR_T), ("self_state", "ST"), ("intervals", "LIST")],
         statecalls={"self._remove_interval": one("remove_interval", ["IVL"])}),
    dict(name="g_mt_remove_many_series", file=MUT, cls="MutableTimeline", func="_remove_many_series", kind="proc",
         ret="L:WR", tyvars=["ST"], types=MT_TYPES, state=["self_state"], locals={"results": "L:WR"},
         params=[("remove_series", "ST -> ivl -> " + WR_T), ("self_state", "ST"), ("intervals", "LIST")],
         statecalls={"self._remove_series": one("remove_series", ["IVL"])}),
]
