"""Tie C, third extension (tag mem): MemoryTimeline (calgebra/mutable/memory.py) and the dispatch of
MutableTimeline (calgebra/mutable/__init__.py).  Translator constructs: harness/translate/pysrc_mem.py;
library models: coq/Model/LoopMem.v; equivalence proofs: coq/Proofs/GenEq_mem.v.

TRUSTED readings (what the equivalence theorems take for granted about Python; each is a reading of the
source text the translator makes only for exactly the constructs named here):

 T1  A stored RecurringPattern is a value of an abstract type PAT, a recurring_event_id a value of an abstract
     type ID (== is the parameter id_eqb, truthiness of a str the parameter id_truthy), a frozenset of exdates
     a value of an abstract type EXS.  What the code does with them is a parameter of the generated
     definition: pattern.fetch(a, b, reverse=r) = pattern_fetch, pattern.exdates = pattern_exdates,
     `exdates | {t}` = exs_add, the attribute store `pattern.exdates = e` = pattern_set_exdates,
     getattr(interval, 'recurring_event_id', None) = recurring_id_of, f"{id(pattern)}-{self._series_seq}"
     = make_id pattern seq (id() is not a function of anything the model sees).
 T2  self._recurring_patterns is the Coq list of its (id, pattern) pairs.  The pattern objects in it are
     pairwise distinct objects that nothing else refers to (each is built by RecurringPattern(..) inside
     _add_recurring just before it is appended — the translator checks that this is the only place that
     stores into the list: spec "fresh_objects"), so `pattern.exdates = e` through the loop target changes
     exactly that entry: py_set_index L i (id, pattern').  A `for` over the list runs over the list as it was
     when the loop started; an update of it inside the loop is accepted only when the very next statement is
     `return`.
 T3  self._static_intervals is the SortedList of Model/Expr.v: .add = sl_add, .remove(x) raises ValueError
     exactly when no stored interval == x and otherwise removes the first such (sl_remove); truthiness =
     non-emptiness; the key function _interval_sort_key is translated separately (g_interval_sort_key) and
     proved to be the key sl_add sorts by.
 T4  `try: self._static_intervals.remove(x); return [WriteResult(..)]  except ValueError: H`: only .remove can
     raise inside the try — WriteResult(..) (a frozen dataclass without __post_init__), list literals and
     ValueError("..") / ValueError(f"..") do not raise; formatting an Interval / a str / an int in an f-string
     has no effect on the timeline.
 T5  An exception object is kept as its class only (its message is dropped): WriteResult.error is an
     `option exn`.  WriteResult(success=, event=, error=) is the record wres.
 T6  `a == b` for a : str and b : str | None is false when b is None (eq_opt).
 T7  heapq.merge(*iterators, key=..) with exactly the two key lambdas of MemoryTimeline.fetch is the library
     model merge_by lt_fwd / lt_rev (Model/Sweeps.v), as for Union.fetch.
 T8  `match x: case C(): ..` tests isinstance(x, C) (C a class imported at module level: checked by
     "file_has"); `case _ if g:` tests g; the first case that applies runs.  The argument of add is read as
     the sum additem (an Interval; a RecurringPattern; another Timeline; anything else = the list of the
     Intervals it yields when iterated), that of remove / remove_series as remitem.  No object is both an
     Interval and a Timeline.
 T9  A dict is the list of its (key, value) pairs in insertion order with pairwise distinct keys (== on keys
     is the parameter key_eqb); values are `option V`, None being Python's None.  dict(d) is d; {**a, **b} and
     a.update(b) are dict_update (Model/LoopMem.v); d.get(k) is None for a missing key; d.items() iterates the
     pairs in order; vars(interval) = vars_of interval; replace(interval, **d) = replace_fields interval d;
     `**metadata` in a signature is the dict of the keyword arguments.
 T10 self._series_seq is a non-negative counter (N; `+= 1` is N_plus_Z).
 T11 The abstract methods MutableTimeline._add_interval / _add_recurring / _remove_interval / _remove_series /
     and the overridable _add_many / _remove_many / _remove_many_series are parameters of the translated
     dispatch (a function from the backend state to the new state and the list of WriteResults).
"""

MEM = "calgebra/mutable/memory.py"
MUT = "calgebra/mutable/__init__.py"

# appended to the header of Gen/Source.v
HEADER_MEM = "From CG Require Import Model.LoopMem.\n"

TYPES = {"ID": "ID", "PAT": "PAT", "EXS": "EXS", "ENT": "(ID * PAT)", "WR": "wres", "EXN": "exn", "N": "N"}
TUPLES = {"ENT": ["ID", "PAT"]}

# the operations on the abstract types (T1)
PAT_PARAMS = [("recurring_id_of", "ivl -> option ID"), ("id_truthy", "ID -> bool"), ("id_eqb", "ID -> ID -> bool"),
              ("pattern_fetch", "PAT -> option Z -> option Z -> bool -> list ivl"),
              ("pattern_exdates", "PAT -> EXS"), ("exs_add", "EXS -> Z -> EXS"),
              ("pattern_set_exdates", "PAT -> EXS -> PAT")]
PAT_ARGS = " ".join(n for n, _ in PAT_PARAMS)

SELF = {"_static_intervals": ("self_static_intervals", "LIST"),
        "_recurring_patterns": ("self_recurring_patterns", "L:ENT"),
        "_series_seq": ("self_series_seq", "N")}

WRITE_RESULT = {"WriteResult": dict(coq="mkWR", args=[], kw=[("success", "B"), ("event", "OIVL"), ("error", "O:EXN")],
                                    ret="WR")}
GETID = {"getattr(interval, 'recurring_event_id', None)": ("(recurring_id_of interval_)", "O:ID")}

PAT_COMMON = dict(
    tyvars=["ID", "PAT", "EXS"], types=TYPES, tuples=TUPLES, selfattrs=SELF,
    calls=WRITE_RESULT, noraise=["WriteResult"], text_exprs=GETID,
    truthy={"ID": "id_truthy"},
    cmpops={("ID", "==", "O:ID"): "eq_opt id_eqb"},
    methods={("PAT", "fetch"): dict(coq="pattern_fetch", args=["OZ", "OZ", "B"], fetch=True, ret="LIST")},
    attrs={("PAT", "exdates"): ("pattern_exdates", "EXS")},
    binops={("EXS", "|{}", "Z"): ("exs_add", "EXS")},
    objects={"PAT": {"exdates": ("pattern_set_exdates", "EXS")}},
    fresh_objects={"_recurring_patterns": ("_add_recurring", "RecurringPattern")},
)

STATIC_EFFECTS = {
    "self._static_intervals.remove": dict(var="self_static_intervals", args=["IVL"], update="(sl_remove {0} {var})",
                                          raises=("ValueError", "(existsb (ivl_eqb {0}) {var})"), must_try=True),
}

ST2 = ["self_static_intervals", "self_recurring_patterns"]
ST2_PARAMS = [("self_static_intervals", "LIST"), ("self_recurring_patterns", "L:ENT")]

REMOVE_INSTANCE_CALL = dict(call="(g_mem_remove_recurring_instance " + PAT_ARGS + " self_recurring_patterns {0})",
                            vars=["self_recurring_patterns"], args=["IVL"], ret="L:WR")
REMOVE_INTERVAL_CALL = dict(call="(g_mem_remove_interval " + PAT_ARGS + " self_static_intervals self_recurring_patterns {0})",
                            vars=ST2, args=["IVL"], ret="L:WR")
REMOVE_SERIES_CALL = dict(call="(g_mem_remove_series " + PAT_ARGS + " self_static_intervals self_recurring_patterns {0})",
                          vars=ST2, args=["IVL"], ret="L:WR")


def S(**kw):
    d = dict(PAT_COMMON)
    d.update(kw)
    return d


SPECS_MEM = [
    # the SortedList key
    dict(name="g_interval_sort_key", file=MEM, func="_interval_sort_key", kind="expr",
         params=[("interval", "IVL")], ret="KEY2", types={"KEY2": "(Z * Z)"}, tuples={"KEY2": ["Z", "Z"]}),
    # MemoryTimeline.fetch: the pattern streams in storage order, then the static stream, merged
    S(name="g_mem_fetch", file=MEM, cls="MemoryTimeline", func="fetch", kind="expr", ret="LIST", tyvars=["ID", "PAT"],
      params=[("pattern_fetch", "PAT -> option Z -> option Z -> bool -> list ivl")] + ST2_PARAMS +
      [("start", "OZ"), ("end", "OZ"), ("reverse", "B")],
      annotations={"list[Iterable[Interval]]": "L:LIST"},
      calls=dict(WRITE_RESULT, **{
          "self._fetch_static": dict(coq="g_mem_fetch_static", pre=["self_static_intervals"], args=["OZ", "OZ", "B"],
                                     fetch=True, ret="LIST")}),
      text_exprs={"heapq.merge(*iterators, key=lambda x: (-x.finite_start, -x.finite_end))":
                  ("(merge_by lt_rev iterators)", "LIST"),
                  "heapq.merge(*iterators, key=lambda x: (x.finite_start, x.finite_end))":
                  ("(merge_by lt_fwd iterators)", "LIST")}),
    # _remove_recurring_instance: the exdate of the first stored pattern with that id
    S(name="g_mem_remove_recurring_instance", file=MEM, cls="MemoryTimeline", func="_remove_recurring_instance",
      kind="proc", ret="L:WR", state=["self_recurring_patterns"],
      params=PAT_PARAMS + [("self_recurring_patterns", "L:ENT"), ("interval", "IVL")]),
    # _remove_interval: a stored interval as such; otherwise, with a recurring_event_id, an occurrence
    S(name="g_mem_remove_interval", file=MEM, cls="MemoryTimeline", func="_remove_interval",
      kind="proc", ret="L:WR", state=ST2, params=PAT_PARAMS + ST2_PARAMS + [("interval", "IVL")],
      effects=STATIC_EFFECTS, statecalls={"self._remove_recurring_instance": REMOVE_INSTANCE_CALL}),
    # _remove_series
    S(name="g_mem_remove_series", file=MEM, cls="MemoryTimeline", func="_remove_series",
      kind="proc", ret="L:WR", state=ST2, params=PAT_PARAMS + ST2_PARAMS + [("interval", "IVL")],
      effects={"self._recurring_patterns.pop": dict(var="self_recurring_patterns", args=["Z"],
                                                    update="(py_pop {var} {0})")},
      statecalls={"self._remove_interval": REMOVE_INTERVAL_CALL}),
    # _remove_many / _remove_many_series (the overrides of MemoryTimeline)
    S(name="g_mem_remove_many", file=MEM, cls="MemoryTimeline", func="_remove_many",
      kind="proc", ret="L:WR", state=ST2, params=PAT_PARAMS + ST2_PARAMS + [("intervals", "LIST")],
      locals={"results": "L:WR"}, statecalls={"self._remove_interval": REMOVE_INTERVAL_CALL}),
    S(name="g_mem_remove_many_series", file=MEM, cls="MemoryTimeline", func="_remove_many_series",
      kind="proc", ret="L:WR", state=ST2, params=PAT_PARAMS + ST2_PARAMS + [("intervals", "LIST")],
      locals={"results": "L:WR"}, statecalls={"self._remove_series": REMOVE_SERIES_CALL}),
]
