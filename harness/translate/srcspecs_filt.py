"""Tie C, third extension, tag "filt": calgebra/properties.py (Operator, Property, Duration / Start / End,
_normalize_collection, one_of / has_any / has_all, field) and, in calgebra/core.py, the Filter classes and
the operator dispatch of Timeline (__or__ / __and__ / __sub__ / __invert__, _flatten_sources, the
constructors of Union / Intersection, _is_mask of every node class).

The generated definitions are polymorphic in the types Python leaves dynamic:
   PROP   a Property object            VAL   any Python value (what a property's apply returns, a constant)
   FILT   a Filter object              TL    a Timeline object
   FL     a float                      SET   a set of hashable values        ITER  an iterable of hashables
   NAME   a str used as attribute name
and every library function / constructor / dynamically dispatched method is a parameter (prop_apply,
filter_apply, mk_operator, op_ge, float_div, set_inter, ...).  Proofs/GenEq_filt.v instantiates them with
the value-level model of Model/FiltVal.v and proves the result equal to Model/Expr.v (eval_cmp, eval_cmpp,
feval; or_, and_, sub_, inv_, is_mask) and Model/Slice.v (or_kind, and_kind).

TRUSTED readings (Python semantics this extension relies on, beyond those listed in pysrc.py):
  R1  `isinstance(x, Property)` / `isinstance(x, Timeline)` / `isinstance(x, Filter)` / `isinstance(x, str)`
      on a value of a two-constructor sum type  A + B  is true exactly for the constructor the spec says
      (inl p : PROP + VAL is "an instance of Property", inr v "any other value"; for `other` in the binary
      operators: inl = a Timeline, inr = a Filter — a value that is neither is outside the model; for the
      accessor of field(): inl = a str, inr = a callable).
  R2  a method call on an object of abstract class (`self.left.apply(event)`, `f.apply(event)`,
      `s._is_mask`, `source.sources`) is the corresponding function parameter applied to the object
      (dynamic dispatch is tied in the equivalence theorems, by recursion on the model's trees).
  R3  A filter's apply may raise: its result type is  res bool.  The only places the translated code uses
      such a result are tail calls (`return self.operator(l, r)`) and all(..) / any(..) over a GENERATOR:
      evaluation in order, stop at the first False / True, an exception ends the evaluation and is the
      result (all_r / any_r, Model/FiltLoop.v).  A property's apply (Duration / Start / End / a field
      accessor on an event that has the field) does not raise.
  R4  FLOAT READING (spec-supplied, the one Model/Expr.v and Props/C18.v already state): the float
      `(event.end - event.start) / self.scale` is read as the exact rational  float_div (end - start) scale
      and float('inf') as +infinity; comparisons of such values with ints are decided by cross-multiplication
      (Model/FiltVal.v: py_cmp, the same arithmetic as eval_cmp / eval_cmpp).  True for |end - start| < 2^53
      when the threshold k*scale is an integer below 2^53 (IEEE division is correctly rounded and monotone,
      and exact when the quotient is an integer); rounding could only matter for non-integer thresholds.
  R5  `op.ge` ... `op.ne`, `op.contains` are library functions: parameters of type VAL -> VAL -> res bool.
      Their model (Model/FiltVal.v: py_cmp_r, py_contains_r) says TypeError where Python raises it (an
      ordered comparison with None, or of a number with a str) and RSkip ("outside the model") for
      comparisons whose Python meaning the value model does not carry (ordering of two strings, == of two
      collections: the model's VSet is unordered, the Python field is a tuple).
  R6  `Operator(a, b, f)`, `Or(a, b)`, `And(a, b)`, `Filtered(s, f)`, `Union(a, b)`, `Intersection(a, b)`,
      `Difference(a, b)`, `Complement(a)` build an object whose attributes are those arguments; for Union /
      Intersection the attribute `sources` is what their __init__ computes (translated: g_union_init_f,
      g_intersection_init_f, a *args parameter being the tuple of the positional arguments).  __init__ of
      Operator / Or / And / Filtered / Difference / Complement (plain attribute stores) are not translated.
  R7  `flattened.extend(xs)` is `flattened += xs` is list concatenation in place; `tuple(l)` / `list(l)` of a
      list is the same sequence.
  R8  set(values) of an iterable of hashables is a set (py_set); `set(prop_val)` raises TypeError exactly
      when prop_val is not iterable (set_of_iterable returns an option); `a & b`, `a.issubset(b)`, `bool(a)`
      on sets are set_inter / set_issubset / set_truthy; `value in a_set` (op.contains) is `some member ==
      value`.  `isinstance(v, (str, bytes, bytearray))` is the parameter is_strlike.
  R9  a local function / a local class's method that is only handed on as a value is the function of its
      parameters and of the variables it captures, each of which is assigned exactly once before the
      closure is created (checked): lambda lifting.  An instance of a local subclass of Property whose only
      member is `apply` is the property whose apply is that method (prop_of_apply).
  R11 `@overload`-decorated stubs of a method followed by one undecorated definition of the same name: the
      last definition is the method (find_function).  `super().__init__()` in Or / And.__init__ (Filter, ABC,
      Generic have no __init__ of their own) does nothing.
  R12 MemoryTimeline, _Buffered and _MergedWithin do not override _is_mask (they use Timeline._is_mask,
      translated as g_is_mask_base); Duration("hours") etc.: the module-level instances and the table SCALES
      are checked literally (file_has) against the reading  scale_of_unit.
  R10 `getattr(event, name)` and `accessor(event)` are the parameters py_getattr / the accessor itself and
      do not raise on the events considered (an event without the field raises AttributeError in Python:
      outside the model, where field_of gives VNone).
"""
from . import pysrc  # noqa: F401

PROPS = "calgebra/properties.py"
CORE = "calgebra/core.py"

# Gen/Source.v additionally imports the combinators all_r / any_r
HEADER_FILT = "From CG Require Import Model.FiltLoop.\n\n"

OPND = "(PROP + VAL)"
OPF = "(VAL -> VAL -> res bool)"
BASE_TYPES = {"PROP": "PROP", "VAL": "VAL", "FILT": "FILT", "TL": "TL", "RB": "(res bool)",
              "OPND": OPND, "OPF": OPF}


def _opnd(param):
    """self.left / self.right of an Operator: PROP + VAL"""
    return dict(param=param, ctors=[("inl", [("p", "PROP")]), ("inr", [("v", "VAL")])],
                exprs={"inl": {"isinstance({x}, Property)": ("true", "B"), "{x}": None},
                       "inr": {"isinstance({x}, Property)": ("false", "B"), "{x}": ("{v}", "VAL")}},
                methods={"inl": {"apply": ("prop_apply {p}", ["IVL"], "VAL")}, "inr": {"apply": None}})


def _prop_cmp(py, opname):
    # Property.__ge__ etc.:  return Operator(self, other, op.ge)
    return dict(name=f"g_prop_{opname}", file=PROPS, cls="Property", func=py, kind="expr", ret="FILT", filt_ext=True,
                tyvars=["PROP", "VAL", "FILT"], types=BASE_TYPES,
                params=[("mk_operator", f"{OPND} -> {OPND} -> {OPF} -> FILT"), (f"op_{opname}", "OPF"),
                        ("self", "PROP"), ("other", "OPND")],
                calls={"Operator": ("mk_operator", ["OPND", "OPND", "OPF"], "FILT")},
                text_exprs={f"op.{opname}": (f"op_{opname}", "OPF")},
                file_has=["import operator as op"],
                injections={("PROP", "OPND"): "(inl {0})"})


# `other` of Filter.__or__ / __and__ and of Timeline.__or__ / __and__: a Timeline or a Filter
def _tf(test_cls):
    is_tl = test_cls == "Timeline"
    return {"TF": dict(coq="(TL + FILT)", ctors=[("inl", [("t", "TL")]), ("inr", [("f", "FILT")])],
                       exprs={"inl": {"isinstance({x}, %s)" % test_cls: ("true" if is_tl else "false", "B"),
                                      "{x}": ("{t}", "TL")},
                              "inr": {"isinstance({x}, %s)" % test_cls: ("false" if is_tl else "true", "B"),
                                      "{x}": ("{f}", "FILT")}})}


TF_INJ = {("TL", "TF"): "(inl {0})", ("FILT", "TF"): "(inr {0})"}

SET_TYPES = dict(BASE_TYPES, SET="SET", ITER="ITER")
NORM_PRE = ["is_strlike", "set_of_iterable"]


def _has(which, lib, inner_extra):
    """has_any / has_all: the outer function and its closure `check` (lambda-lifted, R9); lib = the set
    operations the closure uses (library parameters)"""
    outer = dict(name=f"g_{which}", file=PROPS, func=which, kind="expr", ret="FILT", filt_ext=True,
                 tyvars=["PROP", "VAL", "FILT", "SET", "ITER"], types=SET_TYPES,
                 params=[("mk_operator", f"{OPND} -> {OPND} -> {OPF} -> FILT"), ("py_none", "VAL"),
                         ("py_set", "ITER -> SET"), ("is_strlike", "VAL -> bool"),
                         ("set_of_iterable", "VAL -> option SET")] + lib +
                        [("property", "PROP"), ("values", "ITER")],
                 calls={"Operator": ("mk_operator", ["OPND", "OPND", "OPF"], "FILT"),
                        "set": ("py_set", ["ITER"], "SET")},
                 lifted={"check": dict(coq=f"g_{which}_check", captured=["value_set"],
                                       pre=["is_strlike", "set_of_iterable"] + [n for n, _ in lib], type="OPF")},
                 injections={("PROP", "OPND"): "(inl {0})", ("NONE", "OPND"): "(inr py_none)"})
    inner = dict(name=f"g_{which}_check", file=PROPS, func=which, nested=["check"], captured=["value_set"],
                 kind="expr", res=True, ret="B", filt_ext=True,
                 tyvars=["VAL", "SET"], types=SET_TYPES,
                 params=[("is_strlike", "VAL -> bool"), ("set_of_iterable", "VAL -> option SET")] + lib +
                        [("value_set", "SET"), ("prop_val", "VAL"), ("_", "VAL")],
                 calls={"_normalize_collection": dict(coq="g_normalize_collection", pre=NORM_PRE,
                                                      args=["STRLIT", "VAL"], ret="SET", res=True)})
    for k, v in inner_extra.items():
        d = dict(inner.get(k, {}))
        d.update(v)
        inner[k] = d
    return outer, inner


HAS_ANY, HAS_ANY_CHECK = _has("has_any", [("set_inter", "SET -> SET -> SET"), ("set_truthy", "SET -> bool")],
                              dict(binops={("SET", "&", "SET"): ("set_inter", "SET")},
                                   calls={"bool": ("set_truthy", ["SET"], "B")}))
HAS_ALL, HAS_ALL_CHECK = _has("has_all", [("set_issubset", "SET -> SET -> bool")],
                              dict(methods={("SET", "issubset"): dict(coq="set_issubset", args=["SET"], ret="B")}))

FIELD_ACC = {"ACC": dict(coq="(NAME + (ivl -> VAL))", ctors=[("inl", [("s", "NAME")]), ("inr", [("f", "FN")])],
                         exprs={"inl": {"isinstance({x}, str)": ("true", "B"), "{x}": ("{s}", "NAME")},
                                "inr": {"isinstance({x}, str)": ("false", "B"), "{x}": ("{f}", "FN")}})}

TLT = dict(BASE_TYPES)

SPECS_FILT = [
    # ---------------------------------------------------------------- properties.py
    dict(name="g_operator_apply", file=PROPS, cls="Operator", func="apply", kind="expr", ret="RB", filt_ext=True,
         tyvars=["PROP", "VAL"], types=BASE_TYPES,
         params=[("prop_apply", "PROP -> ivl -> VAL"), ("self_left", "OPND"), ("self_right", "OPND"),
                 ("self_operator", OPF), ("event", "IVL")],
         sumattrs={"self.left": _opnd("self_left"), "self.right": _opnd("self_right")},
         calls={"self.operator": ("self_operator", ["VAL", "VAL"], "RB")}),
    _prop_cmp("__ge__", "ge"), _prop_cmp("__le__", "le"), _prop_cmp("__gt__", "gt"), _prop_cmp("__lt__", "lt"),
    _prop_cmp("__eq__", "eq"), _prop_cmp("__ne__", "ne"),
    # Duration.apply: the float reading R4
    dict(name="g_duration_apply", file=PROPS, cls="Duration", func="apply", kind="expr", ret="FL", filt_ext=True,
         tyvars=["FL"], types={"FL": "FL"},
         params=[("float_inf", "FL"), ("float_div", "Z -> Z -> FL"), ("self_scale", "Z"), ("event", "IVL")],
         selfattrs={"scale": ("self_scale", "Z")},
         text_exprs={"float('inf')": ("float_inf", "FL")},
         binops={("Z", "/.", "Z"): ("float_div", "FL")}),
    # Duration.__init__: self.scale = SCALES[unit]; the module's table SCALES and the four module-level
    # instances are checked literally (file_has), so the reading of SCALES[unit] below is the file's
    dict(name="g_duration_init", file=PROPS, cls="Duration", func="__init__", kind="proc", state=["self_scale"],
         types={"UNIT": "dunit"}, params=[("self_scale", "Z"), ("unit", "UNIT")],
         selfattrs={"scale": ("self_scale", "Z")},
         text_exprs={"SCALES[unit]": ("(match unit_ with USeconds => 1 | UMinutes => 60 | UHours => 3600 "
                                      "| UDays => 86400 end)", "Z")},
         file_has=["SCALES = {'seconds': 1, 'minutes': 60, 'hours': 3600, 'days': 86400}",
                   "days: Duration[Interval] = Duration('days')", "hours: Duration[Interval] = Duration('hours')",
                   "minutes: Duration[Interval] = Duration('minutes')",
                   "seconds: Duration[Interval] = Duration('seconds')",
                   "start: Start = Start()", "end: End = End()"]),
    dict(name="g_start_apply", file=PROPS, cls="Start", func="apply", kind="expr", ret="Z",
         params=[("event", "IVL")]),
    dict(name="g_end_apply", file=PROPS, cls="End", func="apply", kind="expr", ret="Z",
         params=[("event", "IVL")]),
    dict(name="g_normalize_collection", file=PROPS, func="_normalize_collection", kind="expr", res=True, ret="SET",
         filt_ext=True, tyvars=["VAL", "SET"], types=SET_TYPES,
         params=[("is_strlike", "VAL -> bool"), ("set_of_iterable", "VAL -> option SET"), ("prop_val", "VAL")],
         text_exprs={"isinstance(prop_val, (str, bytes, bytearray))": ("(is_strlike prop_val)", "B")},
         calls={"set": dict(coq="set_of_iterable", args=["VAL"], ret="O:SET", raises="TypeError")}),
    dict(name="g_one_of", file=PROPS, func="one_of", kind="expr", ret="FILT", filt_ext=True,
         tyvars=["PROP", "VAL", "FILT", "SET", "ITER"], types=SET_TYPES,
         params=[("mk_operator", f"{OPND} -> {OPND} -> {OPF} -> FILT"), ("op_contains", "OPF"),
                 ("py_set", "ITER -> SET"), ("val_of_set", "SET -> VAL"), ("property", "PROP"), ("values", "ITER")],
         calls={"Operator": ("mk_operator", ["OPND", "OPND", "OPF"], "FILT"), "set": ("py_set", ["ITER"], "SET")},
         text_exprs={"op.contains": ("op_contains", "OPF")}, file_has=["import operator as op"],
         injections={("PROP", "OPND"): "(inl {0})", ("SET", "OPND"): "(inr (val_of_set {0}))"}),
    HAS_ANY_CHECK, HAS_ANY, HAS_ALL_CHECK, HAS_ALL,
    # field(): the accessor is a str or a callable; the two local classes are lifted (R9)
    dict(name="g_field_name_apply", file=PROPS, func="field", nested=["FieldProperty", "apply"],
         captured=["accessor"], class_bases={"FieldProperty": ["Property[Interval]"]},
         kind="expr", ret="VAL", filt_ext=True, tyvars=["VAL", "NAME"], types={"VAL": "VAL", "NAME": "NAME"},
         params=[("py_getattr", "ivl -> NAME -> VAL"), ("accessor", "NAME"), ("event", "IVL")],
         calls={"getattr": ("py_getattr", ["IVL", "NAME"], "VAL")}),
    dict(name="g_field_getter_apply", file=PROPS, func="field", nested=["GetterProperty", "apply"],
         captured=[], captured_callables=["accessor"], class_bases={"GetterProperty": ["Property[Interval]"]},
         kind="expr", ret="VAL", filt_ext=True, tyvars=["VAL"], types={"VAL": "VAL"},
         params=[("accessor", "ivl -> VAL"), ("event", "IVL")],
         calls={"accessor": ("accessor", ["IVL"], "VAL")}),
    dict(name="g_field", file=PROPS, func="field", kind="expr", ret="PROP", filt_ext=True,
         tyvars=["PROP", "VAL", "NAME"], types={"PROP": "PROP", "VAL": "VAL", "NAME": "NAME", "FN": "(ivl -> VAL)"},
         sums=FIELD_ACC,
         params=[("prop_of_apply", "(ivl -> VAL) -> PROP"), ("py_getattr", "ivl -> NAME -> VAL"), ("accessor", "ACC")],
         lifted_classes={"FieldProperty": dict(bases=["Property[Interval]"], captured=["accessor"]),
                         "GetterProperty": dict(bases=["Property[Interval]"], captured=["accessor"])},
         calls={"FieldProperty": dict(coq="prop_of_apply (g_field_name_apply py_getattr accessor_s)", args=[], ret="PROP"),
                "GetterProperty": dict(coq="prop_of_apply (g_field_getter_apply accessor_f)", args=[], ret="PROP")}),
    # ---------------------------------------------------------------- core.py: the Filter classes
    dict(name="g_filter_or", file=CORE, cls="Filter", func="__or__", kind="expr", res=True, ret="FILT", filt_ext=True,
         tyvars=["TL", "FILT"], types=TLT, sums=_tf("Timeline"),
         params=[("mk_or", "FILT -> FILT -> FILT"), ("self", "FILT"), ("other", "TF")],
         calls={"Or": ("mk_or", ["FILT", "FILT"], "FILT")}),
    dict(name="g_filter_and", file=CORE, cls="Filter", func="__and__", kind="expr", ret="TF", filt_ext=True,
         tyvars=["TL", "FILT"], types=TLT, sums=_tf("Timeline"), injections=TF_INJ,
         params=[("mk_filtered", "TL -> FILT -> TL"), ("mk_and", "FILT -> FILT -> FILT"), ("self", "FILT"),
                 ("other", "TF")],
         calls={"Filtered": ("mk_filtered", ["TL", "FILT"], "TL"), "And": ("mk_and", ["FILT", "FILT"], "FILT")}),
    dict(name="g_or_apply", file=CORE, cls="Or", func="apply", kind="expr", ret="RB", filt_ext=True, res_bool="RB",
         tyvars=["FILT"], types=TLT,
         params=[("filter_apply", "FILT -> ivl -> res bool"), ("self_filters", "L:FILT"), ("event", "IVL")],
         selfattrs={"filters": ("self_filters", "L:FILT")},
         methods={("FILT", "apply"): dict(coq="filter_apply", args=["IVL"], ret="RB")}),
    dict(name="g_and_apply", file=CORE, cls="And", func="apply", kind="expr", ret="RB", filt_ext=True, res_bool="RB",
         tyvars=["FILT"], types=TLT,
         params=[("filter_apply", "FILT -> ivl -> res bool"), ("self_filters", "L:FILT"), ("event", "IVL")],
         selfattrs={"filters": ("self_filters", "L:FILT")},
         methods={("FILT", "apply"): dict(coq="filter_apply", args=["IVL"], ret="RB")}),
    # ---------------------------------------------------------------- core.py: operator dispatch of Timeline
    dict(name="g_timeline_or", file=CORE, cls="Timeline", func="__or__", kind="expr", res=True, ret="TL", filt_ext=True,
         tyvars=["TL", "FILT"], types=TLT, sums=_tf("Filter"),
         params=[("mk_union", "TL -> TL -> TL"), ("self", "TL"), ("other", "TF")],
         calls={"Union": ("mk_union", ["TL", "TL"], "TL")}),
    dict(name="g_timeline_and", file=CORE, cls="Timeline", func="__and__", kind="expr", ret="TL", filt_ext=True,
         tyvars=["TL", "FILT"], types=TLT, sums=_tf("Filter"),
         params=[("mk_filtered", "TL -> FILT -> TL"), ("mk_intersection", "TL -> TL -> TL"), ("self", "TL"),
                 ("other", "TF")],
         calls={"Filtered": ("mk_filtered", ["TL", "FILT"], "TL"), "Intersection": ("mk_intersection", ["TL", "TL"], "TL")}),
    dict(name="g_timeline_sub", file=CORE, cls="Timeline", func="__sub__", kind="expr", ret="TL",
         tyvars=["TL"], types={"TL": "TL"},
         params=[("mk_difference", "TL -> TL -> TL"), ("self", "TL"), ("other", "TL")],
         calls={"Difference": ("mk_difference", ["TL", "TL"], "TL")}),
    dict(name="g_timeline_invert", file=CORE, cls="Timeline", func="__invert__", kind="expr", ret="TL",
         tyvars=["TL"], types={"TL": "TL"},
         params=[("mk_complement", "TL -> TL"), ("self", "TL")],
         calls={"Complement": ("mk_complement", ["TL"], "TL")}),
    # _flatten_sources(sources, cls): `isinstance(source, cls)` is the parameter is_cls
    dict(name="g_flatten_sources_f", file=CORE, func="_flatten_sources", kind="expr", ret="L:TL", filt_ext=True,
         tyvars=["TL"], types={"TL": "TL"}, annotations={"list[Timeline[IvlOut]]": "L:TL"},
         params=[("is_cls", "TL -> bool"), ("tl_sources", "TL -> list TL"), ("sources", "L:TL")],
         attrs={("TL", "sources"): ("tl_sources", "L:TL")},
         extend_as_iadd=["flattened"], binops={("L:TL", "+", "L:TL"): ("app", "L:TL")},
         text_exprs={"isinstance(source, cls)": ("(is_cls source)", "B"), "tuple(flattened)": ("flattened", "L:TL")}),
    # Union.__init__ / Intersection.__init__: the attribute `sources` they store (state variable)
    dict(name="g_union_init_f", file=CORE, cls="Union", func="__init__", kind="proc", filt_ext=True, star_param="sources",
         tyvars=["TL"], types={"TL": "TL"}, annotations={"tuple[Timeline[IvlOut], ...]": "L:TL"},
         params=[("is_union", "TL -> bool"), ("tl_sources", "TL -> list TL"), ("self_sources", "L:TL"),
                 ("sources", "L:TL")],
         state=["self_sources"], selfattrs={"sources": ("self_sources", "L:TL")},
         text_exprs={"_flatten_sources(sources, Union)": ("(g_flatten_sources_f is_union tl_sources sources)", "L:TL")}),
    dict(name="g_intersection_init_f", file=CORE, cls="Intersection", func="__init__", kind="proc", filt_ext=True,
         star_param="sources", tyvars=["TL"], types={"TL": "TL"},
         annotations={"tuple[Timeline[IvlOut], ...]": "L:TL"},
         params=[("is_intersection", "TL -> bool"), ("tl_sources", "TL -> list TL"), ("self_sources", "L:TL"),
                 ("sources", "L:TL")],
         state=["self_sources"], selfattrs={"sources": ("self_sources", "L:TL")},
         text_exprs={"_flatten_sources(sources, Intersection)":
                     ("(g_flatten_sources_f is_intersection tl_sources sources)", "L:TL")}),
    # the constructors that only store their arguments: the attributes they store (state variables, R6)
    dict(name="g_operator_init", file=PROPS, cls="Operator", func="__init__", kind="proc",
         tyvars=["PROP", "VAL"], types=BASE_TYPES,
         annotations={"'Property[IvlIn] | Any'": "OPND", "Callable[[Any, Any], bool]": "OPF"},
         params=[("self_left", "OPND"), ("self_right", "OPND"), ("self_operator", "OPF"),
                 ("left", "OPND"), ("right", "OPND"), ("operator", "OPF")],
         state=["self_left", "self_right", "self_operator"],
         selfattrs={"left": ("self_left", "OPND"), "right": ("self_right", "OPND"),
                    "operator": ("self_operator", "OPF")}),
    dict(name="g_or_init", file=CORE, cls="Or", func="__init__", kind="proc", filt_ext=True, star_param="filters",
         tyvars=["FILT"], types=TLT, annotations={"tuple[Filter[IvlIn], ...]": "L:FILT"},
         params=[("self_filters", "L:FILT"), ("filters", "L:FILT")], state=["self_filters"],
         selfattrs={"filters": ("self_filters", "L:FILT")},
         effects={"super().__init__": dict(var=None, args=[])}),
    dict(name="g_and_init", file=CORE, cls="And", func="__init__", kind="proc", filt_ext=True, star_param="filters",
         tyvars=["FILT"], types=TLT, annotations={"tuple[Filter[IvlIn], ...]": "L:FILT"},
         params=[("self_filters", "L:FILT"), ("filters", "L:FILT")], state=["self_filters"],
         selfattrs={"filters": ("self_filters", "L:FILT")},
         effects={"super().__init__": dict(var=None, args=[])}),
    dict(name="g_filtered_init_f", file=CORE, cls="Filtered", func="__init__", kind="proc",
         tyvars=["TL", "FILT"], types=TLT, annotations={"Timeline[IvlOut]": "TL", "Filter[IvlOut]": "FILT"},
         params=[("self_source", "TL"), ("self_filter", "FILT"), ("source", "TL"), ("filter", "FILT")],
         state=["self_source", "self_filter"],
         selfattrs={"source": ("self_source", "TL"), "filter": ("self_filter", "FILT")}),
    dict(name="g_difference_init_f", file=CORE, cls="Difference", func="__init__", kind="proc", filt_ext=True,
         star_param="subtractors", tyvars=["TL"], types={"TL": "TL"},
         annotations={"Timeline[IvlOut]": "TL", "tuple[Timeline[Any], ...]": "L:TL"},
         params=[("self_source", "TL"), ("self_subtractors", "L:TL"), ("source", "TL"), ("subtractors", "L:TL")],
         state=["self_source", "self_subtractors"],
         selfattrs={"source": ("self_source", "TL"), "subtractors": ("self_subtractors", "L:TL")}),
    dict(name="g_complement_init_f", file=CORE, cls="Complement", func="__init__", kind="proc",
         tyvars=["TL"], types={"TL": "TL"}, annotations={"Timeline[Any]": "TL"},
         params=[("self_source", "TL"), ("source", "TL")], state=["self_source"],
         selfattrs={"source": ("self_source", "TL")}),
    # _is_mask of every node class of core.py
    dict(name="g_is_mask_base", file=CORE, cls="Timeline", func="_is_mask", kind="expr", ret="B", params=[]),
    dict(name="g_is_mask_solid", file=CORE, cls="_SolidTimeline", func="_is_mask", kind="expr", ret="B", params=[]),
    dict(name="g_is_mask_union", file=CORE, cls="Union", func="_is_mask", kind="expr", ret="B",
         tyvars=["TL"], types={"TL": "TL"},
         params=[("tl_is_mask", "TL -> bool"), ("self_sources", "L:TL")],
         selfattrs={"sources": ("self_sources", "L:TL")}, attrs={("TL", "_is_mask"): ("tl_is_mask", "B")}),
    dict(name="g_is_mask_intersection", file=CORE, cls="Intersection", func="_is_mask", kind="expr", ret="B",
         tyvars=["TL"], types={"TL": "TL"},
         params=[("tl_is_mask", "TL -> bool"), ("self_sources", "L:TL")],
         selfattrs={"sources": ("self_sources", "L:TL")}, attrs={("TL", "_is_mask"): ("tl_is_mask", "B")}),
    dict(name="g_is_mask_filtered", file=CORE, cls="Filtered", func="_is_mask", kind="expr", ret="B",
         tyvars=["TL"], types={"TL": "TL"},
         params=[("tl_is_mask", "TL -> bool"), ("self_source", "TL")],
         selfattrs={"source": ("self_source", "TL")}, attrs={("TL", "_is_mask"): ("tl_is_mask", "B")}),
    dict(name="g_is_mask_difference", file=CORE, cls="Difference", func="_is_mask", kind="expr", ret="B",
         tyvars=["TL"], types={"TL": "TL"},
         params=[("tl_is_mask", "TL -> bool"), ("self_source", "TL")],
         selfattrs={"source": ("self_source", "TL")}, attrs={("TL", "_is_mask"): ("tl_is_mask", "B")}),
    dict(name="g_is_mask_complement", file=CORE, cls="Complement", func="_is_mask", kind="expr", ret="B", params=[]),
]
