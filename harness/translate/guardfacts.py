"""Tie B for C20: extract from the SOURCE of calgebra/gcsa.py (ast) where every backend call of class
Calendar sits with respect to exception handling, and emit coq/Gen/GuardFacts.v.  Fail-closed: any
construct the extractor does not understand raises, which breaks the proof obligation.

Per method of Calendar:
  decorated   carries @_handle_write_errors
  entry       overrides one of the write hooks of MutableTimeline (_add_*/_remove_* of
              calgebra/mutable/__init__.py), i.e. is reached directly from add()/remove()/remove_series()
  backend     every call through the client (an expression rooted at self.calendar that is called),
              or on a local holding an object obtained from the client: batch.add, batch.execute),
              with guarded = lexically inside the BODY of a `try` one of whose handlers catches
              Exception / BaseException / everything
  self calls  every self.<method>(...) call and every read of a property of the class, with the
              same guarded flag
and for the module: whether _handle_write_errors wraps the call of the decorated function in
try/except Exception and returns a value from the handler."""
from __future__ import annotations

import ast
from pathlib import Path

DECORATOR = "_handle_write_errors"
CLIENT = "calendar"
CATCH_ALL = {"Exception", "BaseException"}


class Unsupported(Exception):
    pass


def _handler_catches_all(h: ast.ExceptHandler) -> bool:
    if h.type is None:
        return True
    types = h.type.elts if isinstance(h.type, ast.Tuple) else [h.type]
    return any(isinstance(t, ast.Name) and t.id in CATCH_ALL for t in types)


def _handler_contains_raise(h: ast.ExceptHandler) -> bool:
    return any(isinstance(n, ast.Raise) for n in ast.walk(h))


def _root_is_client(node) -> bool:
    """is the expression an attribute chain / call chain rooted at self.calendar ?"""
    while True:
        if isinstance(node, ast.Attribute):
            if (isinstance(node.value, ast.Name) and node.value.id == "self" and node.attr == CLIENT):
                return True
            node = node.value
        elif isinstance(node, ast.Call):
            node = node.func
        else:
            return False


def _chain_name(node) -> str:
    parts = []
    while True:
        if isinstance(node, ast.Attribute):
            parts.append(node.attr)
            node = node.value
        elif isinstance(node, ast.Call):
            node = node.func
        else:
            break
    return ".".join(reversed(parts))


def decorator_catches(tree) -> bool:
    fn = next((n for n in tree.body if isinstance(n, ast.FunctionDef) and n.name == DECORATOR), None)
    if fn is None:
        raise Unsupported(f"function {DECORATOR} not found")
    arg = fn.args.args[0].arg
    inner = [n for n in fn.body if isinstance(n, ast.FunctionDef)]
    if len(inner) != 1:
        raise Unsupported("unexpected shape of the decorator")
    w = inner[0]
    body = [s for s in w.body if not (isinstance(s, ast.Expr) and isinstance(s.value, ast.Constant))]
    if len(body) != 1 or not isinstance(body[0], ast.Try):
        return False
    t = body[0]
    calls_func = any(isinstance(n, ast.Call) and isinstance(n.func, ast.Name) and n.func.id == arg
                     for s in t.body for n in ast.walk(s))
    all_calls_inside = not any(isinstance(n, ast.Call) and isinstance(n.func, ast.Name) and n.func.id == arg
                               for part in (t.handlers, t.orelse, t.finalbody) for s in part for n in ast.walk(s))
    ok_handlers = [h for h in t.handlers if _handler_catches_all(h)]
    returns = bool(ok_handlers) and all(
        not _handler_contains_raise(h) and any(isinstance(n, ast.Return) and n.value is not None for n in ast.walk(h))
        for h in ok_handlers)
    returns_wrapper = any(isinstance(s, ast.Return) and isinstance(s.value, ast.Name) and s.value.id == w.name
                          for s in fn.body)
    return calls_func and all_calls_inside and returns and returns_wrapper


def write_hooks(mutable_py: Path):
    tree = ast.parse(mutable_py.read_text())
    cls = next((n for n in tree.body if isinstance(n, ast.ClassDef) and n.name == "MutableTimeline"), None)
    if cls is None:
        raise Unsupported("class MutableTimeline not found")
    hooks = {m.name for m in cls.body if isinstance(m, ast.FunctionDef)
             and (m.name.startswith("_add") or m.name.startswith("_remove"))}
    public = {m.name for m in cls.body if isinstance(m, ast.FunctionDef) and not m.name.startswith("_")}
    if not {"add", "remove", "remove_series"} <= public:
        raise Unsupported("MutableTimeline lost one of add/remove/remove_series")
    # the dispatchers and default loops of the base class must not handle exceptions themselves
    for m in cls.body:
        if isinstance(m, ast.FunctionDef) and any(isinstance(n, ast.Try) for n in ast.walk(m)):
            raise Unsupported(f"MutableTimeline.{m.name} contains a try statement")
    return hooks


def extract(repo: Path):
    tree = ast.parse((repo / "calgebra" / "gcsa.py").read_text())
    hooks = write_hooks(repo / "calgebra" / "mutable" / "__init__.py")
    cls = next((n for n in tree.body if isinstance(n, ast.ClassDef) and n.name == "Calendar"), None)
    if cls is None:
        raise Unsupported("class Calendar not found")
    if not any((isinstance(b, ast.Subscript) and isinstance(b.value, ast.Name) and b.value.id == "MutableTimeline")
               or (isinstance(b, ast.Name) and b.id == "MutableTimeline") for b in cls.bases):
        raise Unsupported("Calendar does not derive from MutableTimeline")
    methods = [n for n in cls.body if isinstance(n, (ast.FunctionDef, ast.AsyncFunctionDef))]
    if any(isinstance(n, ast.AsyncFunctionDef) for n in methods):
        raise Unsupported("async method")
    names = {m.name for m in methods}
    props = {m.name for m in methods
             if any(isinstance(d, ast.Name) and d.id == "property" for d in m.decorator_list)}
    # the client attribute is assigned in __init__ only
    for m in methods:
        for n in ast.walk(m):
            tg = n.targets if isinstance(n, ast.Assign) else [n.target] if isinstance(n, (ast.AnnAssign, ast.AugAssign)) else []
            for t in tg:
                if (isinstance(t, ast.Attribute) and isinstance(t.value, ast.Name) and t.value.id == "self"
                        and t.attr == CLIENT and m.name != "__init__"):
                    raise Unsupported(f"self.{CLIENT} reassigned in {m.name}")
    facts = []
    for m in methods:
        if m.name == "__init__":
            continue
        decos = []
        for d in m.decorator_list:
            if isinstance(d, ast.Name):
                decos.append(d.id)
            elif isinstance(d, ast.Attribute):
                decos.append(d.attr)
            else:
                raise Unsupported(f"decorator expression on {m.name}")
        unknown = set(decos) - {"override", "property", DECORATOR}
        if unknown:
            raise Unsupported(f"unknown decorator {unknown} on {m.name}")
        if DECORATOR in decos and decos[-1] != DECORATOR and "property" in decos:
            raise Unsupported(f"decorated property {m.name}")
        calls, selfcalls = [], []
        # objects obtained from the client and kept in a local (batch, request, ...): calls on them
        # are backend calls as well
        tainted = set()
        for n in ast.walk(m):
            if isinstance(n, ast.Assign) and _root_is_client(n.value):
                for t in n.targets:
                    if isinstance(t, ast.Name):
                        tainted.add(t.id)
                    else:
                        raise Unsupported(f"client object stored in a non-local in {m.name}")

        def root_name(node):
            while True:
                if isinstance(node, ast.Attribute):
                    node = node.value
                elif isinstance(node, ast.Call):
                    node = node.func
                else:
                    return node.id if isinstance(node, ast.Name) else None

        def visit(node, guarded, in_nested):
            if isinstance(node, (ast.FunctionDef, ast.Lambda, ast.AsyncFunctionDef)) and node is not m:
                # a nested function runs whenever someone calls it: it must not touch the backend
                for ch in ast.walk(node):
                    if ch is not node and (_root_is_client(ch) and isinstance(ch, ast.Call)):
                        raise Unsupported(f"backend call inside a nested function of {m.name}")
                    if (isinstance(ch, ast.Attribute) and isinstance(ch.value, ast.Name) and ch.value.id == "self"
                            and ch.attr in names):
                        raise Unsupported(f"method/property use inside a nested function of {m.name}")
                return
            if isinstance(node, ast.Try):
                g = guarded or any(_handler_catches_all(h) and not _handler_contains_raise(h) for h in node.handlers)
                for s in node.body:
                    visit(s, g, in_nested)
                for part in (node.handlers, node.orelse, node.finalbody):
                    for s in part:
                        visit(s, guarded, in_nested)
                return
            if isinstance(node, (ast.With, ast.AsyncWith)):
                raise Unsupported(f"with statement in {m.name}")
            if isinstance(node, ast.Call) and _root_is_client(node):
                calls.append((_chain_name(node), guarded))
            elif (isinstance(node, ast.Call) and isinstance(node.func, ast.Attribute)
                  and root_name(node) in tainted):
                calls.append((root_name(node) + "." + _chain_name(node), guarded))
            if (isinstance(node, ast.Attribute) and isinstance(node.value, ast.Name) and node.value.id == "self"
                    and node.attr in names):
                # a method call self.m(...) or the read of a property (which runs its body)
                selfcalls.append((node.attr, guarded))
            for ch in ast.iter_child_nodes(node):
                visit(ch, guarded, in_nested)

        for stmt in m.body:
            visit(stmt, False, False)
        facts.append(dict(name=m.name, entry=m.name in hooks, decorated=DECORATOR in decos,
                          calls=calls, selfcalls=selfcalls))
    return dict(decorator_catches=decorator_catches(tree), methods=facts, hooks=sorted(hooks))


def to_coq(f):
    def b(x):
        return "true" if x else "false"
    rows = []
    for m in f["methods"]:
        bc = "[" + "; ".join(f'mkBC "{n}" {b(g)}' for n, g in m["calls"]) + "]"
        sc = "[" + "; ".join(f'mkSC "{n}" {b(g)}' for n, g in m["selfcalls"]) + "]"
        rows.append(f'    mkGM "{m["name"]}" {b(m["entry"])} {b(m["decorated"])} {bc} {sc}')
    return ("(* GENERATED on every run by harness/translate/guardfacts.py from calgebra/gcsa.py — do not edit. *)\n"
            "From CG Require Import Spec.GuardDiscipline.\n\n"
            "Definition facts : gfacts :=\n"
            f"  mkGF {b(f['decorator_catches'])} [\n" + ";\n".join(rows) + "\n  ].\n")


def regenerate(repo: Path, coq_dir: Path):
    """Rewrite Gen/GuardFacts.v if its content changed.  Returns (facts or None, error or None)."""
    out = coq_dir / "Gen" / "GuardFacts.v"
    try:
        f = extract(repo)
        text = to_coq(f)
        err = None
    except (Unsupported, SyntaxError, OSError, IndexError) as ex:
        f = None
        err = f"{type(ex).__name__}: {ex}"
        text = ("(* GENERATED: the extractor could not process calgebra/gcsa.py: " + err.replace("*)", "* )") + " *)\n"
                "From CG Require Import Spec.GuardDiscipline.\n"
                "Definition facts : gfacts := mkGF false [].\n")
    if not out.exists() or out.read_text() != text:
        out.write_text(text)
    return f, err
