"""Tie C, third extension (tag ical): the functions of calgebra/ical.py that are translated, with the typing
information Python does not state.  The translator extension they need is pysrc_ical.py (imported here; it acts
only on specs carrying ical_ext) on top of pysrc_gcsa.py (gx=True: patterns with typed holes, Optionals of
declared types, truthy types).

Every generated definition is PARAMETRIC in the icalendar / datetime objects it touches: they are abstract types
(tyvars) and the library operations on them are function parameters.  coq/Model/IcalSrc.v gives the library
model these parameters are instantiated with (a date / date-time value is the `dtval` of Model/Ical.v, a
timedelta a number of seconds, a VEVENT the record `rawve`), and Proofs/GenEq_ical.v proves each instance equal
to the hand-written function of Model/Ical.v; the instantiation is visible in every theorem statement.

TRUSTED readings (what the equivalence theorems take for granted about Python, icalendar and datetime):
  I1  A DATE / DATE-TIME value (`prop.dt`, what `_dt_to_timestamp` receives) is ONE abstract type DV;
      `isinstance(x, datetime)` is the parameter dv_is_datetime (a date that is not a datetime is the only other
      case: the values icalendar hands out), `int(x.timestamp())` is dv_timestamp,
      `datetime.combine(d, datetime.min.time(), tzinfo=timezone.utc)` is dv_midnight_utc,
      `datetime.combine(d, datetime.min.time())` is dv_midnight_naive, `x + td` is dv_add, `x.replace(tzinfo=None)`
      is dv_naive, `a - b` of two naive datetimes is dv_sub, `a.tzinfo is b.tzinfo` is dv_same_tzinfo,
      `x.date()` dv_date, `x.hour / .minute / .second` dv_hour / dv_minute / dv_second, `datetime(y, m, d)`
      dv_ymd; `==` on dates is date_eqb.  All total and side-effect free.
      Instantiation (Model/IcalSrc.v): DV = dtval (DDate day | DUtc instant | DTz zone wall | DFloat wall);
      int(x.timestamp()) = ts_of for a date-time (TZID wall clock read with fold 0, a floating time read in the
      process's zone = UTC in the harness); date + timedelta moves by td.days, a date-time moves on its own wall
      clock (PEP 495: aware arithmetic is wall-clock arithmetic);  a.tzinfo is b.tzinfo iff both are UTC, both
      floating, or both carry the same zone (zoneinfo hands out one object per key; icalendar one UTC object).
  I2  A timedelta is an abstract type TD: timedelta(days=n) / timedelta(n) td_of_days, timedelta(seconds=n)
      td_of_seconds, td.days / td.seconds td_days / td_seconds, `a - b` td_sub, `a >= b` td_geb,
      `int(td.total_seconds())` td_total_seconds.  Instantiation: a whole number s of seconds (icalendar's
      DURATION values and everything built here are whole seconds); days = floor(s / 86400), seconds = s mod 86400
      (timedelta normalises to 0 <= seconds < 86400).
  I3  `component.get("DTSTART")` / "DTEND" / "DURATION" are the parameters ve_get_dtstart / ve_get_dtend /
      ve_get_duration (an absent property is None; the key literals are part of the patterns); a property object
      is always truthy (icalendar's vDDDTypes / vDuration define neither __bool__ nor __len__), so `if prop` /
      `if not prop` test presence; `prop.dt` is dp_dt (a DV) for DTSTART / DTEND and up_dt (a TD) for DURATION.
  I4  Slices (pysrc_ical.py): a run of consecutive top-level statements of a function, with the variables bound
      before it as parameters and the tuple of the listed variables as result, is a function; the data flow in
      and out of the slice is checked on the source at every run.  A bare annotation `x: T` has no run-time effect.
  I5  `freq` inside _parse_vevent / `rp.freq` is one of the four strings daily / weekly / monthly / yearly (what
      _ICAL_FREQ_MAP / RecurringPattern hold): the enumeration `freq` of Model/Recur.v.
  I6  The value handed to RecurringPattern as `start` (pattern_start: a datetime or an int) is the sum
      `pstart DV` of Model/IcalSrc.v (PsDt d | PsInt n), injected at the slice's return.
  I7  (_interval_to_vevent)  `isinstance(item, RecurringPattern)` is the parameter item_is_pattern;
      `cast(T, x)` is x (typing.cast returns its argument);  the pattern's attributes (zone, anchor_timestamp,
      start_seconds, duration_seconds, freq, exdates, metadata) and the interval's (start, end) are parameters;
      `rp.zone or timezone.utc`: a tzinfo object is truthy, so this is the zone, or UTC when it is None;
      `_anchor_wall_clock(a, s, z)` (calgebra/recurrence.py) is the parameter anchor_wall_clock (instantiated with
      the model's own_wall as a stamped value);  `bool(meta.get("is_all_day"))`, `meta.get("is_all_day", False) or
      getattr(ivl, "is_all_day", False)` are md_is_all_day / ivl_is_all_day;  `str(zone) == "UTC"` is
      zone_is_utc;  `vRecur.from_ical(rp.to_rrule_string())` is the parameter rp_vrecur;  `vars(ivl)` is
      ivl_vars (the interval's fields as the metadata mapping);  `meta.get(k)` for the four text keys is md_text k;
      `Event()` is the empty property collection and `event.add(key, v)` appends the property (parameters
      ev_add_*; the key literal picks the parameter);  datetime.fromtimestamp(t, tz=z) is dv_fromtimestamp.
  I8  (tz, EXDATE)  `x.tzinfo` of a date-time is dv_tzinfo (an Optional of the truthy type TZ); `str(x.tzinfo)` is
      the zone's name (tz_name; the text "None" for None: tzname_of_none) and never raises, so the `try: .. except
      Exception: pass` around it is transparent;  `"EXDATE" in component` / `component.get("EXDATE")` are
      ve_has_exdate / ve_get_exdate, the latter one property or a list of properties (sum exv: isinstance(x, list));
      `getattr(prop, "dts", ())` is exp_dts (the values of the property, () when it has none), `value.dt` exval_dt;
      `for v in E: L.append(X)` directly inside another `for` is L.extend([X for v in E]).
  I9  `rp.exdates` (a frozenset) is iterated in the order of the model's exdate list (pysrc's FS reading: ascending).
Not translated: the metadata texts / categories, the vRecur key extraction, create_event / the RecurringPattern(..)
call at the end of _parse_vevent, file_to_timeline, timeline_to_file.
"""
from . import pysrc_gcsa  # noqa: F401  (installs the gx extension on pysrc.Tr)
from . import pysrc_ical  # noqa: F401  (installs the ical extension on top of it)

ICAL = "calgebra/ical.py"
DT_IMPORT = "from datetime import date, datetime, timedelta, timezone"

FREQ = {"FREQ": ("freq_eqb", {"daily": "Daily", "weekly": "Weekly", "monthly": "Monthly", "yearly": "Yearly"})}

# _dt_to_timestamp and what it needs (I1)
TS_PARAMS = [("dv_is_datetime", "DV -> bool"), ("dv_timestamp", "DV -> Z"), ("dv_midnight_utc", "DV -> DV")]
TS_PATTERNS = [("isinstance(_1, datetime)", "(dv_is_datetime {0})", ["DV"], "B"),
               ("int(_1.timestamp())", "(dv_timestamp {0})", ["DV"], "Z"),
               ("datetime.combine(_1, datetime.min.time(), tzinfo=timezone.utc)", "(dv_midnight_utc {0})", ["DV"], "DV")]
TS_CALL = {"_dt_to_timestamp": dict(coq="g_ical_dt_to_timestamp", pre=[n for n, _ in TS_PARAMS], args=["DV"], ret="Z")}

PB_PARAMS = [("dv_ymd", "Z -> Z -> Z -> DV")]
PB_CALL = {"_phase_base": dict(coq="g_ical_phase_base", pre=["dv_ymd"], args=["FREQ"], ret="DV")}

# the time logic of _parse_vevent (I1 - I4)
TIMES_PARAMS = [("ve_get_dtstart", "VE -> option DP"), ("ve_get_dtend", "VE -> option DP"),
                ("ve_get_duration", "VE -> option UP"), ("dp_dt", "DP -> DV"), ("up_dt", "UP -> TD")] + TS_PARAMS + \
               [("dv_add", "DV -> TD -> DV"), ("td_of_days", "Z -> TD"), ("dv_same_tzinfo", "DV -> DV -> bool"),
                ("dv_naive", "DV -> DV"), ("dv_sub", "DV -> DV -> TD"), ("td_days", "TD -> Z"), ("td_seconds", "TD -> Z"),
                ("td_geb", "TD -> TD -> bool"), ("td_sub", "TD -> TD -> TD"), ("td_total_seconds", "TD -> Z")]
TIMES_TYVARS = ["VE", "DP", "UP", "DV", "TD"]

START_PARAMS = [("dv_is_datetime", "DV -> bool"), ("dv_midnight_naive", "DV -> DV"), ("dv_date", "DV -> DATE"),
                ("date_eqb", "DATE -> DATE -> bool"), ("dv_hour", "DV -> Z"), ("dv_minute", "DV -> Z"),
                ("dv_second", "DV -> Z")] + PB_PARAMS

SPECS_ICAL = [
    # ---- _dt_to_timestamp (I1)
    dict(name="g_ical_dt_to_timestamp", file=ICAL, func="_dt_to_timestamp", kind="expr", ret="Z", gx=True,
         file_has=[DT_IMPORT], tyvars=["DV"], types={"DV": "DV"},
         params=TS_PARAMS + [("dt", "DV")], patterns=TS_PATTERNS),
    # ---- _phase_base (I1, I5)
    dict(name="g_ical_phase_base", file=ICAL, func="_phase_base", kind="expr", ret="DV", gx=True,
         file_has=[DT_IMPORT], tyvars=["DV"], types={"DV": "DV", "FREQ": "freq"}, enums=FREQ,
         params=PB_PARAMS + [("freq", "FREQ")],
         calls={"datetime": dict(coq="dv_ymd", args=["Z", "Z", "Z"], ret="DV")}),
    # ---- _parse_vevent, the time logic: from the three component.get(..) of the times to the RFC 5545 3.3.6
    # end of a single event.  Result: (start_dt, is_all_day, start_ts, end_ts, duration_seconds)
    dict(name="g_ical_parse_times", file=ICAL, func="_parse_vevent", kind="expr", res=True, ret="TIMES", gx=True,
         file_has=[DT_IMPORT], tyvars=TIMES_TYVARS,
         types=dict({k: k for k in TIMES_TYVARS}, TIMES="(DV * bool * Z * Z * Z)"),
         tuples={"TIMES": ["DV", "B", "Z", "Z", "Z"]}, truthy=["DP", "UP"],
         params=TIMES_PARAMS + [("component", "VE")],
         patterns=TS_PATTERNS + [
             ("_1.get('DTSTART')", "(ve_get_dtstart {0})", ["VE"], "O:DP"),
             ("_1.get('DTEND')", "(ve_get_dtend {0})", ["VE"], "O:DP"),
             ("_1.get('DURATION')", "(ve_get_duration {0})", ["VE"], "O:UP"),
             ("_1.tzinfo is _2.tzinfo", "(dv_same_tzinfo {0} {1})", ["DV", "DV"], "B"),
             ("_1.replace(tzinfo=None)", "(dv_naive {0})", ["DV"], "DV"),
             ("int(_1.total_seconds())", "(td_total_seconds {0})", ["TD"], "Z")],
         calls=dict(TS_CALL, timedelta=[dict(coq="td_of_days", args=[], kw=[("days", "Z")], ret="TD"),
                                        dict(coq="td_of_days", args=["Z"], ret="TD")]),
         attrs={("DP", "dt"): ("dp_dt", "DV"), ("UP", "dt"): ("up_dt", "TD"),
                ("TD", "days"): ("td_days", "Z"), ("TD", "seconds"): ("td_seconds", "Z")},
         binops={("DV", "+", "TD"): ("dv_add", "DV"), ("DV", "-", "DV"): ("dv_sub", "TD"),
                 ("TD", "-", "TD"): ("td_sub", "TD")},
         cmpops={("TD", ">=", "TD"): "td_geb"},
         ical_ext=dict(and_split=True,
                       slice=dict(first="dtstart_prop = component.get('DTSTART')",
                                  last="if duration_prop and (not dtend_prop) and isinstance(start_dt, datetime):",
                                  inputs=["component"],
                                  outs=["start_dt", "is_all_day", "start_ts", "end_ts", "duration_seconds"]))),
    # ---- _parse_vevent, the start handed to RecurringPattern: a time of day (an int) when DTSTART falls on the
    # date time-of-day patterns are aligned to, else the datetime itself (an anchor)  (I6)
    dict(name="g_ical_parse_start", file=ICAL, func="_parse_vevent", kind="expr", ret="PSTART", gx=True,
         file_has=[DT_IMPORT], tyvars=["DV", "DATE"],
         types={"DV": "DV", "DATE": "DATE", "FREQ": "freq", "PSTART": "(pstart DV)"}, enums=FREQ,
         injections={("DV", "PSTART"): "(PsDt {})", ("Z", "PSTART"): "(PsInt {})"},
         params=START_PARAMS + [("start_dt", "DV"), ("freq", "FREQ")],
         patterns=[("isinstance(_1, datetime)", "(dv_is_datetime {0})", ["DV"], "B"),
                   ("datetime.combine(_1, datetime.min.time())", "(dv_midnight_naive {0})", ["DV"], "DV")],
         calls=PB_CALL,
         methods={("DV", "date"): dict(coq="dv_date", args=[], ret="DATE")},
         attrs={("DV", "hour"): ("dv_hour", "Z"), ("DV", "minute"): ("dv_minute", "Z"), ("DV", "second"): ("dv_second", "Z")},
         cmpops={("DATE", "==", "DATE"): "date_eqb"},
         ical_ext=dict(skip_bare_annotations=True, nojoin=["pattern_start.date() == _phase_base(freq).date()"],
                       slice=dict(first="pattern_start: datetime | int", last="if pattern_start.date() == _phase_base(freq).date():",
                                  inputs=["start_dt", "freq"], outs=["pattern_start"]))),
]

# ---- _parse_vevent, the tz handed to RecurringPattern and the EXDATE collection
EXV_SUM = {"EXV": dict(
    coq="(exv EXP)", ctors=[("ExOne", [("p", "EXP")]), ("ExList", [("l", "L:EXP")])],
    exprs={"ExOne": {"isinstance({x}, list)": ("false", "B"), "{x}": ("{p}", "EXP")},
           "ExList": {"isinstance({x}, list)": ("true", "B"), "{x}": ("{l}", "L:EXP")}})}

SPECS_ICAL += [
    dict(name="g_ical_parse_tz", file=ICAL, func="_parse_vevent", kind="expr", res=True, ret="O:TZNAME", gx=True,
         file_has=[DT_IMPORT], tyvars=["DV", "TZ", "TZNAME"], types={"DV": "DV", "TZ": "TZ", "TZNAME": "TZNAME"},
         truthy=["TZ"], locals={"tz": "O:TZNAME"},
         params=[("dv_is_datetime", "DV -> bool"), ("dv_tzinfo", "DV -> option TZ"), ("tz_name", "TZ -> TZNAME"),
                 ("tzname_of_none", "TZNAME"), ("start_dt", "DV")],
         patterns=[("isinstance(_1, datetime)", "(dv_is_datetime {0})", ["DV"], "B"),
                   ("str(_1.tzinfo)", "(match dv_tzinfo {0} with Some z_ => tz_name z_ | None => tzname_of_none end)",
                    ["DV"], "TZNAME")],
         attrs={("DV", "tzinfo"): ("dv_tzinfo", "O:TZ")},
         ical_ext=dict(total_try=["tz = str(start_dt.tzinfo)"],
                       slice=dict(first="tz = None", last="if isinstance(start_dt, datetime) and start_dt.tzinfo:",
                                  inputs=["start_dt"], outs=["tz"]))),
    dict(name="g_ical_parse_exdates", file=ICAL, func="_parse_vevent", kind="expr", ret="L:Z", gx=True,
         file_has=[DT_IMPORT], tyvars=["VE", "EXP", "EXVAL", "DV"],
         types={"VE": "VE", "EXP": "EXP", "EXVAL": "EXVAL", "DV": "DV"}, sums=EXV_SUM, locals={"exdates": "L:Z"},
         params=[("ve_has_exdate", "VE -> bool"), ("ve_get_exdate", "VE -> exv EXP"), ("exp_dts", "EXP -> list EXVAL"),
                 ("exval_dt", "EXVAL -> DV")] + TS_PARAMS + [("component", "VE")],
         patterns=TS_PATTERNS + [("'EXDATE' in _1", "(ve_has_exdate {0})", ["VE"], "B"),
                                 ("_1.get('EXDATE')", "(ve_get_exdate {0})", ["VE"], "EXV"),
                                 ("getattr(_1, 'dts', ())", "(exp_dts {0})", ["EXP"], "L:EXVAL")],
         attrs={("EXVAL", "dt"): ("exval_dt", "DV")}, calls=TS_CALL,
         ical_ext=dict(append_loops=True, slice=dict(first="exdates = []", last="if 'EXDATE' in component:",
                                  inputs=["component"], outs=["exdates"]))),
]

# ---- _interval_to_vevent (I7): the whole function
ITV_TYVARS = ["ITEM", "RP", "IVLX", "MD", "ZN", "DV", "TD", "STR", "VR", "TXT", "EV"]
ITV_PARAMS = [("item_is_pattern", "ITEM -> bool"), ("item_as_pattern", "ITEM -> RP"), ("item_as_interval", "ITEM -> IVLX"),
              ("rp_metadata", "RP -> MD"), ("rp_zone_or_utc", "RP -> ZN"), ("rp_anchor_timestamp", "RP -> option Z"),
              ("rp_start_seconds", "RP -> Z"), ("rp_duration_seconds", "RP -> Z"), ("rp_freq", "RP -> freq"),
              ("rp_exdates", "RP -> list Z"), ("rp_rrule_string", "RP -> STR"), ("vrecur_from_ical", "STR -> res VR"),
              ("anchor_wall_clock", "Z -> Z -> ZN -> DV"), ("dv_ymd", "Z -> Z -> Z -> DV"),
              ("dv_with_zone", "DV -> ZN -> DV"), ("dv_add", "DV -> TD -> DV"), ("td_of_seconds", "Z -> TD"),
              ("md_is_all_day", "MD -> bool"), ("zone_is_utc", "ZN -> bool"), ("dv_to_date", "DV -> DV"),
              ("dv_fromtimestamp", "Z -> ZN -> DV"), ("zn_utc", "ZN"),
              ("ivl_vars", "IVLX -> MD"), ("ivl_start", "IVLX -> option Z"), ("ivl_end", "IVLX -> option Z"),
              ("ivl_is_all_day", "IVLX -> MD -> bool"), ("md_text", "MD -> Z -> option TXT"),
              ("md_empty", "MD"), ("ev_empty", "EV"), ("ev_add_dtstart", "DV -> EV -> EV"), ("ev_add_dtend", "DV -> EV -> EV"),
              ("ev_add_duration", "TD -> EV -> EV"), ("ev_add_rrule", "VR -> EV -> EV"),
              ("ev_add_exdate", "DV -> EV -> EV"), ("ev_add_text", "Z -> TXT -> EV -> EV")]
TEXT_KEYS = ["summary", "description", "uid", "location"]

SPECS_ICAL += [
    dict(name="g_ical_interval_to_vevent", file=ICAL, func="_interval_to_vevent", kind="expr", res=True, ret="EV", gx=True,
         file_has=[DT_IMPORT, "from calgebra.recurrence import RecurringPattern, _anchor_wall_clock",
                   "from typing import Any, Literal, cast"],
         tyvars=ITV_TYVARS, types=dict({k: k for k in ITV_TYVARS}, FREQ="freq"), enums=FREQ,
         annotations={"dict[str, Any]": "MD"}, truthy=["TXT"],
         params=ITV_PARAMS + [("item", "ITEM")],
         text_exprs={"Event()": ("ev_empty", "EV"), "{}": ("md_empty", "MD"),
                     "timezone.utc": ("zn_utc", "ZN")},
         patterns=[("isinstance(_1, RecurringPattern)", "(item_is_pattern {0})", ["ITEM"], "B"),
                   ("cast(RecurringPattern[ICalEvent], _1)", "(item_as_pattern {0})", ["ITEM"], "RP"),
                   ("cast(Interval, _1)", "(item_as_interval {0})", ["ITEM"], "IVLX"),
                   ("_1.zone or timezone.utc", "(rp_zone_or_utc {0})", ["RP"], "ZN"),
                   ("bool(_1.get('is_all_day'))", "(md_is_all_day {0})", ["MD"], "B"),
                   ("str(_1) == 'UTC'", "(zone_is_utc {0})", ["ZN"], "B"),
                   ("vars(_1)", "(ivl_vars {0})", ["IVLX"], "MD"),
                   ("_2.get('is_all_day', False) or getattr(_1, 'is_all_day', False)", "(ivl_is_all_day {0} {1})",
                    ["IVLX", "MD"], "B")] +
                  [("_1.get('%s')" % k, "(md_text {0} %d)" % i, ["MD"], "O:TXT") for i, k in enumerate(TEXT_KEYS)] +
                  [("__ical_add__(_1, 'dtstart', _2)", "(ev_add_dtstart {1} {0})", ["EV", "DV"], "EV"),
                   ("__ical_add__(_1, 'dtend', _2)", "(ev_add_dtend {1} {0})", ["EV", "DV"], "EV"),
                   ("__ical_add__(_1, 'duration', _2)", "(ev_add_duration {1} {0})", ["EV", "TD"], "EV"),
                   ("__ical_add__(_1, 'rrule', _2)", "(ev_add_rrule {1} {0})", ["EV", "VR"], "EV"),
                   ("__ical_add__(_1, 'exdate', _2)", "(ev_add_exdate {1} {0})", ["EV", "DV"], "EV")] +
                  [("__ical_add__(_1, '%s', _2)" % k, "(ev_add_text %d {1} {0})" % i, ["EV", "TXT"], "EV")
                   for i, k in enumerate(TEXT_KEYS)],
         calls=dict(PB_CALL, **{
             "_anchor_wall_clock": ("anchor_wall_clock", ["Z", "Z", "ZN"], "DV"),
             "vRecur.from_ical": dict(coq="vrecur_from_ical", args=["STR"], ret="VR", res=True),
             "timedelta": dict(coq="td_of_seconds", args=[], kw=[("seconds", "Z")], ret="TD"),
             "datetime.fromtimestamp": dict(coq="dv_fromtimestamp", args=["Z"], kw=[("tz", "ZN")], ret="DV")}),
         methods={("RP", "to_rrule_string"): dict(coq="rp_rrule_string", args=[], ret="STR"),
                  ("DV", "replace"): dict(coq="dv_with_zone", args=[], kw=[("tzinfo", "ZN")], ret="DV"),
                  ("DV", "date"): dict(coq="dv_to_date", args=[], ret="DV")},
         attrs={("RP", "metadata"): ("rp_metadata", "MD"), ("RP", "anchor_timestamp"): ("rp_anchor_timestamp", "OZ"),
                ("RP", "start_seconds"): ("rp_start_seconds", "Z"), ("RP", "duration_seconds"): ("rp_duration_seconds", "Z"),
                ("RP", "freq"): ("rp_freq", "FREQ"), ("RP", "exdates"): ("rp_exdates", "FS"),
                ("IVLX", "start"): ("ivl_start", "OZ"), ("IVLX", "end"): ("ivl_end", "OZ")},
         binops={("DV", "+", "TD"): ("dv_add", "DV")},
         ical_ext=dict(adds=["event"], unroll_pairs=True)),
]

HEADER_ICAL = "From CG Require Import Model.IcalSrc.\n"
