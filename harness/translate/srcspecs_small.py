"""Third extension of tie C, tag "small": the remaining small pieces — constructors, `_is_mask`, the operator
methods of Timeline, flatten(), buffer() / merge_within(), Interval.__post_init__ / duration /
from_datetimes, CachedTimeline.__init__ / _get_key, the module constants.

TRUSTED readings (each is a reading of Python's semantics that the equivalence theorems of
coq/Proofs/GenEq_small_*.v rest on; everything else is checked on the source text and fails closed):

 T1  kind "ctor": an `__init__` that only executes `self.f = e` / `self.f: T = e`, `if` and `raise` builds an
     object whose state is exactly the stored fields (a Gallina record, Model/Small.v).  The translator checks
     that the class and its methods store no other attribute, that the class defines no attribute hook
     (__setattr__, __getattr__, __getattribute__, __new__, __init_subclass__, __slots__), that __init__ never
     READS self, that every field is stored on every normally-ending path, that the bases are spelled as the
     spec says and (spec "facts") that the base class Timeline defines none of __init__, __new__, __setattr__,
     __init_subclass__.  TRUSTED: ABC / Generic (typing) do not intercept attribute stores or construction.
     Also checked: outside __init__ no method stores a field again (any `<expr>.f = ..` with f a field name), except the
     fields the spec declares mutable (CachedTimeline: _key_validated, _expiry_seq — state variables of the
     cache model); the class does not use setattr / delattr / vars / __dict__.  So the fields a generated
     fetch reads (self.before, self.gap, self.sources, ..) are the ones the generated __init__ stored.
 T2  An annotation in `self.f: T = e` has no run-time effect.
 T3  `*sources` / `*subtractors` is the tuple of the positional arguments in order (read as a list);
     `tuple(xs)` of a list has the same items in the same order; `xs.extend(ys)` appends the items of ys in order.
 T4  Default values of parameters are not modelled: a generated definition takes every parameter explicitly
     (buffer(before=0, after=0); CachedTimeline(key="id"); _stitch_at(fresh_side="left")).
 T5  `x._is_mask` on an operand is the function parameter tl_is_mask (the theorems instantiate it with the
     model's is_mask, itself proved equal to the generated `_is_mask` of every class: is_mask_is_source).
     A class that does not define `_is_mask` uses Timeline._is_mask (spec "facts": the class lacks the name and
     its first base is Timeline[..]); TRUSTED: attribute lookup follows the MRO, Generic[..] defines no _is_mask.
 T6  `isinstance(source, cls)` in _flatten_sources is the parameter tl_is_cls (instantiated with "is a Union" /
     "is an Intersection" node of the model); `source.sources` is tl_sources.  The class passed by the two
     callers is pinned by the exact text of the call: `_flatten_sources(sources, Union)` /
     `_flatten_sources(sources, Intersection)`.  No class of calgebra subclasses Union / Intersection (not checked).
 T7  `isinstance(other, Filter)` tells the two kinds of operand of | and & apart (sum type `operand` of
     Model/Small.v: OTimeline / OFilter); the constructors called (Union, Intersection, Filtered, Difference,
     Complement) are function parameters which the theorems instantiate with the GENERATED __init__ of that
     class followed by the decoding of its record into the model's expression.
 T8  `~x` on a Timeline calls Timeline.__invert__ (spec "facts": in core.py, transform.py, cache.py, recurrence.py,
     mutable/__init__.py and mutable/memory.py no other class defines __invert__).
 T9  @overload stubs (body `...`) before the real definition are ignored (Python keeps the last `def`; the
     translator checks that the stubs come first and that the last definition is undecorated).
 T10 Interval is a dataclass: `cls(start=s, end=e, **kwargs)` stores the fields and then runs __post_init__;
     the theorem about from_datetimes instantiates the parameter cls_new with exactly that, built from the
     GENERATED __post_init__.  kwargs (the fields of a subclass) is the model's payload.  @classmethod: cls is
     the class; `start: datetime` — the two arguments are datetime objects (sum type dtarg: aware, denoting the
     instant t = int(x.timestamp()), or naive); anything else raises AttributeError (not modelled).
 T11 sys.maxsize = 2**63 - 1 (64-bit CPython).
 T12 kind "const": a module-level name assigned exactly once in its module (checked: one store in the whole
     module, no `global`, no import of the name, no `import *`) holds that value (nobody patches the module
     attribute from outside).
 T13 CachedTimeline.__init__: `MemoryTimeline()` is an empty store (the empty sorted list of the model: of
     intervals for _sink, of cover records for _cover; spec "empty_calls"); `threading.Lock()` is not part of
     the modelled state (the lock discipline is C11's subject; spec "ignore_stores"); ttl (a float) is an
     integer number of clock ticks as everywhere in Model/Cache.v; `key` is a str or a sequence of str (sum
     type keyarg; field names are numbers): `(key,)` = [s], `tuple(key)` = the list.
 T14 _get_key: `getattr(ivl, f)` is the parameter ivl_getattr : ivl -> N -> option FV (None = AttributeError);
     `tuple(getattr(ivl, f) for f in fields)` evaluates left to right and the first missing field raises:
     opt_all (Model/Small.v).  `raise TypeError(..) from e` raises TypeError.
 T15 `solid` is the module-level instance `_SolidTimeline()`, _SolidTimeline has no __init__ (facts).
"""
from .srcspecs import FETCH_T, CORE

TRANSFORM = "calgebra/transform.py"
CACHE = "calgebra/cache.py"
INTERVAL = "calgebra/interval.py"
UTIL = "calgebra/util.py"

HEADER_SMALL = "From CG Require Import Model.Small.\n"

# the base class Timeline defines no construction / attribute hook
TIMELINE_PLAIN = ("lacks", CORE, "Timeline", ["__init__", "__new__", "__setattr__", "__init_subclass__",
                                              "__getattr__", "__getattribute__", "__slots__"])
TL_FILES = [CORE, TRANSFORM, CACHE, "calgebra/recurrence.py", "calgebra/mutable/__init__.py",
            "calgebra/mutable/memory.py"]

REC = {
    "BUFREC": dict(coq="bufrec TL", mk="mkBuf", cls="_Buffered",
                   fields=[("source", "bf_source", "TL"), ("before", "bf_before", "Z"), ("after", "bf_after", "Z")],
                   default=None),
    "MWREC": dict(coq="mwrec TL", mk="mkMW", cls="_MergedWithin",
                  fields=[("source", "mw_source", "TL"), ("gap", "mw_gap", "Z")], default=None),
    "UNREC": dict(coq="srcsrec TL", mk="mkSrcs", cls="Union",
                  fields=[("sources", "ss_sources", "L:TL")], default=None),
    "INREC": dict(coq="srcsrec TL", mk="mkSrcs", cls="Intersection",
                  fields=[("sources", "ss_sources", "L:TL")], default=None),
    "FLREC": dict(coq="filtrec TL FT", mk="mkFilt", cls="Filtered",
                  fields=[("source", "fl_source", "TL"), ("filter", "fl_filter", "FT")], default=None),
    "DFREC": dict(coq="diffrec TL", mk="mkDiff", cls="Difference",
                  fields=[("source", "df_source", "TL"), ("subtractors", "df_subtractors", "L:TL")], default=None),
    "CPREC": dict(coq="complrec TL", mk="mkCompl", cls="Complement",
                  fields=[("source", "cp_source", "TL")], default=None),
    "CCREC": dict(coq="cacherec TL", mk="mkCacheRec", cls="CachedTimeline",
                  fields=[("source", "cr_source", "TL"), ("ttl", "cr_ttl", "Z"),
                          ("_key_fields", "cr_key_fields", "O:KEYS"), ("_key_validated", "cr_key_validated", "B"),
                          ("_sink", "cr_sink", "LIST"), ("_cover", "cr_cover", "L:COV"),
                          ("_expiry_heap", "cr_heap", "L:HENT"), ("_expiry_seq", "cr_seq", "N")], default=None),
}


def rec(*names):
    return {n: REC[n] for n in names}


TLT = {"TL": "TL"}
MASK_ATTR = {("TL", "_is_mask"): ("tl_is_mask", "B")}

DT_SUM = {"DTARG": dict(
    coq="dtarg", ctors=[("DAware", [("t", "Z"), ("zone", "N")]), ("DNaive", [])],
    exprs={"DAware": {"{x}.tzinfo is None": ("false", "B"), "int({x}.timestamp())": ("{t}", "Z")},
           "DNaive": {"{x}.tzinfo is None": ("true", "B"), "int({x}.timestamp())": None}})}

OPERAND_SUM = {"OPERAND": dict(
    coq="operand TL FT", ctors=[("OTimeline", [("tl", "TL")]), ("OFilter", [("f", "FT")])],
    exprs={"OTimeline": {"isinstance({x}, Filter)": ("false", "B"), "{x}": ("{tl}", "TL")},
           "OFilter": {"isinstance({x}, Filter)": ("true", "B"), "{x}": ("{f}", "FT")}})}

KEYARG_SUM = {"KEYARG": dict(
    coq="keyarg", ctors=[("KStr", [("s", "N")]), ("KSeq", [("l", "L:N")])],
    exprs={"KStr": {"isinstance({x}, str)": ("true", "B"), "({x},)": ("[{s}]", "KEYS"), "tuple({x})": None},
           "KSeq": {"isinstance({x}, str)": ("false", "B"), "tuple({x})": ("{l}", "KEYS"), "({x},)": None}})}


def mask_spec(name, cls, file=CORE, **kw):
    d = dict(name=name, file=file, cls=cls, func="_is_mask", kind="expr", ret="B", params=[])
    d.update(kw)
    return d


def inherits_mask(file, cls, bases):
    """the class has no _is_mask of its own and derives from Timeline first: it uses Timeline._is_mask"""
    return [("lacks", file, cls, ["_is_mask", "__getattr__", "__getattribute__"]), ("bases", file, cls, bases)]


SPECS_SMALL = [
    # ---------------------------------------------------------------- util.py / interval.py: the constants
    dict(name="g_const_SECOND", file=UTIL, kind="const", const="SECOND"),
    dict(name="g_const_MINUTE", file=UTIL, kind="const", const="MINUTE"),
    dict(name="g_const_HOUR", file=UTIL, kind="const", const="HOUR"),
    dict(name="g_const_DAY", file=UTIL, kind="const", const="DAY"),
    dict(name="g_const_WEEK", file=UTIL, kind="const", const="WEEK"),
    dict(name="g_const_MONTH", file=UTIL, kind="const", const="MONTH"),
    dict(name="g_const_YEAR", file=UTIL, kind="const", const="YEAR"),
    dict(name="g_const_NEG_INF", file=INTERVAL, kind="const", const="NEG_INF",
         text_exprs={"sys.maxsize": ("9223372036854775807", "Z")}, file_has=["import sys"]),
    dict(name="g_const_POS_INF", file=INTERVAL, kind="const", const="POS_INF",
         text_exprs={"sys.maxsize": ("9223372036854775807", "Z")}, file_has=["import sys"]),
    # ---------------------------------------------------------------- interval.py
    dict(name="g_interval_post_init", file=INTERVAL, cls="Interval", func="__post_init__", kind="check", res=True,
         params=[("self", "IVL")]),
    dict(name="g_interval_duration", file=INTERVAL, cls="Interval", func="duration", kind="expr", ret="OZ",
         pyname="Interval.duration", params=[("self", "IVL")]),
    dict(name="g_interval_from_datetimes", file=INTERVAL, cls="Interval", func="from_datetimes", kind="expr",
         res=True, ret="IVL", decorators_ok=["classmethod"], kwarg="kwargs", types={"N": "N"}, sums=DT_SUM,
         file_has=["from datetime import datetime"],
         params=[("cls_new", "Z -> Z -> res ivl"), ("start", "DTARG"), ("end", "DTARG")],
         calls={"cls": dict(coq="cls_new", args=[], kw=[("start", "Z"), ("end", "Z")], fixed={"**": "kwargs"},
                            ret="IVL", res=True)}),
    # ---------------------------------------------------------------- transform.py
    dict(name="g_buffered_init", file=TRANSFORM, cls="_Buffered", func="__init__", kind="ctor", record="BUFREC",
         records=rec("BUFREC"), tyvars=["TL"], types=TLT, bases=["Timeline[Ivl]", "Generic[Ivl]"],
         facts=[TIMELINE_PLAIN], annotations={"Timeline[Ivl]": "TL"},
         params=[("source", "TL"), ("before", "Z"), ("after", "Z")]),
    dict(name="g_merged_init", file=TRANSFORM, cls="_MergedWithin", func="__init__", kind="ctor", record="MWREC",
         records=rec("MWREC"), tyvars=["TL"], types=TLT, bases=["Timeline[Ivl]", "Generic[Ivl]"],
         facts=[TIMELINE_PLAIN], annotations={"Timeline[Ivl]": "TL"},
         params=[("source", "TL"), ("gap", "Z")]),
    dict(name="g_merged_fetch", file=TRANSFORM, cls="_MergedWithin", func="fetch", kind="expr", ret="LIST",
         params=[("source_fetch", FETCH_T), ("self_gap", "Z"), ("start", "OZ"), ("end", "OZ"), ("reverse", "B")],
         calls={"self._fetch_forward": dict(coq="g_merged_fetch_forward", pre=["source_fetch", "self_gap"],
                                            args=["OZ", "OZ"], ret="LIST")}),
    dict(name="g_buffer", file=TRANSFORM, func="buffer", kind="expr", res=True, ret="BUFREC",
         records=rec("BUFREC"), tyvars=["TL"], types=TLT,
         params=[("timeline", "TL"), ("before", "Z"), ("after", "Z")]),
    dict(name="g_merge_within", file=TRANSFORM, func="merge_within", kind="expr", ret="MWREC",
         records=rec("MWREC"), tyvars=["TL"], types=TLT,
         params=[("timeline", "TL"), ("gap", "Z")]),
    # ---------------------------------------------------------------- core.py: constructors
    dict(name="g_flatten_sources", file=CORE, func="_flatten_sources", kind="expr", ret="L:TL",
         tyvars=["TL"], types=TLT, annotations={"list[Timeline[IvlOut]]": "L:TL"},
         params=[("tl_is_cls", "TL -> bool"), ("tl_sources", "TL -> list TL"), ("sources", "L:TL")],
         text_exprs={"isinstance(source, cls)": ("(tl_is_cls source)", "B")},
         attrs={("TL", "sources"): ("tl_sources", "L:TL")}),
    dict(name="g_union_init", file=CORE, cls="Union", func="__init__", kind="ctor", record="UNREC",
         records=rec("UNREC"), tyvars=["TL"], types=TLT, bases=["Timeline[IvlOut]"], facts=[TIMELINE_PLAIN],
         annotations={"tuple[Timeline[IvlOut], ...]": "L:TL"}, vararg="sources",
         params=[("tl_is_union", "TL -> bool"), ("tl_sources", "TL -> list TL"), ("sources", "L:TL")],
         text_exprs={"_flatten_sources(sources, Union)": ("(g_flatten_sources tl_is_union tl_sources sources)", "L:TL")}),
    dict(name="g_intersection_init", file=CORE, cls="Intersection", func="__init__", kind="ctor", record="INREC",
         records=rec("INREC"), tyvars=["TL"], types=TLT, bases=["Timeline[IvlOut]"], facts=[TIMELINE_PLAIN],
         annotations={"tuple[Timeline[IvlOut], ...]": "L:TL"}, vararg="sources",
         params=[("tl_is_intersection", "TL -> bool"), ("tl_sources", "TL -> list TL"), ("sources", "L:TL")],
         text_exprs={"_flatten_sources(sources, Intersection)":
                     ("(g_flatten_sources tl_is_intersection tl_sources sources)", "L:TL")}),
    dict(name="g_filtered_init", file=CORE, cls="Filtered", func="__init__", kind="ctor", record="FLREC",
         records=rec("FLREC"), tyvars=["TL", "FT"], types={"TL": "TL", "FT": "FT"}, bases=["Timeline[IvlOut]"],
         facts=[TIMELINE_PLAIN], annotations={"Timeline[IvlOut]": "TL", "Filter[IvlOut]": "FT"},
         params=[("source", "TL"), ("filter", "FT")]),
    dict(name="g_difference_init", file=CORE, cls="Difference", func="__init__", kind="ctor", record="DFREC",
         records=rec("DFREC"), tyvars=["TL"], types=TLT, bases=["Timeline[IvlOut]"], facts=[TIMELINE_PLAIN],
         annotations={"Timeline[IvlOut]": "TL", "tuple[Timeline[Any], ...]": "L:TL"}, vararg="subtractors",
         params=[("source", "TL"), ("subtractors", "L:TL")]),
    dict(name="g_complement_init", file=CORE, cls="Complement", func="__init__", kind="ctor", record="CPREC",
         records=rec("CPREC"), tyvars=["TL"], types=TLT, bases=["Timeline[Interval]"], facts=[TIMELINE_PLAIN],
         annotations={"Timeline[Any]": "TL"}, params=[("source", "TL")]),
    # ---------------------------------------------------------------- core.py: the operators and flatten()
    dict(name="g_tl_or", file=CORE, cls="Timeline", func="__or__", kind="expr", res=True, ret="TL", overloads=True,
         tyvars=["TL", "FT"], types={"TL": "TL", "FT": "FT"}, sums=OPERAND_SUM,
         params=[("mk_union", "TL -> TL -> TL"), ("self", "TL"), ("other", "OPERAND")],
         calls={"Union": ("mk_union", ["TL", "TL"], "TL")}),
    dict(name="g_tl_and", file=CORE, cls="Timeline", func="__and__", kind="expr", ret="TL", overloads=True,
         tyvars=["TL", "FT"], types={"TL": "TL", "FT": "FT"}, sums=OPERAND_SUM,
         params=[("mk_filtered", "TL -> FT -> TL"), ("mk_intersection", "TL -> TL -> TL"), ("self", "TL"),
                 ("other", "OPERAND")],
         calls={"Filtered": ("mk_filtered", ["TL", "FT"], "TL"),
                "Intersection": ("mk_intersection", ["TL", "TL"], "TL")}),
    dict(name="g_tl_sub", file=CORE, cls="Timeline", func="__sub__", kind="expr", ret="TL",
         tyvars=["TL"], types=TLT, params=[("mk_difference", "TL -> TL -> TL"), ("self", "TL"), ("other", "TL")],
         calls={"Difference": ("mk_difference", ["TL", "TL"], "TL")}),
    dict(name="g_tl_invert", file=CORE, cls="Timeline", func="__invert__", kind="expr", ret="TL",
         tyvars=["TL"], types=TLT, params=[("mk_complement", "TL -> TL"), ("self", "TL")],
         calls={"Complement": ("mk_complement", ["TL"], "TL")}),
    dict(name="g_flatten", file=CORE, func="flatten", kind="expr", ret="TL", tyvars=["TL"], types=TLT,
         facts=[("sole_definer", TL_FILES, "__invert__", "Timeline")],
         params=[("tl_invert", "TL -> TL"), ("timeline", "TL")], unops={("TL", "~"): ("tl_invert", "TL")}),
    # ---------------------------------------------------------------- _is_mask, class by class
    mask_spec("g_base_is_mask", "Timeline"),
    mask_spec("g_solid_is_mask", "_SolidTimeline",
              facts=[("module_has", CORE, "solid: Timeline[Interval] = _SolidTimeline()"),
                     ("lacks", CORE, "_SolidTimeline", ["__init__", "__new__"]), TIMELINE_PLAIN,
                     ("bases", CORE, "_SolidTimeline", ["Timeline[Interval]"])]),
    mask_spec("g_union_is_mask", "Union", tyvars=["TL"], types=TLT,
              params=[("self_sources", "L:TL"), ("tl_is_mask", "TL -> bool")],
              selfattrs={"sources": ("self_sources", "L:TL")}, attrs=MASK_ATTR),
    mask_spec("g_intersection_is_mask", "Intersection", tyvars=["TL"], types=TLT,
              params=[("self_sources", "L:TL"), ("tl_is_mask", "TL -> bool")],
              selfattrs={"sources": ("self_sources", "L:TL")}, attrs=MASK_ATTR),
    mask_spec("g_filtered_is_mask", "Filtered", tyvars=["TL"], types=TLT,
              params=[("self_source", "TL"), ("tl_is_mask", "TL -> bool")],
              selfattrs={"source": ("self_source", "TL")}, attrs=MASK_ATTR),
    mask_spec("g_difference_is_mask", "Difference", tyvars=["TL"], types=TLT,
              params=[("self_source", "TL"), ("tl_is_mask", "TL -> bool")],
              selfattrs={"source": ("self_source", "TL")}, attrs=MASK_ATTR),
    mask_spec("g_complement_is_mask", "Complement"),
    # classes that use Timeline._is_mask: the same text, translated under the facts that make it theirs
    mask_spec("g_buffered_is_mask", "Timeline",
              facts=inherits_mask(TRANSFORM, "_Buffered", ["Timeline[Ivl]", "Generic[Ivl]"])),
    mask_spec("g_merged_is_mask", "Timeline",
              facts=inherits_mask(TRANSFORM, "_MergedWithin", ["Timeline[Ivl]", "Generic[Ivl]"])),
    mask_spec("g_memory_is_mask", "Timeline",
              facts=inherits_mask("calgebra/mutable/memory.py", "MemoryTimeline", ["MutableTimeline[Interval]"]) +
              inherits_mask("calgebra/mutable/__init__.py", "MutableTimeline", ["Timeline[IvlOut]", "Generic[IvlOut]"])),
    # ---------------------------------------------------------------- cache.py
    mask_spec("g_cached_is_mask", "CachedTimeline", file=CACHE, tyvars=["TL"], types=TLT,
              params=[("self_source", "TL"), ("tl_is_mask", "TL -> bool")],
              selfattrs={"source": ("self_source", "TL")}, attrs=MASK_ATTR),
    dict(name="g_cached_init", file=CACHE, cls="CachedTimeline", func="__init__", kind="ctor", record="CCREC",
         records=rec("CCREC"), tyvars=["TL"],
         types={"TL": "TL", "KEYS": "(list N)", "HENT": "hent", "COV": "cov", "N": "N"}, sums=KEYARG_SUM,
         bases=["Timeline[IvlOut]"], facts=[TIMELINE_PLAIN],
         annotations={"tuple[str, ...] | None": "O:KEYS", "MemoryTimeline": ["LIST", "L:COV"],
                      "list[tuple[float, int, CoverInterval]]": "L:HENT"},
         ignore_stores={"_lock": "threading.Lock()"}, empty_calls=["MemoryTimeline()"],
         mutable_fields=["_key_validated", "_expiry_seq"],
         params=[("tl_is_mask", "TL -> bool"), ("source", "TL"), ("ttl", "Z"), ("key", "KEYARG")],
         attrs=MASK_ATTR),
    dict(name="g_cache_get_key", file=CACHE, cls="CachedTimeline", func="_get_key", kind="expr", res=True,
         ret="O:VALS", tyvars=["FV"], types={"KEYS": "(list N)", "VALS": "(list FV)", "N": "N", "FV": "FV"},
         params=[("self_key_fields", "O:KEYS"), ("ivl_getattr", "ivl -> N -> option FV"), ("ivl", "IVL")],
         selfattrs={"_key_fields": ("self_key_fields", "O:KEYS")}, try_collect=dict(
             getter="getattr", coq="ivl_getattr", recv="IVL", item="N", exc="AttributeError", ret="VALS")),
]
